SPECIFICATION Spec
CONSTANTS
  InitFinal = FALSE
  NVars = 3
  Family <- Pos3
INVARIANT Sound
CHECK_DEADLOCK FALSE
