---------------------------- MODULE HasherProof ----------------------------
(***************************************************************************)
(* TLAPS proof of the design argument behind the incremental residual      *)
(* hasher (HasherAlgo.tla, CnfHasher in src/repr/cnf.rs), for ANY set of   *)
(* clauses, ANY set of literals and histories of ANY depth:                *)
(*   the clauses the stack-based computation keeps for the caller's model  *)
(*   are exactly those a from-scratch pass over all tracked clauses keeps. *)
(* Abstraction: a partial model is the set of literals it makes true; the  *)
(* stack is a function on the naturals with a depth counter (push copies   *)
(* the top frame and saves the caller's model, pop restores both).         *)
(* Has(i, x) = clause i contains literal x.                                *)
(***************************************************************************)
EXTENDS Naturals, TLAPS
CONSTANTS Clauses, Lits, Has(_, _)
VARIABLES st, sv, pm, d

With(x) == {i \in Clauses : Has(i, x)}
Kept(S, m) == {i \in S : ~\E x \in m : Has(i, x)}

Init == /\ d = 1 /\ pm = {}
        /\ st = [k \in Nat |-> Clauses]
        /\ sv = [k \in Nat |-> {}]
Push == /\ d' = d + 1
        /\ st' = [st EXCEPT ![d + 1] = st[d]]
        /\ sv' = [sv EXCEPT ![d] = pm]
        /\ pm' = pm
Pop == /\ d > 1 /\ d' = d - 1
       /\ pm' = sv[d - 1]
       /\ UNCHANGED <<st, sv>>
Decide(x) == /\ st' = [st EXCEPT ![d] = st[d] \ With(x)]
             /\ pm' = pm \cup {x}
             /\ UNCHANGED <<sv, d>>
Imply(x) == /\ pm' = pm \cup {x}
            /\ UNCHANGED <<st, sv, d>>
Next == Push \/ Pop \/ \E x \in Lits : Decide(x) \/ Imply(x)
vars == <<st, sv, pm, d>>
Spec == Init /\ [][Next]_vars

(* the model that belongs to stack level k *)
M(k) == IF k = d THEN pm ELSE sv[k]
Good(S, m) == S \subseteq Clauses /\ \A i \in Clauses \ S : \E x \in m : Has(i, x)
IndInv == /\ d \in Nat /\ d >= 1
          /\ st \in [Nat -> SUBSET Clauses]
          /\ sv \in [Nat -> SUBSET Lits] /\ pm \in SUBSET Lits
          /\ \A k \in 1 .. d : Good(st[k], M(k))
Incremental == Kept(st[d], pm) = Kept(Clauses, pm)

LEMMA GoodKept == \A S, m : Good(S, m) => Kept(S, m) = Kept(Clauses, m)
  BY DEF Good, Kept

THEOREM InitOK == Init => IndInv
  BY DEF Init, IndInv, Good, M

THEOREM StepOK == IndInv /\ [Next]_vars => IndInv'
<1> SUFFICES ASSUME IndInv, [Next]_vars PROVE IndInv'
    OBVIOUS
<1>1. CASE Push
  <2>1. d' \in Nat /\ d' >= 1 /\ st' \in [Nat -> SUBSET Clauses] /\ sv' \in [Nat -> SUBSET Lits] /\ pm' \in SUBSET Lits
      BY <1>1 DEF Push, IndInv
  <2>2. ASSUME NEW k \in 1 .. d' PROVE Good(st'[k], M(k)')
    <3>1. CASE k = d + 1
        BY <1>1, <3>1 DEF Push, IndInv, Good, M
    <3>2. CASE k = d
        BY <1>1, <3>2 DEF Push, IndInv, Good, M
    <3>3. CASE k < d
        BY <1>1, <3>3 DEF Push, IndInv, Good, M
    <3> QED BY <1>1, <3>1, <3>2, <3>3 DEF Push, IndInv
  <2> QED BY <2>1, <2>2 DEF IndInv
<1>2. CASE Pop
  <2>1. d' \in Nat /\ d' >= 1 /\ st' \in [Nat -> SUBSET Clauses] /\ sv' \in [Nat -> SUBSET Lits] /\ pm' \in SUBSET Lits
      BY <1>2 DEF Pop, IndInv
  <2>2. ASSUME NEW k \in 1 .. d' PROVE Good(st'[k], M(k)')
      BY <1>2 DEF Pop, IndInv, Good, M
  <2> QED BY <2>1, <2>2 DEF IndInv
<1>3. ASSUME NEW x \in Lits, Decide(x) PROVE IndInv'
  <2>1. d' \in Nat /\ d' >= 1 /\ st' \in [Nat -> SUBSET Clauses] /\ sv' \in [Nat -> SUBSET Lits] /\ pm' \in SUBSET Lits
      BY <1>3 DEF Decide, IndInv
  <2>2. ASSUME NEW k \in 1 .. d' PROVE Good(st'[k], M(k)')
    <3>1. CASE k = d
        BY <1>3, <3>1 DEF Decide, IndInv, Good, M, With
    <3>2. CASE k # d
        BY <1>3, <3>2 DEF Decide, IndInv, Good, M
    <3> QED BY <3>1, <3>2
  <2> QED BY <2>1, <2>2 DEF IndInv
<1>4. ASSUME NEW x \in Lits, Imply(x) PROVE IndInv'
  <2>1. d' \in Nat /\ d' >= 1 /\ st' \in [Nat -> SUBSET Clauses] /\ sv' \in [Nat -> SUBSET Lits] /\ pm' \in SUBSET Lits
      BY <1>4 DEF Imply, IndInv
  <2>2. ASSUME NEW k \in 1 .. d' PROVE Good(st'[k], M(k)')
      BY <1>4 DEF Imply, IndInv, Good, M
  <2> QED BY <2>1, <2>2 DEF IndInv
<1>5. CASE UNCHANGED vars
    BY <1>5 DEF vars, IndInv, Good, M
<1> QED BY <1>1, <1>2, <1>3, <1>4, <1>5 DEF Next

THEOREM IncrementalOK == IndInv => Incremental
  BY GoodKept DEF IndInv, Incremental, M

THEOREM Spec => []Incremental
<1>1. Spec => []IndInv
    BY InitOK, StepOK, PTL DEF Spec
<1> QED BY <1>1, IncrementalOK, PTL
=============================================================================
