------------------------------- MODULE Bignum -------------------------------
(***************************************************************************)
(* L0 vocabulary: naturals beyond TLC's 32-bit integers, as little-endian  *)
(* sequences of base-10^4 limbs without leading zero limbs (0 = <<0>>).    *)
(* Used for residues of the exported 64/96-bit primes and 128-bit hashes.  *)
(* Every partial sum below stays < 2^31: limbs < 10^4, at most 9 limbs per *)
(* operand in products (9 * 10^8 < 2^31).                                  *)
(***************************************************************************)
EXTENDS Naturals, Integers, Sequences

BASE == 10000
IsLimbs(a) == /\ Len(a) >= 1
              /\ \A i \in 1 .. Len(a) : a[i] \in 0 .. (BASE - 1)
              /\ (Len(a) > 1 => a[Len(a)] # 0)

Limb(a, i) == IF i <= Len(a) THEN a[i] ELSE 0

RECURSIVE Strip(_)
Strip(a) == IF Len(a) > 1 /\ a[Len(a)] = 0 THEN Strip(SubSeq(a, 1, Len(a) - 1)) ELSE a

RECURSIVE AddFrom(_, _, _, _)
AddFrom(a, b, i, carry) ==
  IF i > Len(a) /\ i > Len(b) THEN (IF carry = 0 THEN << >> ELSE <<carry>>)
  ELSE LET s == Limb(a, i) + Limb(b, i) + carry
       IN <<s % BASE>> \o AddFrom(a, b, i + 1, s \div BASE)
LAdd(a, b) == Strip(AddFrom(a, b, 1, 0))

(* comparison: -1, 0, 1 *)
RECURSIVE CmpFrom(_, _, _)
CmpFrom(a, b, i) ==
  IF i = 0 THEN 0
  ELSE IF Limb(a, i) < Limb(b, i) THEN -1
  ELSE IF Limb(a, i) > Limb(b, i) THEN 1
  ELSE CmpFrom(a, b, i - 1)
LCmp(a, b) == CmpFrom(a, b, IF Len(a) > Len(b) THEN Len(a) ELSE Len(b))
LLess(a, b) == LCmp(a, b) = -1

(* a - b for a >= b *)
RECURSIVE SubFrom(_, _, _, _)
SubFrom(a, b, i, borrow) ==
  IF i > Len(a) THEN << >>
  ELSE LET d == Limb(a, i) - Limb(b, i) - borrow
       IN IF d < 0 THEN <<d + BASE>> \o SubFrom(a, b, i + 1, 1)
          ELSE <<d>> \o SubFrom(a, b, i + 1, 0)
LSub(a, b) == Strip(SubFrom(a, b, 1, 0))

(* schoolbook product: column k (1-based) = sum of a[i]*b[k+1-i]; columns are accumulated *)
(* with carries limb by limb so no intermediate exceeds 2^31                              *)
RECURSIVE ColSum(_, _, _, _)
ColSum(a, b, k, i) ==
  IF i > k THEN 0
  ELSE (IF i <= Len(a) /\ (k + 1 - i) <= Len(b) /\ (k + 1 - i) >= 1 THEN a[i] * b[k + 1 - i] ELSE 0)
       + ColSum(a, b, k, i + 1)
RECURSIVE MulFrom(_, _, _, _)
MulFrom(a, b, k, carry) ==
  IF k > Len(a) + Len(b) THEN (IF carry = 0 THEN << >> ELSE <<carry>>)
  ELSE LET s == ColSum(a, b, k, 1) + carry
       IN <<s % BASE>> \o MulFrom(a, b, k + 1, s \div BASE)
LMul(a, b) == Strip(MulFrom(a, b, 1, 0))

(* (a mod p) for a < 2p *)
ModOnce(a, p) == IF LLess(a, p) THEN a ELSE LSub(a, p)

PrimeLimbs(name) ==
  CASE name = "U32_TINY" -> <<1, 100>>
    [] name = "U32_SMALL" -> <<1599, 7900, 4>>
    [] name = "U64_LARGEST" -> <<1591, 955, 737, 6744, 1844>>
    [] name = "U128_LARGE_1" -> <<9757, 5201, 1996, 2370, 4621, 298, 6084, 4>>
    [] name = "U128_LARGE_2" -> <<7137, 3696, 7731, 3825, 1627, 692, 9703, 4>>
    [] name = "U128_LARGE_3" -> <<4159, 4016, 9856, 4218, 8179, 6034, 4733, 6>>
    [] name = "U128_LARGE_4" -> <<621, 9629, 8170, 6483, 292, 9794, 9016, 7>>
=============================================================================
