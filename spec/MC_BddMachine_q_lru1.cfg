SPECIFICATION Spec
CONSTANTS
  NV = 2
  Ord <- O10
  Slots = 1
  MaxNodes = 4
  MaxCache = 9
  Ops <- IteCond
  GetIgnoresCompl = FALSE
  GetIgnoresKey = FALSE
INVARIANTS ResultOK ShapeOK Canonical CacheSound CacheShape CacheStandard
CHECK_DEADLOCK FALSE
