----------------------------- MODULE BranchBound -----------------------------
(***************************************************************************)
(* L2: marginal MAP by branch and bound (src/repr/bdd.rs: marginal_map,    *)
(* marginal_map_h, marginal_map_eval) at the level of functions; the ROBDD *)
(* of a function under an order is determined by the pair, so the fold     *)
(* over the diagram is the Shannon recursion on the first variable the     *)
(* function depends on.  Transcribed:                                      *)
(*   UB(pm, S)  = product of the weights of the assigned query literals    *)
(*                times the fold that takes max over the query variables   *)
(*                in S, sums over the others and follows the assigned ones *)
(*   the search: larger bound first, recurse only if bound > incumbent,    *)
(*                leaf replaces the incumbent only on strict improvement,  *)
(*                initial incumbent = the all-true assignment              *)
(* Checked for all functions, all query lists and a grid of weights in the *)
(* domain of C12: the bound is an upper bound of every completion, and the *)
(* search returns the optimum with a model that attains it.                *)
(***************************************************************************)
EXTENDS Counting, TLC

CONSTANT Ord                      \* Ord[level] = variable
VARIABLES bf, bq, bw
Wexp == [i \in 1 .. NV |-> 1]     \* every weight is k/8

Gt(x, y) == LET m == Max2(x.e, y.e) IN AtExp(x, m).c[1] > AtExp(y, m).c[1]
Wt(v, b) == W("real", bw, Wexp, v, b)
RECURSIVE AssignedWeight(_, _)
AssignedWeight(pm, i) == IF i > NV THEN One("real")
                         ELSE IF pm[i] = -1 THEN AssignedWeight(pm, i + 1)
                         ELSE Mul("real", 0, Wt(i - 1, pm[i] = 1), AssignedWeight(pm, i + 1))
RECURSIVE FoldS(_, _, _)
FoldS(g, S, lvl) ==
  IF g = {} THEN Zero("real") ELSE IF g = Assign THEN One("real")
  ELSE LET i == CHOOSE i \in lvl .. NV : DependsOn(g, Ord[i]) /\ \A j \in lvl .. (i - 1) : ~DependsOn(g, Ord[j])
           v == Ord[i]
           lo == Mul("real", 0, Wt(v, FALSE), FoldS(Cond(g, v, FALSE), S, i + 1))
           hi == Mul("real", 0, Wt(v, TRUE), FoldS(Cond(g, v, TRUE), S, i + 1))
       IN IF v \in S THEN Join("real", lo, hi) ELSE Add("real", 0, lo, hi)
(* marginal_map_eval *)
UB(f, pm, S) == Mul("real", 0, AssignedWeight(pm, 1), FoldS(CondModel(f, pm), S, 1))

SetPm(pm, v, b) == [pm EXCEPT ![v + 1] = IF b THEN 1 ELSE 0]
ToSetSeq(s) == {s[i] : i \in 1 .. Len(s)}
RECURSIVE MMH(_, _, _, _, _)
MMH(f, lb, best, mv, asg) ==          \* returns <<value, model>>
  IF Len(mv) = 0
  THEN LET pb == UB(f, asg, {}) IN IF Gt(pb, lb) THEN <<pb, asg>> ELSE <<lb, best>>
  ELSE LET x == mv[1]
           rest == SubSeq(mv, 2, Len(mv))
           S == ToSetSeq(rest)
           tm == SetPm(asg, x, TRUE)
           fm == SetPm(asg, x, FALSE)
           tub == UB(f, tm, S)
           fub == UB(f, fm, S)
           first == IF Gt(tub, fub) THEN <<tub, tm>> ELSE <<fub, fm>>
           second == IF Gt(tub, fub) THEN <<fub, fm>> ELSE <<tub, tm>>
           r1 == IF Gt(first[1], lb) THEN MMH(f, lb, best, rest, first[2]) ELSE <<lb, best>>
           r2 == IF Gt(second[1], r1[1]) THEN MMH(f, r1[1], r1[2], rest, second[2]) ELSE r1
       IN r2
EmptyPm == [i \in 1 .. NV |-> -1]
RECURSIVE AllTrue(_, _)
AllTrue(q, i) == IF i > Len(q) THEN EmptyPm ELSE SetPm(AllTrue(q, i + 1), q[i], TRUE)
MarginalMap(f, q) == LET a0 == AllTrue(q, 1) IN MMH(f, UB(f, a0, {}), a0, q, EmptyPm)

(* the definition (C12) *)
Score(f, q, pm) == WMC("real", 0, {a \in f : AgreesWith(a, pm)}, bw, Wexp, NV)
Completions(q) == {pm \in [1 .. NV -> {-1, 0, 1}] : \A i \in 1 .. NV : (pm[i] # -1) = ((i - 1) \in ToSetSeq(q))}
Optimal(f, q) ==
  LET r == MarginalMap(f, q) IN
  /\ \A pm \in Completions(q) : ~Gt(Score(f, q, pm), r[1])
  /\ r[2] \in Completions(q) /\ SameValue(Score(f, q, r[2]), r[1])
(* the bound really is an upper bound of every completion of a partial assignment *)
BoundSound(f, q) ==
  \A k \in 0 .. Len(q) :
    \A pm \in {p \in [1 .. NV -> {-1, 0, 1}] : \A i \in 1 .. NV : (p[i] # -1) = (\E j \in 1 .. k : q[j] = i - 1)} :
      \A full \in {c \in Completions(q) : \A i \in 1 .. NV : pm[i] # -1 => c[i] = pm[i]} :
        ~Gt(Score(f, q, full), UB(f, pm, ToSetSeq(SubSeq(q, k + 1, Len(q)))))

QLists == UNION {{s \in [1 .. n -> Vars] : \A i, j \in 1 .. n : i # j => s[i] # s[j]} : n \in 0 .. NV}
Grid == {0, 3, 8}
QPairs == {<< <<a>>, <<b>> >> : a \in Grid, b \in Grid}                       \* query variables: arbitrary weights of the grid
FPairs == {<< <<a>>, <<8 - a>> >> : a \in {2, 4, 8}}                           \* the others: low + high = 1 (in eighths)
WeightsFor(q) == {w \in [1 .. NV -> QPairs \cup FPairs] :
                    \A v \in 1 .. NV : IF (v - 1) \in ToSetSeq(q) THEN w[v] \in QPairs ELSE w[v] \in FPairs}
(* the lattice of functions is walked one assignment at a time so that TLC's workers share the invariant evaluations *)
BInit == /\ bf = {} /\ bq \in QLists /\ bw \in WeightsFor(bq)
BNext == /\ \E a \in Assign : bf' = bf \cup {a}
         /\ UNCHANGED <<bq, bw>>
BSpec == BInit /\ [][BNext]_<<bf, bq, bw>>
OptimalInv == Optimal(bf, bq)
BoundInv == BoundSound(bf, bq)
=============================================================================
