----------------------------- MODULE MC_DTreeAlgo -----------------------------
(* eo2dtree + from_dtree over every CNF of a family and EVERY elimination order of its variables *)
EXTENDS DTreeAlgo
CONSTANTS NVars, Family
VARIABLE cnf
Lits == {x \in (0 - NVars) .. NVars : x # 0}
(* clauses as the library stores them: sorted by variable; x and -x may both occur, literals may repeat *)
Cl(w) == {c \in [1 .. w -> Lits] : \A i, j \in 1 .. w : i < j => AbsLit(c[i]) <= AbsLit(c[j])}
Strict(w) == {c \in [1 .. w -> Lits] : \A i, j \in 1 .. w : i < j => AbsLit(c[i]) < AbsLit(c[j])}
(* a family is a sequence of clause sets, one per clause position; the CNFs are walked prefix by prefix (every non-empty *)
(* prefix is checked too) so that TLC's workers share the work                                                        *)
Pos2 == << Cl(1) \cup Cl(2), Cl(1) \cup Cl(2) \cup Strict(3) >>
Pos3 == << Cl(1) \cup Strict(2), Strict(2), Cl(1) \cup Strict(2) \cup Strict(3) >>
Pos4 == << Strict(2), Strict(2), Cl(1) \cup Strict(2) >>
Pos5 == << Strict(2), Strict(2), Strict(2), Cl(1) \cup Strict(2), Cl(1) \cup {<< >>} >>
Perms(S) == {p \in [1 .. Cardinality(S) -> S] : \A i, j \in DOMAIN p : i # j => p[i] # p[j]}
Init == cnf \in {<<c>> : c \in Family[1]}
Next == /\ Len(cnf) < Len(Family)
        /\ \E c \in Family[Len(cnf) + 1] : cnf' = Append(cnf, c)
Spec == Init /\ [][Next]_cnf
(* the elimination order ranges over the permutations of 0 .. NVars-1 (variables the CNF does not mention included) *)
Sound == \A elim \in Perms(0 .. (NVars - 1)) : DTreeSoundFor(cnf, elim)
=============================================================================
