------------------------------ MODULE LossyMap ------------------------------
(***************************************************************************)
(* L1: the abstract lossy cache (C16).  The only state is, per key, the    *)
(* value most recently inserted under exactly that key.  A lookup may      *)
(* forget (answer -1 = nothing) but never answers with anything else than  *)
(* that value - across collisions, overwrites and growth.                  *)
(***************************************************************************)
EXTENDS Integers, TLC

LossyEmpty == << >>                                       \* last: key |-> value
LossyAfterInsert(last, k, v) == [kk \in (DOMAIN last) \cup {k} |-> IF kk = k THEN v ELSE last[kk]]
LossyGetOK(last, k, ret) == ret = -1 \/ (k \in DOMAIN last /\ ret = last[k])
=============================================================================
