SPECIFICATION SSpec
CONSTANTS
  NV = 2
  LV = {0}
  RV = {1}
INVARIANT ElemsOK
INVARIANT CartesianOK
INVARIANT DescOK
INVARIANT IndepOK
INVARIANT CondOK
CHECK_DEADLOCK FALSE
