SPECIFICATION SSpec
CONSTANTS
  NV = 2
  LV = {0}
  RV = {1}
INVARIANT ElemsOK
INVARIANT CartesianOK
INVARIANT DescOK
INVARIANT IndepOK
CHECK_DEADLOCK FALSE
