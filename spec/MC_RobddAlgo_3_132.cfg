SPECIFICATION Spec
CONSTANTS
  NV = 3
  Ord <- Ord132
INVARIANT KeySound
INVARIANT CondSound
CHECK_DEADLOCK FALSE
