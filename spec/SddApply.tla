------------------------------ MODULE SddApply ------------------------------
(***************************************************************************)
(* L2: the apply cases of src/builder/sdd/builder.rs at one vtree node t   *)
(* with left variables LV and right variables RV, on canonical (compressed *)
(* and trimmed) decision nodes.  A canonical SDD is determined by the      *)
(* function it denotes, so primes, subs and operands are functions here;   *)
(* the element list of f at t is its compressed (LV, RV)-partition:        *)
(*    one element per distinct cofactor s of f w.r.t. the left variables,  *)
(*    its prime = the set of left assignments with that cofactor.          *)
(* Transcribed: and_cartesian (with the equal-prime shortcut, the          *)
(* false-prime skip, the early return of True and the break when           *)
(* p1 => p2), and_sub_desc, and_prime_desc, and_indep, compress, and the   *)
(* trimming base cases of canonicalize.  Checked for all pairs of          *)
(* functions: the result denotes the conjunction, its primes partition,    *)
(* and after compress + trimming it IS the canonical element list of the   *)
(* conjunction (C03 / C04 at design level).                                *)
(***************************************************************************)
EXTENDS BoolFn, TLC

CONSTANTS LV, RV                 \* a partition of Vars: the variables under the left / right child of t

OnlyOn(f, vs) == \A v \in Vars \ vs : ~DependsOn(f, v)
LeftFns == {f \in SUBSET Assign : OnlyOn(f, LV)}
RightFns == {f \in SUBSET Assign : OnlyOn(f, RV)}
(* the cofactor of f at the left part of assignment a, as a function of the right variables *)
SameLeft(a, b) == \A v \in LV : Bit(a, v) = Bit(b, v)
SameRight(a, b) == \A v \in RV : Bit(a, v) = Bit(b, v)
CofAt(f, a) == {b \in Assign : \E c \in f : SameLeft(c, a) /\ SameRight(c, b)}
(* canonical compressed partition: set of <<prime, sub>> *)
Elems(f) == {<<{a \in Assign : CofAt(f, a) = s}, s>> : s \in {CofAt(f, a) : a \in Assign}}
DenElems(es) == UNION {e[1] \cap e[2] : e \in es}
IsPartition(es) ==
  /\ \A e \in es : e[1] # {}
  /\ \A e1 \in es, e2 \in es : e1 # e2 => e1[1] \cap e2[1] = {}
  /\ UNION {e[1] : e \in es} = Assign

(* an arbitrary but fixed iteration order over a set of elements (the code iterates in pointer order) *)
RECURSIVE SeqOf(_)
SeqOf(S) == IF S = {} THEN << >> ELSE LET x == CHOOSE x \in S : TRUE IN <<x>> \o SeqOf(S \ {x})

(* --- and_cartesian: returns [early |-> TRUE/FALSE, es |-> sequence of elements] --- *)
RECURSIVE InnerLoop(_, _, _, _, _)
InnerLoop(p1, s1, bs, j, acc) ==       \* acc = [early, es]
  IF j > Len(bs) \/ acc.early THEN acc
  ELSE LET p == p1 \cap bs[j][1]  s == s1 \cap bs[j][2] IN
       IF p = {} THEN InnerLoop(p1, s1, bs, j + 1, acc)
       ELSE IF p = Assign /\ s = Assign THEN [early |-> TRUE, es |-> acc.es]
       ELSE LET acc2 == [early |-> FALSE, es |-> Append(acc.es, <<p, s>>)] IN
            IF p1 = p THEN acc2 ELSE InnerLoop(p1, s1, bs, j + 1, acc2)            \* break when p1 => p2
RECURSIVE OuterLoop(_, _, _, _)
OuterLoop(as, bs, i, acc) ==
  IF i > Len(as) \/ acc.early THEN acc
  ELSE LET p1 == as[i][1]  s1 == as[i][2]
           eq == {j \in 1 .. Len(bs) : bs[j][1] = p1}
       IN IF eq # {}
          THEN LET j == CHOOSE j \in eq : TRUE IN
               OuterLoop(as, bs, i + 1, [early |-> FALSE, es |-> Append(acc.es, <<p1, s1 \cap bs[j][2]>>)])
          ELSE OuterLoop(as, bs, i + 1, InnerLoop(p1, s1, bs, 1, acc))
AndCartesian(a, b) == OuterLoop(SeqOf(Elems(a)), SeqOf(Elems(b)), 1, [early |-> FALSE, es |-> << >>])

(* --- compress: merge elements with equal subs by disjoining their primes --- *)
Compress(es) == LET S == {es[i] : i \in 1 .. Len(es)} IN
  {<<UNION {e[1] : e \in {x \in S : x[2] = s}}, s>> : s \in {e[2] : e \in S}}
(* --- canonicalize: trimming base cases around compression; the value of the returned pointer --- *)
Trimmed(es) ==   \* es a set of elements; "none" if no base case applies
  IF es = {} THEN Assign
  ELSE IF Cardinality(es) = 1 /\ (CHOOSE e \in es : TRUE)[1] = Assign THEN (CHOOSE e \in es : TRUE)[2]
  ELSE IF Cardinality(es) = 1 /\ (CHOOSE e \in es : TRUE)[2] = {} THEN {}
  ELSE IF Cardinality(es) = 2 /\ {e[2] : e \in es} = {Assign, {}} THEN (CHOOSE e \in es : e[2] = Assign)[1]
  ELSE DenElems(es)
CanonValue(r) == IF r.early THEN Assign ELSE Trimmed(Compress(r.es))

CartesianOKFor(a, b) ==
  LET r == AndCartesian(a, b)
      S == {r.es[i] : i \in 1 .. Len(r.es)}
  IN IF r.early THEN And(a, b) = Assign
     ELSE /\ DenElems(S) = And(a, b)                       \* C03: the function
          /\ IsPartition(S)                                \* C04: primes stay a partition despite the shortcuts
          /\ Compress(r.es) = Elems(And(a, b))             \* C04: compression yields THE canonical element list
          /\ CanonValue(r) = And(a, b)

(* --- the other three cases --- *)
(* d lies in the right subtree (depends on RV only): conjoin it into every sub *)
AndSubDesc(a, d) == {<<e[1], e[2] \cap d>> : e \in Elems(a)}
(* d lies in the left subtree (depends on LV only): product with {(d, T), (~d, F)} *)
AndPrimeDesc(a, d) ==
  {<<e[1] \cap d, e[2]>> : e \in {x \in Elems(a) : x[1] \cap d # {}}} \cup
  {<<e[1] \ d, {}>> : e \in {x \in Elems(a) : x[1] \ d # {}}}
(* a on the left, b on the right, neither at t: {(a, b), (~a, F)} *)
AndIndep(a, b) == {<<a, b>>, <<Neg(a), {}>>}
DescOKFor(a, d) ==
  /\ (d \in RightFns => /\ DenElems(AndSubDesc(a, d)) = And(a, d) /\ IsPartition(AndSubDesc(a, d))
                        /\ Compress(SeqOf(AndSubDesc(a, d))) = Elems(And(a, d)))
  /\ (d \in LeftFns => /\ DenElems(AndPrimeDesc(a, d)) = And(a, d) /\ IsPartition(AndPrimeDesc(a, d))
                       /\ Compress(SeqOf(AndPrimeDesc(a, d))) = Elems(And(a, d)))
IndepOKFor(a, b) ==
  (a \in LeftFns /\ b \in RightFns /\ a # {} /\ a # Assign) =>
     /\ DenElems(AndIndep(a, b)) = And(a, b) /\ IsPartition(AndIndep(a, b))
     /\ Compress(SeqOf(AndIndep(a, b))) = Elems(And(a, b))

(* --- condition(f, v, b) at t: every element is conditioned on both sides; elements whose prime became false are     *)
(* dropped; an element whose prime became true ends the loop with its conditioned sub; the rest goes through              *)
(* canonicalize (compress + trimming).  SkipTrim = TRUE is a "the subs are untouched, so only the primes need work"      *)
(* shortcut that goes straight to the unique table (compression only): it must FAIL (a node {(p,T),(~p,F)} survives).    *)
CondElems(f, v, b) == {<<Cond(e[1], v, b), Cond(e[2], v, b)>> : e \in {x \in Elems(f) : Cond(x[1], v, b) # {}}}
CondValue(f, v, b, skipTrim) ==          \* [node |-> TRUE/FALSE, f |-> the function pointed to, es |-> elements of an allocated node]
  LET es == CondElems(f, v, b)
      full == {e \in es : e[1] = Assign}
  IN IF full # {} THEN [node |-> FALSE, f |-> (CHOOSE e \in full : TRUE)[2], es |-> {}]      \* early return: the prime became true
     ELSE IF skipTrim THEN [node |-> TRUE, f |-> DenElems(es), es |-> Compress(SeqOf(es))]      \* a decision node whatever its shape
     ELSE [node |-> FALSE, f |-> Trimmed(Compress(SeqOf(es))), es |-> {}]
CondOKFor(f, v, b) ==
  LET es == CondElems(f, v, b) IN
  /\ DenElems(es) = Cond(f, v, b)                                        \* C03: the function
  /\ IsPartition(es)                                                     \* the conditioned primes are still a partition
  /\ Compress(SeqOf(es)) = Elems(Cond(f, v, b))                          \* C04: compression yields the canonical list
  /\ CondValue(f, v, b, FALSE).f = Cond(f, v, b)                           \* and trimming / the early return the right pointer
(* the shortcut variant returns a node although the function is denoted by a trimmed pointer (a sub-diagram or a constant) *)
IsTrimmable(es) == es = {} \/ (Cardinality(es) = 1) \/ (Cardinality(es) = 2 /\ {e[2] : e \in es} = {Assign, {}})
SkipTrimOKFor(f, v, b) ==
  LET r == CondValue(f, v, b, TRUE) IN r.node => ~IsTrimmable(r.es)

-----------------------------------------------------------------------------
VARIABLE fa
AllF == SUBSET Assign
(* the lattice of subsets is walked one element at a time so that TLC's workers share the invariant evaluations *)
SInit == fa = {}
SNext == \E x \in Assign : fa' = fa \cup {x}
SSpec == SInit /\ [][SNext]_fa
CartesianOK == \A b \in AllF : CartesianOKFor(fa, b)
DescOK == \A d \in AllF : DescOKFor(fa, d)
IndepOK == \A b \in AllF : IndepOKFor(fa, b)
ElemsOK == DenElems(Elems(fa)) = fa /\ IsPartition(Elems(fa))
CondOK == \A v \in Vars, b \in BOOLEAN : CondOKFor(fa, v, b)
SkipTrimOK == \A v \in Vars, b \in BOOLEAN : SkipTrimOKFor(fa, v, b)
=============================================================================
