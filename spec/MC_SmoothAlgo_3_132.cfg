SPECIFICATION Spec
CONSTANTS
  NV = 3
  Ord <- Ord132
  AsCoded = FALSE
INVARIANT SmoothSound
CHECK_DEADLOCK FALSE
