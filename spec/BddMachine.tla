----------------------------- MODULE BddMachine -----------------------------
(***************************************************************************)
(* L2, stateful: the ROBDD builder as ONE machine - node store + apply     *)
(* cache + the recursive algorithms on POINTERS with complement edges,     *)
(* transcribed from                                                        *)
(*   src/builder/bdd/robdd.rs   get_or_insert (complement / false-high     *)
(*                              normalisation), ite_helper (standard       *)
(*                              triple, cache lookup, first essential      *)
(*                              variable, condition_essential, reduction,  *)
(*                              cache insert), cond_with_alloc (per-call   *)
(*                              memo keyed on the pointer, polarity        *)
(*                              folding on hit and on insert)              *)
(*   src/builder/cache/ite.rs   Ite::new on pointers                       *)
(*   src/builder/cache/all_app.rs / lru_app.rs + util/lru.rs               *)
(*                              get / insert with the complement flag of   *)
(*                              the standard triple; cache-everything      *)
(*                              (Slots = 0) or direct-mapped with Slots    *)
(*                              cells and full-key comparison              *)
(*   src/builder/mod.rs, bdd/builder.rs   and / or / iff / xor / exists /  *)
(*                              compose as compositions of ite / condition *)
(* The cache PERSISTS across public calls (that is what RobddAlgo, which   *)
(* works on functions, and MemoProof, which abstracts the recursion, do    *)
(* not cover together): every public call is one action, TLC explores      *)
(* every history of calls, and after every call                            *)
(*   C01  the returned pointer denotes the function the operation names    *)
(*   C02  every stored node is ordered, reduced, has a regular non-false   *)
(*        high edge, and no two pointers of the store denote one function  *)
(*   C16  every cache cell holds the value of its key (so a hit can never  *)
(*        change a result), whatever was evicted in between                *)
(* Node identity is structural here (a pointer is the nested tuple         *)
(* <<compl, var, low, high>>, constants <<0>> = true and <<1>> = false);   *)
(* identity under table growth is RobinHood.tla's subject.                 *)
(***************************************************************************)
EXTENDS Naturals, Sequences, FiniteSets, TLC
CONSTANTS NV,            \* number of variables (labels 0 .. NV-1)
          Ord,           \* the variable order: sequence of labels, first = root
          Slots,         \* 0: cache every application; n > 0: direct-mapped cache with n cells
          MaxNodes,      \* exploration bound: calls are issued while the store has at most this many nodes
          MaxCache,      \* ... and the cache at most this many entries (cache-everything grows with the history)
          Ops,           \* subset of {"ite", "and", "or", "xor", "iff", "cond", "exists", "compose"}
          Cnfs,          \* the CNFs (sequences of clauses, literals +-(v+1)) offered to compile_cnf when "cnf" \in Ops
          GetIgnoresCompl,   \* regression switch: a hit on a complemented standard triple is returned un-negated
          GetIgnoresKey      \* regression switch: a hit compares the cell only, not the key stored in it

VARIABLES tbl,    \* set of regular nodes <<0, var, low, high>> in the store
          cache,  \* set of <<cell, key, value>>, at most one per cell
          ok      \* the last public call returned the function it names
vars == <<tbl, cache, ok>>

T == <<0>>
F == <<1>>
IsConst(p) == Len(p) = 1
IsTrue(p) == p = T
IsFalse(p) == p = F
IsNeg(p) == ~IsConst(p) /\ p[1] = 1                     \* PtrFalse is NOT "neg" in the code
Neg(p) == IF IsConst(p) THEN (IF p = T THEN F ELSE T) ELSE <<1 - p[1], p[2], p[3], p[4]>>
Reg(p) == IF IsNeg(p) THEN Neg(p) ELSE p
VarOf(p) == p[2]
LowRaw(p) == p[3]
HighRaw(p) == p[4]
Level(v) == CHOOSE i \in 1 .. NV : Ord[i] = v
Lt(a, b) == Level(a) < Level(b)

(* ---- semantics (the oracle) ---- *)
Assign == 0 .. (2 ^ NV - 1)
Bit(a, v) == (a \div (2 ^ v)) % 2 = 1
RECURSIVE Den(_)
Den(p) ==
  IF p = T THEN Assign ELSE IF p = F THEN {} ELSE
  LET dl == Den(p[3])
      dh == Den(p[4])
      d == {a \in Assign : IF Bit(a, p[2]) THEN a \in dh ELSE a \in dl}
  IN IF p[1] = 1 THEN Assign \ d ELSE d
SIte(f, g, h) == (f \cap g) \cup ((Assign \ f) \cap h)
SCond(f, v, b) == {a \in Assign : (IF b THEN (IF Bit(a, v) THEN a ELSE a + 2 ^ v) ELSE (IF Bit(a, v) THEN a - 2 ^ v ELSE a)) \in f}
SExists(f, v) == SCond(f, v, TRUE) \cup SCond(f, v, FALSE)
SLit(v) == {a \in Assign : Bit(a, v)}
SIff(f, g) == {a \in Assign : (a \in f) = (a \in g)}

(* ---- machine state threaded through the recursion: [t |-> node set, c |-> cache, n |-> number of recursive calls] ---- *)
(* get_or_insert: normalise, then store (structural identity) *)
GetOrInsert(m, v, lo, hi) ==
  IF IsNeg(hi) \/ IsFalse(hi)
  THEN LET n == <<0, v, Neg(lo), Neg(hi)>> IN [r |-> Neg(n), m |-> [m EXCEPT !.t = @ \cup {n}]]
  ELSE LET n == <<0, v, lo, hi>> IN [r |-> n, m |-> [m EXCEPT !.t = @ \cup {n}]]

(* ---- Ite::new on pointers ---- *)
OrderP(a, b) == IF IsConst(a) THEN TRUE ELSE IF IsConst(b) THEN FALSE ELSE Lt(VarOf(a), VarOf(b))
IteNew(f0, g0, h0) ==
  LET s1 == IF f0 = h0 THEN <<f0, g0, F>>
            ELSE IF f0 = Neg(h0) THEN <<f0, g0, T>>
            ELSE IF f0 = Neg(g0) THEN <<f0, F, h0>>
            ELSE <<f0, g0, h0>>
      f == s1[1]  g == s1[2]  h == s1[3]
  IN IF IsTrue(f) THEN [kind |-> "const", f |-> g]
     ELSE IF IsFalse(f) THEN [kind |-> "const", f |-> h]
     ELSE IF IsTrue(g) /\ IsFalse(h) THEN [kind |-> "const", f |-> f]
     ELSE IF IsFalse(g) /\ IsTrue(h) THEN [kind |-> "const", f |-> Neg(f)]
     ELSE IF h = g THEN [kind |-> "const", f |-> g]
     ELSE
     LET s2 == IF IsTrue(g) /\ OrderP(h, f) THEN <<h, g, f>>
               ELSE IF IsFalse(h) /\ OrderP(g, f) THEN <<g, f, h>>
               ELSE IF IsTrue(h) /\ OrderP(g, f) THEN <<Neg(g), Neg(f), h>>
               ELSE IF IsFalse(g) /\ OrderP(h, f) THEN <<Neg(h), g, Neg(f)>>
               ELSE IF g = Neg(h) /\ OrderP(g, f) THEN <<g, f, Neg(f)>>
               ELSE <<f, g, h>>
         a == s2[1]  b == s2[2]  c == s2[3]
     IN IF IsNeg(a) /\ ~IsNeg(c) THEN [kind |-> "choice", key |-> <<Neg(a), c, b>>]
        ELSE IF ~IsNeg(a) /\ IsNeg(b) THEN [kind |-> "compl", key |-> <<a, Neg(b), Neg(c)>>]
        ELSE IF IsNeg(a) /\ IsNeg(c) THEN [kind |-> "compl", key |-> <<Neg(a), Neg(c), Neg(b)>>]
        ELSE [kind |-> "choice", key |-> <<a, b, c>>]

(* ---- the apply cache ---- *)
RECURSIVE HashP(_)
HashP(p) == IF IsConst(p) THEN p[1] ELSE (p[1] + 2 * (p[2] + 1) + 3 * HashP(p[3]) + 5 * HashP(p[4])) % 11
CellOf(key) == IF Slots = 0 THEN key ELSE <<(HashP(key[1]) + 3 * HashP(key[2]) + 5 * HashP(key[3])) % Slots>>
None == <<2>>
CacheGet(m, k) ==
  LET hits == {e \in m.c : e[1] = CellOf(k.key) /\ (GetIgnoresKey \/ e[2] = k.key)}
  IN IF hits = {} THEN None
     ELSE LET v == (CHOOSE e \in hits : TRUE)[3]
          IN IF k.kind = "compl" /\ ~GetIgnoresCompl THEN Neg(v) ELSE v
CacheInsert(m, k, r) ==
  LET v == IF k.kind = "compl" THEN Neg(r) ELSE r
  IN [m EXCEPT !.c = {e \in @ : e[1] # CellOf(k.key)} \cup {<<CellOf(k.key), k.key, v>>}]

(* ---- ite_helper ---- *)
First(a, b) == IF IsConst(a) THEN b ELSE IF IsConst(b) THEN a ELSE IF Level(VarOf(a)) < Level(VarOf(b)) THEN a ELSE b
FirstEssential(f, g, h) == VarOf(First(First(f, g), h))
CondEss(f, lbl, v) ==
  IF IsConst(f) THEN f
  ELSE IF VarOf(f) # lbl THEN f
  ELSE LET r == IF v THEN HighRaw(f) ELSE LowRaw(f) IN IF IsNeg(f) THEN Neg(r) ELSE r
RECURSIVE IteH(_, _, _, _)
IteH(m0, f, g, h) ==
  LET m == [m0 EXCEPT !.n = @ + 1]                    \* stats.num_recursive_calls += 1
      k == IteNew(f, g, h) IN
  IF k.kind = "const" THEN [r |-> k.f, m |-> m]
  ELSE LET hit == CacheGet(m, k) IN
  IF hit # None THEN [r |-> hit, m |-> m]
  ELSE
  LET lbl == FirstEssential(f, g, h)
      t == IteH(m, CondEss(f, lbl, TRUE), CondEss(g, lbl, TRUE), CondEss(h, lbl, TRUE))
      e == IteH(t.m, CondEss(f, lbl, FALSE), CondEss(g, lbl, FALSE), CondEss(h, lbl, FALSE))
  IN IF t.r = e.r THEN [r |-> t.r, m |-> e.m]
     ELSE LET ins == GetOrInsert(e.m, lbl, e.r, t.r)
          IN [r |-> ins.r, m |-> CacheInsert(ins.m, k, ins.r)]

(* ---- cond_with_alloc: the per-call memo (set of <<pointer, value>>) is threaded too ---- *)
MemoGet(memo, p) == IF \E e \in memo : e[1] = p THEN (CHOOSE e \in memo : e[1] = p)[2] ELSE None
RECURSIVE CondH(_, _, _, _, _)
CondH(m0, memo, p, lbl, value) ==
  LET m == [m0 EXCEPT !.n = @ + 1] IN                 \* stats.num_recursive_calls += 1
  IF IsConst(p) THEN [r |-> p, m |-> m, memo |-> memo]
  ELSE IF Lt(lbl, VarOf(p)) THEN [r |-> p, m |-> m, memo |-> memo]
  ELSE IF VarOf(p) = lbl
       THEN LET r == IF value THEN HighRaw(p) ELSE LowRaw(p)
            IN [r |-> IF IsNeg(p) THEN Neg(r) ELSE r, m |-> m, memo |-> memo]
  ELSE LET hit == MemoGet(memo, p) IN
  IF hit # None THEN [r |-> IF IsNeg(p) THEN Neg(hit) ELSE hit, m |-> m, memo |-> memo]
  ELSE
  LET l == CondH(m, memo, LowRaw(p), lbl, value)
      h == CondH(l.m, l.memo, HighRaw(p), lbl, value)
  IN IF l.r = h.r THEN [r |-> IF IsNeg(p) THEN Neg(l.r) ELSE l.r, m |-> h.m, memo |-> h.memo]
     ELSE LET changed == l.r # LowRaw(p) \/ h.r # HighRaw(p)
              ins == IF changed THEN GetOrInsert(h.m, VarOf(p), l.r, h.r) ELSE [r |-> Reg(p), m |-> h.m]
              res == IF changed THEN (IF IsNeg(p) THEN Neg(ins.r) ELSE ins.r) ELSE p
          IN [r |-> res, m |-> ins.m, memo |-> h.memo \cup {<<p, IF IsNeg(p) THEN Neg(res) ELSE res>>}]
Condition(m, p, lbl, value) == LET c == CondH(m, {}, p, lbl, value) IN [r |-> c.r, m |-> c.m]

(* ---- the derived public operations, as composed in the code ---- *)
AndM(m, f, g) == IteH(m, f, g, F)
OrM(m, f, g) == LET a == AndM(m, Neg(f), Neg(g)) IN [r |-> Neg(a.r), m |-> a.m]
IffM(m, f, g) == IteH(m, f, g, Neg(g))
XorM(m, f, g) == IteH(m, f, Neg(g), g)
ExistsM(m, f, v) ==
  LET a == Condition(m, f, v, TRUE)
      b == Condition(a.m, f, v, FALSE)
  IN OrM(b.m, a.r, b.r)
VarM(m, v) == GetOrInsert(m, v, F, T)
ComposeM(m, f, v, g) ==
  LET x == VarM(m, v)
      i == IffM(x.m, x.r, g)
      a == AndM(i.m, i.r, f)
  IN ExistsM(a.m, a.r, v)

(* ---- and_lst / or_lst (left folds from the unit) and condition_model (one conditioning per assigned literal: the FALSE       *)
(* assignments in ascending label order, then the TRUE ones - PartialModel::assignment_iter over its two bit sets) ----         *)
RECURSIVE AndLstM(_, _, _), OrLstM(_, _, _), CondLitsM(_, _, _)
AndLstM(m, acc, fs) == IF fs = << >> THEN [r |-> acc, m |-> m] ELSE LET a == AndM(m, acc, Head(fs)) IN AndLstM(a.m, a.r, Tail(fs))
OrLstM(m, acc, fs) == IF fs = << >> THEN [r |-> acc, m |-> m] ELSE LET a == OrM(m, acc, Head(fs)) IN OrLstM(a.m, a.r, Tail(fs))
CondLitsM(m, p, lits) ==
  IF lits = << >> THEN [r |-> p, m |-> m]
  ELSE LET x == Head(lits)
           c == Condition(m, p, (IF x < 0 THEN 0 - x ELSE x) - 1, x > 0)
       IN CondLitsM(c.m, c.r, Tail(lits))
(* the literals of a partial model (a set of +-(v+1), one per variable) in the order the code visits them *)
RECURSIVE AscSeq(_)
AscSeq(S) == IF S = {} THEN << >> ELSE LET x == CHOOSE y \in S : \A z \in S : y <= z IN <<x>> \o AscSeq(S \ {x})
ModelOrder(L) == [i \in 1 .. Cardinality({x \in L : x < 0}) |-> 0 - AscSeq({0 - x : x \in {y \in L : y < 0}})[i]] \o AscSeq({x \in L : x > 0})
CondModelM(m, p, L) == CondLitsM(m, p, ModelOrder(L))
RECURSIVE SCondLits(_, _)
SCondLits(f, lits) == IF lits = << >> THEN f ELSE SCondLits(SCond(f, (IF Head(lits) < 0 THEN 0 - Head(lits) ELSE Head(lits)) - 1, Head(lits) > 0), Tail(lits))

(* ---- compile_cnf as coded (src/builder/bdd/builder.rs): stored clauses (sorted by label) are ordered by an insertion sort     *)
(* (slices of <= 20 elements) whose key is the level of the clause's LAST literal - the `max_by` in the comparator never answers *)
(* Greater, so it returns the last element whatever the order is; named deviation LastLiteralKey, harmless for the function -,   *)
(* every clause is folded with `or` starting from its first literal (which is OR-ed in a second time), and the clause diagrams   *)
(* are conjoined by the balanced recursion collapse_clauses. The whole compilation runs on the machine's store and cache.        *)
AbsL(x) == IF x < 0 THEN 0 - x ELSE x
LitPtr(x) == IF x > 0 THEN <<0, x - 1, F, T>> ELSE <<1, AbsL(x) - 1, F, T>>
SortKey(c) == Level(AbsL(c[Len(c)]) - 1)
RECURSIVE InsertLeft(_, _), ISort(_, _)
InsertLeft(v, j) ==
  IF j > 1 /\ SortKey(v[j]) < SortKey(v[j - 1])
  THEN InsertLeft([v EXCEPT ![j] = v[j - 1], ![j - 1] = v[j]], j - 1) ELSE v
ISort(v, i) == IF i > Len(v) THEN v ELSE ISort(InsertLeft(v, i), i + 1)
RECURSIVE OrFold(_, _, _)
OrFold(m, acc, lits) ==
  IF lits = << >> THEN [r |-> acc, m |-> m]
  ELSE LET v == VarM(m, AbsL(Head(lits)) - 1)
           o == OrM(v.m, acc, LitPtr(Head(lits)))
       IN OrFold(o.m, o.r, Tail(lits))
ClauseM(m, c) == OrFold(VarM(m, AbsL(c[1]) - 1).m, LitPtr(c[1]), c)
RECURSIVE ClausesM(_, _, _)
ClausesM(m, cs, acc) ==
  IF cs = << >> THEN [rs |-> acc, m |-> m]
  ELSE LET c == ClauseM(m, Head(cs)) IN ClausesM(c.m, Tail(cs), Append(acc, c.r))
RECURSIVE Collapse(_, _)
Collapse(m, vec) ==
  IF Len(vec) = 1 THEN [r |-> vec[1], m |-> m]
  ELSE LET k == Len(vec) \div 2
           l == Collapse(m, SubSeq(vec, 1, k))
           r == Collapse(l.m, SubSeq(vec, k + 1, Len(vec)))
       IN AndM(r.m, l.r, r.r)
CompileCnfM(m, cnf) ==
  IF cnf = << >> THEN [r |-> T, m |-> m]
  ELSE IF \E i \in 1 .. Len(cnf) : cnf[i] = << >> THEN [r |-> F, m |-> m]
  ELSE LET cl == ClausesM(m, ISort(cnf, 2), << >>) IN Collapse(cl.m, cl.rs)
SCnf(cnf) == {a \in Assign : \A i \in 1 .. Len(cnf) : \E j \in 1 .. Len(cnf[i]) : (cnf[i][j] > 0) = Bit(a, AbsL(cnf[i][j]) - 1)}

(* ---- the machine ---- *)
Ptrs == {T, F} \cup tbl \cup {Neg(n) : n \in tbl}
M == [t |-> tbl, c |-> cache, n |-> 0]
Commit(res, expected) ==
  /\ tbl' = res.m.t
  /\ cache' = res.m.c
  /\ ok' = (Den(res.r) = expected)
Init == /\ tbl = {<<0, v, F, T>> : v \in 0 .. (NV - 1)}
        /\ cache = {}
        /\ ok = TRUE
Next ==
  /\ Cardinality(tbl) <= MaxNodes /\ Cardinality(cache) <= MaxCache
  /\ \/ "ite" \in Ops /\ \E f, g, h \in Ptrs : Commit(IteH(M, f, g, h), SIte(Den(f), Den(g), Den(h)))
     \/ "and" \in Ops /\ \E f, g \in Ptrs : Commit(AndM(M, f, g), Den(f) \cap Den(g))
     \/ "or" \in Ops /\ \E f, g \in Ptrs : Commit(OrM(M, f, g), Den(f) \cup Den(g))
     \/ "xor" \in Ops /\ \E f, g \in Ptrs : Commit(XorM(M, f, g), Assign \ SIff(Den(f), Den(g)))
     \/ "iff" \in Ops /\ \E f, g \in Ptrs : Commit(IffM(M, f, g), SIff(Den(f), Den(g)))
     \/ "cond" \in Ops /\ \E f \in Ptrs, v \in 0 .. (NV - 1), b \in BOOLEAN : Commit(Condition(M, f, v, b), SCond(Den(f), v, b))
     \/ "exists" \in Ops /\ \E f \in Ptrs, v \in 0 .. (NV - 1) : Commit(ExistsM(M, f, v), SExists(Den(f), v))
     \/ "cnf" \in Ops /\ \E c \in Cnfs : Commit(CompileCnfM(M, c), SCnf(c))
     \/ "compose" \in Ops /\ \E f, g \in Ptrs, v \in 0 .. (NV - 1) :
          Commit(ComposeM(M, f, v, g), SExists(SIff(SLit(v), Den(g)) \cap Den(f), v))
Spec == Init /\ [][Next]_vars

(* ---- invariants ---- *)
ResultOK == ok                                                          \* C01
NodeOK(n) ==                                                            \* C02, shape
  /\ ~IsNeg(n[4]) /\ n[4] # F                                           \* regular, non-false high edge
  /\ n[3] # n[4]                                                        \* no redundant test
  /\ \A c \in {n[3], n[4]} : IsConst(c) \/ (Lt(n[2], VarOf(c)) /\ Reg(c) \in tbl)   \* ordered, children stored
ShapeOK == \A n \in tbl : NodeOK(n)
Canonical == \A p, q \in Ptrs : Den(p) = Den(q) => p = q                \* C02, canonicity
KeyValue(key) == SIte(Den(key[1]), Den(key[2]), Den(key[3]))
CacheSound == \A e \in cache : Den(e[3]) = KeyValue(e[2])               \* C16
CacheShape == \A e1, e2 \in cache : e1[1] = e2[1] => e1 = e2
CacheStandard == \A e \in cache : ~IsConst(e[2][1]) /\ ~IsNeg(e[2][1]) /\ ~IsNeg(e[2][2])
=============================================================================
