------------------------------ MODULE UnitProp ------------------------------
(***************************************************************************)
(* L1: what C09 promises about the SAT state, and no more - a smarter but  *)
(* still correct propagator is accepted.  Pure predicates over             *)
(*   cnf   : the clause list          decs : the decisions on the stack    *)
(*   pm    : a partial model                                               *)
(***************************************************************************)
EXTENDS CnfSem

(* the state reached by a successful construction / decision *)
GoodState(cnf, decs, pm) ==
  /\ \A l \in decs : LitVal(pm, l) = "T"                         \* the decisions are in force
  /\ \A l \in AssignedLits(pm) : Entailed(cnf, decs, l)          \* soundness
  /\ \A i \in 1 .. Len(cnf) : ~ClauseFalsified(pm, cnf[i])       \* no clause left falsified
  /\ \A i \in 1 .. Len(cnf) : ~ClauseUnit(pm, cnf[i])            \* ... or with exactly one unassigned literal
(* UNSAT may be answered only if no model extends the decisions *)
UnsatAllowed(cnf, decs) == ModelsWith(cnf, decs) = {}
(* the satisfied flag *)
SatFlagOK(cnf, pm, flag) == flag = AllSatisfied(cnf, pm)
=============================================================================
