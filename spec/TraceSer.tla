------------------------------- MODULE TraceSer -------------------------------
(***************************************************************************)
(* L1 + L3 for C17.  Parsed formulas are compared with the structured      *)
(* input the text was printed from (under the documented numbering); the   *)
(* serde output of the BDD / SDD / vtree serialisers is read HERE as a     *)
(* plain node table with complement flags and must denote the same         *)
(* function / tree as the raw in-memory dump of the same object.           *)
(***************************************************************************)
EXTENDS Json, IOUtils, TLC
Rec == ndJsonDeserialize(IOEnv.TRACE)
NV == Rec[1].nmax
PD == 1
K == 4
Enforce == {}
VARIABLES l, nvars, vt, flat, compress, semantic, node, nden, root, den, canon, contents, hashes
INSTANCE SddApi            \* for DenPtr / ExtendDen over raw SDD dumps (the variables are unused here)
INSTANCE Diagrams
INSTANCE CnfSem

ToSet(s) == {s[i] : i \in 1 .. Len(s)}
SetsOf(cnf) == [i \in 1 .. Len(cnf) |-> LitSet(cnf[i])]
IsStr(p, s) == ToString(p) = ("\"" \o s \o "\"")

(* ---- DIMACS -> LogicalExpr keeps the 1-based numbering: shift the clauses by one variable ---- *)
Shift(lit) == IF lit > 0 THEN lit + 1 ELSE lit - 1
ShiftCnf(cnf) == [i \in 1 .. Len(cnf) |-> [j \in 1 .. Len(cnf[i]) |-> Shift(cnf[i][j])]]

(* ---- s-expressions: names are mapped to their lexicographic rank among the names that occur ---- *)
NameOrder == Rec[1].names              \* in byte order; the same constant list as harness/src/ser_rec.rs
ListedOrder == NameOrder = <<"A", "B1", "B10", "B2", "X", "_z", "a", "ab", "b", "x1">>
RECURSIVE NamesIn(_)
NamesIn(t) ==
  CASE t[1] = "var" -> {t[2]}
    [] t[1] = "not" -> NamesIn(t[2])
    [] t[1] \in {"and", "or", "iff", "xor"} -> NamesIn(t[2]) \cup NamesIn(t[3])
    [] t[1] = "ite" -> NamesIn(t[2]) \cup NamesIn(t[3]) \cup NamesIn(t[4])
PosIn(name) == CHOOSE i \in 1 .. Len(NameOrder) : NameOrder[i] = name
Rank(name, used) == Cardinality({u \in used : PosIn(u) < PosIn(name)})
RECURSIVE EvalNamed(_, _)
EvalNamed(t, used) ==
  CASE t[1] = "var" -> Lit(Rank(t[2], used), TRUE)
    [] t[1] = "not" -> Neg(EvalNamed(t[2], used))
    [] t[1] = "and" -> And(EvalNamed(t[2], used), EvalNamed(t[3], used))
    [] t[1] = "or"  -> Or(EvalNamed(t[2], used), EvalNamed(t[3], used))
    [] t[1] = "iff" -> Iff(EvalNamed(t[2], used), EvalNamed(t[3], used))
    [] t[1] = "xor" -> Xor(EvalNamed(t[2], used), EvalNamed(t[3], used))
    [] t[1] = "ite" -> Ite(EvalNamed(t[2], used), EvalNamed(t[3], used), EvalNamed(t[4], used))

(* ---- serialised BDD: nodes[i] = [topvar, low, high], pointers "True" / "False" / [Ptr |-> [index, compl]] ---- *)
RECURSIVE SerBddDen(_, _)
SerBddDen(nodes, p) ==
  IF IsStr(p, "True") THEN TrueFn
  ELSE IF IsStr(p, "False") THEN FalseFn
  ELSE LET n == nodes[p.Ptr.index + 1]
           d == Ite(Lit(n.topvar, TRUE), SerBddDen(nodes, n.high), SerBddDen(nodes, n.low))
       IN IF p.Ptr.compl THEN Neg(d) ELSE d
SerBddOK(e) ==
  /\ Len(e.json.roots) = 1
  /\ SerBddDen(e.json.nodes, e.json.roots[1]) = DenBdd(e.nodes, e.root)

(* ---- serialised SDD: nodes[i] = << [prime, sub], ... >>, pointers also [Literal |-> [label, polarity]] ---- *)
RECURSIVE SerSddDen(_, _)
SerSddDen(nodes, p) ==
  IF IsStr(p, "True") THEN TrueFn
  ELSE IF IsStr(p, "False") THEN FalseFn
  ELSE IF "Literal" \in DOMAIN p THEN Lit(p.Literal.label, p.Literal.polarity)
  ELSE LET n == nodes[p.Ptr.index + 1]
           d == UNION {SerSddDen(nodes, n[i].prime) \cap SerSddDen(nodes, n[i].sub) : i \in 1 .. Len(n)}
       IN IF p.Ptr.compl THEN Neg(d) ELSE d
SerSddOK(e) ==
  /\ Len(e.json.roots) = 1
  /\ SerSddDen(e.json.nodes, e.json.roots[1]) = DenPtr(ExtendDen(<< >>, e.nodes, 1), e.root)

(* ---- serialised vtree ---- *)
RECURSIVE SerVTree(_)
SerVTree(j) == IF "Leaf" \in DOMAIN j THEN <<"leaf", j.Leaf>>
               ELSE <<"node", SerVTree(j.Node.left), SerVTree(j.Node.right)>>

(* ---- command-line tools (C19) ---- *)
CliWmcOK(e) ==
  LET used  == NamesIn(e.in)
      wn    == {e.weights[i][1] : i \in 1 .. Len(e.weights)}
      extra == wn \ used
      k     == Cardinality(used)
      n     == k + Cardinality(extra)
      \* formula variables get their lexicographic rank; weight-only variables come after them (their mutual order is irrelevant to a count)
      IdxOf(name) == IF name \in used THEN Rank(name, used) ELSE k + Cardinality({x \in extra : PosIn(x) < PosIn(name)})
      WOf(name) == IF \E i \in 1 .. Len(e.weights) : e.weights[i][1] = name
                   THEN LET i == CHOOSE i \in 1 .. Len(e.weights) : e.weights[i][1] = name IN <<<<e.weights[i][2]>>, <<e.weights[i][3]>>>>
                   ELSE <<<<0>>, <<0>>>>                      \* the tool's documented default for unweighted variables
      w == [i \in 1 .. n |-> WOf(CHOOSE x \in used \cup extra : IdxOf(x) = i - 1)]
      f == EvalNamed(e.in, used)
  IN /\ ListedOrder
     /\ (Len(e.order) = 0 \/ ToSet(e.order) = used \cup extra)                         \* domain: a configured order lists every variable
     /\ e.mc = Cardinality(Models(f, n))                                                \* exact number of models over all variables
     /\ e.wmc = Comps(WMC("real", 0, f, w, WX(1, n), n), n)[1]                          \* exact weighted sum (weights are k/8)
CliF2bOK(e) == ListedOrder /\ Len(e.json.roots) = 1 /\ SerBddDen(e.json.nodes, e.json.roots[1]) = EvalNamed(e.in, NamesIn(e.in))
(* a CNF on large DIMACS indices: the universe is the list e.vars of the (0-based) indices that occur; variable number k of the
   universe is e.vars[k + 1]; the emitted diagram may mention those indices only *)
IdxIn(vars, x) == CHOOSE k \in 1 .. Len(vars) : vars[k] = x
RECURSIVE SerBddDenW(_, _, _)
SerBddDenW(nodes, p, vars) ==
  IF IsStr(p, "True") THEN TrueFn
  ELSE IF IsStr(p, "False") THEN FalseFn
  ELSE LET n == nodes[p.Ptr.index + 1]
           d == Ite(Lit(IdxIn(vars, n.topvar) - 1, TRUE), SerBddDenW(nodes, n.high, vars), SerBddDenW(nodes, n.low, vars))
       IN IF p.Ptr.compl THEN Neg(d) ELSE d
CliC2bOK(e) ==
  IF "vars" \in DOMAIN e
  THEN LET vs == e.vars
           mapped == [i \in 1 .. Len(e.in) |-> [j \in 1 .. Len(e.in[i]) |->
                        LET x == e.in[i][j] IN IF x > 0 THEN IdxIn(vs, x - 1) ELSE 0 - IdxIn(vs, (0 - x) - 1)]]
       IN /\ Len(e.json.roots) = 1
          /\ \A i \in 1 .. Len(e.json.nodes) : \E k \in 1 .. Len(vs) : vs[k] = e.json.nodes[i].topvar
          /\ SerBddDenW(e.json.nodes, e.json.roots[1], vs) = EvalCnf(mapped)
  ELSE Len(e.json.roots) = 1 /\ SerBddDen(e.json.nodes, e.json.roots[1]) = EvalCnf(e.in)

(* ---- C11: the semantic hash across representations (BDD orders, vtrees, top-down orders and stores) ---- *)
XDen(e) == IF e.repr = "sdd" THEN DenPtr(ExtendDen(<< >>, e.nodes, 1), e.root) ELSE DenBdd(e.nodes, e.root)
XHashOK(e) ==
  LET d == XDen(e)
      OneMinus(pn, h, hn) == LET s == LAdd(h, hn) IN s = <<1>> \/ s = LAdd(PrimeLimbs(pn), <<1>>)
  IN /\ (IF <<"h64", d>> \in DOMAIN hashes THEN hashes[<<"h64", d>>] = e.h64 ELSE TRUE)      \* same function => same hash
     /\ (IF <<"h32", d>> \in DOMAIN hashes THEN hashes[<<"h32", d>>] = e.h32 ELSE TRUE)
     /\ (IF <<"h64", Neg(d)>> \in DOMAIN hashes THEN OneMinus("U64_LARGEST", e.h64, hashes[<<"h64", Neg(d)>>]) ELSE TRUE)
     /\ (IF <<"h32", Neg(d)>> \in DOMAIN hashes THEN OneMinus("U32_SMALL", e.h32, hashes[<<"h32", Neg(d)>>]) ELSE TRUE)
XHashUpd(e) == LET d == XDen(e) IN (<<"h64", d>> :> e.h64) @@ (<<"h32", d>> :> e.h32) @@ hashes

(* L2 (MODEL-DRIFT only): the node list and root pointer SerAlgo's walk produces for the recorded diagram (nodes in    *)
(* post-order of first visits, low before high; a node met again contributes <<index, complement bit of that edge>>)  *)
SP(p) == IF IsStr(p, "True") THEN <<"T", 0, 0>> ELSE IF IsStr(p, "False") THEN <<"F", 0, 0>>
         ELSE <<"P", p.Ptr.index + 1, IF p.Ptr.compl THEN 1 ELSE 0>>
RECURSIVE SerWalk(_, _, _, _)
SerWalk(nd, p, out, tab) ==
  IF p = 0 THEN [out |-> out, tab |-> tab, ptr |-> <<"T", 0, 0>>]
  ELSE IF p = 1 THEN [out |-> out, tab |-> tab, ptr |-> <<"F", 0, 0>>]
  ELSE IF NodeOf(p) \in DOMAIN tab THEN [out |-> out, tab |-> tab, ptr |-> <<"P", tab[NodeOf(p)], p % 2>>]
  ELSE LET n == nd[NodeOf(p)]
           lo == SerWalk(nd, n[3], out, tab)
           hi == SerWalk(nd, n[4], lo.out, lo.tab)
           o2 == Append(hi.out, <<n[2], lo.ptr, hi.ptr>>)
       IN [out |-> o2, tab |-> (NodeOf(p) :> Len(o2)) @@ hi.tab, ptr |-> <<"P", Len(o2), p % 2>>]
SerDrift(e) ==
  LET m == SerWalk(e.nodes, e.root, << >>, << >>) IN
  \/ Len(e.json.roots) # 1
  \/ SP(e.json.roots[1]) # m.ptr
  \/ [i \in 1 .. Len(e.json.nodes) |-> <<e.json.nodes[i].topvar, SP(e.json.nodes[i].low), SP(e.json.nodes[i].high)>>] # m.out

EventOK(e) ==
  CASE e.ev = "xhash" -> XHashOK(e)
    [] e.ev = "cli_wmc" -> CliWmcOK(e)
    [] e.ev = "cli_f2b" -> CliF2bOK(e)
    [] e.ev = "cli_c2b" -> CliC2bOK(e)
    [] e.ev = "dimacs_cnf" -> SetsOf(e.out) = SetsOf(e.in) /\ e.out_nv = MaxVar(e.in) + 1
    [] e.ev = "dimacs_expr" -> EvalExpr(e.out) = EvalCnf(ShiftCnf(e.in))
    [] e.ev = "to_dimacs" -> SetsOf(e.out) = SetsOf(e.in)
    [] e.ev = "sexpr" -> ListedOrder /\ EvalExpr(e.out) = EvalNamed(e.in, NamesIn(e.in))
    [] e.ev = "ser_bdd" -> SerBddOK(e)
    [] e.ev = "ser_sdd" -> SerSddOK(e)
    [] e.ev = "ser_vtree" -> SerVTree(e.json.root) = e.tree

tvars == <<l, nvars, vt, flat, compress, semantic, node, nden, root, den, canon, contents, hashes>>
Init == /\ l = 2 /\ nvars = 0 /\ vt = << >> /\ flat = << >> /\ compress = TRUE /\ semantic = FALSE /\ node = << >> /\ nden = << >>
        /\ root = << >> /\ den = << >> /\ canon = << >> /\ contents = {} /\ hashes = << >>
Step == /\ l <= Len(Rec) /\ l' = l + 1
        /\ "panic" \notin DOMAIN Rec[l] /\ "inexact" \notin DOMAIN Rec[l]
        /\ EventOK(Rec[l])
        /\ (IF Rec[l].ev = "ser_bdd" /\ SerDrift(Rec[l]) THEN PrintT(<<"DRIFT", l>>) ELSE TRUE)
        /\ hashes' = (IF Rec[l].ev = "xhash" THEN XHashUpd(Rec[l]) ELSE hashes)
        /\ UNCHANGED <<nvars, vt, flat, compress, semantic, node, nden, root, den, canon, contents>>
Spec == Init /\ [][Step]_tvars
Accepted ==
  LET d == TLCGet("stats").diameter IN
  IF d = Len(Rec) THEN TRUE ELSE PrintT(<<"REJECT", d + 1>>) /\ FALSE
=============================================================================
