SPECIFICATION Spec
CONSTANTS
  NN = 3
  NL = 3
  FreezeFirst = FALSE
INVARIANT Faithful
CHECK_DEADLOCK FALSE
