SPECIFICATION Spec
CONSTANTS
  NV = 4
  Mode = "unary"
  Sample = 16
  Seed = 0
CHECK_DEADLOCK FALSE
