------------------------------ MODULE GenMmap ------------------------------
(***************************************************************************)
(* Behaviour generator (spec -> impl) for marginal MAP / branch and bound: *)
(* for every function f of NV variables (thinned by Sample), every list of *)
(* query variables of length >= NV-1 (every listing order), and K weight   *)
(* vectors drawn deterministically from a grid, TLC prints the score of    *)
(* EVERY assignment of the query variables (the definition: the weighted   *)
(* count of the models of f extending it) and their maximum.  The driver   *)
(* builds the canonical diagram of f in real builders, calls marginal_map  *)
(* and bb, and compares: the returned value is the maximum and the         *)
(* returned assignment attains it.  Weights are in eighths: arbitrary on   *)
(* the query variables, low + high = 1 on the others.                      *)
(***************************************************************************)
EXTENDS Counting, Json, TLC, FiniteSets, Sequences
CONSTANTS Sample, Seed, K
VARIABLE f
(* sampling by the rank of the function among all functions (its truth table read as a binary number): every residue class *)
(* modulo Sample is inhabited, whatever the seed                                                                         *)
Tag(g) == LET RECURSIVE Rank(_)
              Rank(h) == IF h = {} THEN 0 ELSE LET a == CHOOSE x \in h : TRUE IN 2 ^ a + Rank(h \ {a})
          IN ((Rank(g) % 251) * 13 + (Rank(g) \div 251) + Seed) % Sample
QLists == UNION {{s \in [1 .. n -> Vars] : \A i, j \in 1 .. n : i # j => s[i] # s[j]} : n \in {NV - 1, NV}}
Grid == <<1, 3, 6, 8, 2, 5, 7, 4>>
Rnd(a, b, c, d) == (a * 31 + b * 17 + c * 7 + d * 3 + Seed * 11 + (a * b + c) * 5) % 8
QIdx(q) == LET RECURSIVE H(_) H(i) == IF i > Len(q) THEN 0 ELSE (q[i] + 1) * i * i + H(i + 1) IN H(1)
InQ(q, v) == \E i \in 1 .. Len(q) : q[i] = v
Wt(g, q, j) == [v \in 1 .. NV |->
                  IF InQ(q, v - 1)
                  THEN << <<Grid[Rnd(Cardinality(g), QIdx(q), j, v) + 1]>>, <<Grid[Rnd(QIdx(q), j + v, Cardinality(g) + 1, 2 * v + 1) + 1]>> >>
                  ELSE LET a == Grid[Rnd(j, v, QIdx(q), 5) + 1] IN << <<a>>, <<8 - a>> >>]
(* completion number b of the query list: bit k-1 of b is the value of q[k] *)
Agrees(a, q, b) == \A k \in 1 .. Len(q) : Bit(a, q[k]) = ((b \div Pow2(k - 1)) % 2 = 1)
Score(g, q, w, b) == WMC("real", 0, {a \in g : Agrees(a, q, b)}, w, WX(1, NV), NV).c[1]
MaxOf(S) == CHOOSE m \in S : \A x \in S : x <= m
Emit(g) ==
  \A q \in QLists : \A j \in 1 .. K :
    LET w == Wt(g, q, j)
        sc == [b \in 1 .. Pow2(Len(q)) |-> Score(g, q, w, b - 1)]
    IN PrintT(ToJson([op |-> "mmap", f |-> g, q |-> q, w |-> w, scores |-> sc, opt |-> MaxOf({sc[b] : b \in DOMAIN sc})]))
Init == f \in {g \in SUBSET Assign : Tag(g) = 0}
Next == f' = f /\ Emit(f)
Spec == Init /\ [][Next]_f
=============================================================================
