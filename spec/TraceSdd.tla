------------------------------ MODULE TraceSdd ------------------------------
(* L3: binds SddApi to a trace recorded from the real SDD builders. *)
EXTENDS Json, IOUtils
Rec == ndJsonDeserialize(IOEnv.TRACE)
NV == Rec[1].nmax
K == Rec[1].k
PD == 6
CONSTANT Enforce
VARIABLES l, nvars, vt, flat, compress, semantic, node, nden, root, den, canon, contents, hashes
INSTANCE SddApi
vars == <<l, nvars, vt, flat, compress, semantic, node, nden, root, den, canon, contents, hashes>>

EnfC03 == {"C03"}
EnfC04 == {"C04"}
EnfC05 == {"C05"}
EnfC07 == {"C07"}
EnfC10 == {"C10"}
EnfC11 == {"C11"}
EnfC16 == {"C16"}
EnfAll == {"C03", "C04", "C05", "C07", "C10", "C11", "C14"}

Producers == {"var", "neg", "and", "or", "xor", "iff", "ite", "cond", "exists", "compose", "cnf", "expr", "plan"}
Queries == {"eq", "pred", "wmc", "semhash"}

Init ==
  /\ l = 2 /\ nvars = 0 /\ vt = <<"leaf", 0>> /\ flat = << >> /\ compress = TRUE /\ semantic = FALSE
  /\ node = << >> /\ nden = << >>
  /\ root = [s \in Slots |-> PTrue] /\ den = [s \in Slots |-> TrueFn]
  /\ canon = << >> /\ contents = {} /\ hashes = << >>

Step ==
  /\ l <= Len(Rec)
  /\ l' = l + 1
  /\ LET e == Rec[l] IN
     /\ "panic" \notin DOMAIN e
     /\ CASE e.ev = "reset" -> SResetState(e) /\ UNCHANGED hashes
          [] e.ev \in Producers -> SProduce(e)
          [] e.ev \in Queries -> SQuery(e)

Spec == Init /\ [][Step]_vars
Accepted ==
  LET d == TLCGet("stats").diameter IN
  IF d = Len(Rec) THEN TRUE ELSE PrintT(<<"REJECT", d + 1>>) /\ FALSE
=============================================================================
