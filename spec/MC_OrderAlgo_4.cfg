SPECIFICATION Spec
CONSTANTS
  NVars = 4
  Family <- F4
INVARIANT Sound
CHECK_DEADLOCK FALSE
