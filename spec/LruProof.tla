------------------------------ MODULE LruProof ------------------------------
(***************************************************************************)
(* TLAPS proof that a direct-mapped cache with full-key comparison (the    *)
(* design of src/util/lru.rs, modelled with its growth in Lru.tla and      *)
(* model-checked there for small constants) is a LossyMap for ANY key set, *)
(* ANY table sizes and ANY slot function: a lookup answers nothing or the  *)
(* value most recently inserted under exactly that key.                    *)
(*   Slot(k, n)  the slot of key k in a table of n slots (hash mod n in    *)
(*               the code; only its range matters)                         *)
(*   Insert      overwrites the key's slot                                 *)
(*   Rehash      growth: a table of another size in which every entry of   *)
(*               the old table that survives sits in ITS OWN slot (the     *)
(*               code re-inserts every entry with the same Put)            *)
(***************************************************************************)
EXTENDS Naturals, TLAPS
CONSTANTS Keys, Vals, Slot(_, _), None
ASSUME SlotRange == \A k \in Keys, n \in Nat : n > 0 => Slot(k, n) \in 0 .. (n - 1)
ASSUME NoneNotEntry == None \notin Keys \X Vals

VARIABLES size, tbl, last, ret      \* tbl: slot -> <<key, value>> or None; last: key -> value or None; ret: last lookup

Init == /\ size \in Nat /\ size > 0
        /\ tbl = [i \in 0 .. (size - 1) |-> None]
        /\ last = [k \in Keys |-> None]
        /\ ret = [k |-> None, v |-> None]
Insert(k, v) ==
  /\ tbl' = [tbl EXCEPT ![Slot(k, size)] = <<k, v>>]
  /\ last' = [last EXCEPT ![k] = v]
  /\ ret' = [k |-> None, v |-> None]         \* a lookup answer is judged against the state it was given in
  /\ UNCHANGED size
Get(k) ==
  /\ ret' = [k |-> k, v |-> IF tbl[Slot(k, size)] # None /\ tbl[Slot(k, size)][1] = k THEN tbl[Slot(k, size)][2] ELSE None]
  /\ UNCHANGED <<size, tbl, last>>
Rehash ==
  /\ size' \in Nat /\ size' > 0
  /\ tbl' \in [0 .. (size' - 1) -> (Keys \X Vals) \cup {None}]
  /\ \A i \in 0 .. (size' - 1) : tbl'[i] # None =>
        /\ \E j \in 0 .. (size - 1) : tbl[j] = tbl'[i]           \* an entry of the old table ...
        /\ i = Slot(tbl'[i][1], size')                             \* ... in its own slot of the new one
  /\ UNCHANGED <<last, ret>>
Next == Rehash \/ \E k \in Keys : Get(k) \/ \E v \in Vals : Insert(k, v)
vars == <<size, tbl, last, ret>>
Spec == Init /\ [][Next]_vars

TypeOK == /\ size \in Nat /\ size > 0
          /\ tbl \in [0 .. (size - 1) -> (Keys \X Vals) \cup {None}]
          /\ last \in [Keys -> Vals \cup {None}]
(* every entry sits in the slot of its key and holds the value last inserted under that key *)
Fresh == \A i \in 0 .. (size - 1) : tbl[i] # None => i = Slot(tbl[i][1], size) /\ last[tbl[i][1]] = tbl[i][2]
(* C16: nothing, or the value most recently inserted under exactly that key *)
Transparent == ret.v # None => ret.k \in Keys /\ ret.v = last[ret.k]
Inv == TypeOK /\ Fresh /\ Transparent

THEOREM InitOK == Init => Inv
  BY DEF Init, Inv, TypeOK, Fresh, Transparent

THEOREM StepOK == Inv /\ [Next]_vars => Inv'
<1> SUFFICES ASSUME Inv, [Next]_vars PROVE Inv'
    OBVIOUS
<1> USE DEF Inv
<1>1. CASE Rehash
  <2>1. TypeOK'
      BY <1>1 DEF Rehash, TypeOK
  <2>2. Fresh'
      BY <1>1, NoneNotEntry DEF Rehash, TypeOK, Fresh
  <2>3. Transparent'
      BY <1>1 DEF Rehash, Transparent
  <2> QED BY <2>1, <2>2, <2>3
<1>2. ASSUME NEW k \in Keys, Get(k) PROVE Inv'
  <2>1. TypeOK' /\ Fresh'
      BY <1>2 DEF Get, TypeOK, Fresh
  <2>2. Transparent'
    <3>1. Slot(k, size) \in 0 .. (size - 1)
        BY SlotRange DEF TypeOK
    <3> QED BY <1>2, <3>1 DEF Get, TypeOK, Fresh, Transparent
  <2> QED BY <2>1, <2>2
<1>3. ASSUME NEW k \in Keys, NEW v \in Vals, Insert(k, v) PROVE Inv'
  <2>0. Slot(k, size) \in 0 .. (size - 1)
      BY SlotRange DEF TypeOK
  <2>1. TypeOK'
      BY <1>3, <2>0 DEF Insert, TypeOK
  <2>2. Fresh'
    <3> SUFFICES ASSUME NEW i \in 0 .. (size' - 1), tbl'[i] # None
                 PROVE i = Slot(tbl'[i][1], size') /\ last'[tbl'[i][1]] = tbl'[i][2]
        BY DEF Fresh
    <3>1. CASE i = Slot(k, size)
        BY <1>3, <2>0, <3>1 DEF Insert, TypeOK
    <3>2. CASE i # Slot(k, size)
      <4>1. tbl'[i] = tbl[i] /\ tbl[i] # None /\ i = Slot(tbl[i][1], size) /\ last[tbl[i][1]] = tbl[i][2]
          BY <1>3, <2>0, <3>2 DEF Insert, TypeOK, Fresh
      <4>2. tbl[i][1] # k
          BY <4>1, <3>2
      <4>3. tbl[i] \in Keys \X Vals
          BY <4>1, <1>3 DEF TypeOK, Insert
      <4> QED BY <1>3, <4>1, <4>2, <4>3 DEF Insert, TypeOK
    <3> QED BY <3>1, <3>2
  <2>3. Transparent'
      BY <1>3 DEF Insert, Transparent, TypeOK
  <2> QED BY <2>1, <2>2, <2>3
<1>4. CASE UNCHANGED vars
    BY <1>4 DEF vars, TypeOK, Fresh, Transparent
<1> QED BY <1>1, <1>2, <1>3, <1>4 DEF Next

THEOREM Spec => []Transparent
<1>1. Spec => []Inv
    BY InitOK, StepOK, PTL DEF Spec
<1>2. Inv => Transparent
    BY DEF Inv
<1> QED BY <1>1, <1>2, PTL
=============================================================================
