----------------------------- MODULE WatchLemma -----------------------------
(***************************************************************************)
(* TLAPS proof of the static core of the two-watched-literal scheme, for   *)
(* ANY clause and ANY assignment: a clause that is watched by two distinct *)
(* literals of its own, neither of which is false unless the clause is     *)
(* satisfied, is neither falsified nor unit.  The invariant is `TwoWatch`  *)
(* of Watched.tla (model-checked over all decide / pop interleavings); the *)
(* conclusion is the fixpoint clause of C09 ("no clause is left falsified  *)
(* or with exactly one unassigned literal").                               *)
(***************************************************************************)
EXTENDS TLAPS
CONSTANTS Lits,            \* the literals of one clause
          Val(_),          \* the value of a literal under the current partial model
          W1, W2           \* the two watched literals
ASSUME ValType == \A l \in Lits : Val(l) \in {"T", "F", "U"}

Sat == \E l \in Lits : Val(l) = "T"
Falsified == \A l \in Lits : Val(l) = "F"
Unit == ~Sat /\ \E u \in Lits : Val(u) = "U" /\ \A l \in Lits \ {u} : Val(l) = "F"
TwoWatch == /\ W1 \in Lits /\ W2 \in Lits /\ W1 # W2
            /\ (Sat \/ (Val(W1) # "F" /\ Val(W2) # "F"))

THEOREM Fixpoint == TwoWatch => ~Falsified /\ ~Unit
<1> SUFFICES ASSUME TwoWatch PROVE ~Falsified /\ ~Unit
    OBVIOUS
<1>1. CASE Sat
    BY <1>1 DEF Sat, Falsified, Unit
<1>2. CASE ~Sat
  <2>1. Val(W1) # "F" /\ Val(W2) # "F" /\ W1 \in Lits /\ W2 \in Lits /\ W1 # W2
      BY <1>2 DEF TwoWatch
  <2>2. ~Falsified
      BY <2>1 DEF Falsified
  <2>3. ~Unit
    <3> SUFFICES ASSUME NEW u \in Lits, \A l \in Lits \ {u} : Val(l) = "F" PROVE FALSE
        BY DEF Unit
    <3>1. W1 = u /\ W2 = u
        BY <2>1
    <3> QED BY <3>1, <2>1
  <2> QED BY <2>2, <2>3
<1> QED BY <1>1, <1>2
=============================================================================
