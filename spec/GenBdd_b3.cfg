SPECIFICATION Spec
CONSTANTS
  NV = 3
  Mode = "binary"
  Sample = 1
  Seed = 0
CHECK_DEADLOCK FALSE
