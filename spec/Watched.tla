------------------------------- MODULE Watched -------------------------------
(***************************************************************************)
(* L2: implementation-shaped model of src/repr/unit_prop.rs:               *)
(*   UnitPropagate::new / decide  (two watched literals, recursion on      *)
(*   discovered units, the satisfied-clause shortcut that leaves a false   *)
(*   watch in place, the replacement-watch choice, swap_remove) and the    *)
(*   SATSolver stack (decide pushes, pop pops; watch lists are mutated in  *)
(*   place and NEVER restored - not by pop, not by a failed decide).       *)
(* PickAsCoded = TRUE reproduces the defect repaired by the fix commit     *)
(* "unit propagation looked up the replacement watch in the wrong list".   *)
(* Models are sequences indexed by variable+1 over {-1, 0, 1}; watch lists *)
(* are sequences of clause indices (order matters, as in the code).        *)
(***************************************************************************)
EXTENDS UnitProp, TLC

AbsL(l) == IF l < 0 THEN 0 - l ELSE l             \* = variable + 1 = index into models / watch lists
SwapRemove(s, i) == IF i = Len(s) THEN SubSeq(s, 1, Len(s) - 1)
                    ELSE [j \in 1 .. (Len(s) - 1) |-> IF j = i THEN s[Len(s)] ELSE s[j]]
InSeq(x, s) == \E j \in 1 .. Len(s) : s[j] = x
Res(ok, st) == [ok |-> ok, m |-> st.m, wp |-> st.wp, wn |-> st.wn]

RECURSIVE DecideW(_, _, _, _), LoopW(_, _, _, _, _, _)
(* UnitPropagate::decide on st = [m, wp, wn] *)
DecideW(asCoded, cls, st, lit) ==
  LET v == AbsL(lit) IN
  IF st.m[v] # -1
  THEN Res((st.m[v] = 1) = (lit > 0), st)
  ELSE LoopW(asCoded, cls, [st EXCEPT !.m[v] = IF lit > 0 THEN 1 ELSE 0], v, lit > 0, 1)
LoopW(asCoded, cls, st, v, pol, idx) ==
  LET list == IF pol THEN st.wn[v] ELSE st.wp[v] IN
  IF idx > Len(list) THEN Res(TRUE, st)
  ELSE LET c  == list[idx]
           cl == cls[c]
       IN IF \E k \in 1 .. Len(cl) : LitVal(st.m, cl[k]) = "T"
          THEN LoopW(asCoded, cls, st, v, pol, idx + 1)                 \* satisfied: the false watch stays
          ELSE LET rem == SelectSeq(cl, LAMBDA l : LitVal(st.m, l) = "U") IN
               IF Len(rem) = 0 THEN Res(FALSE, st)
               ELSE IF Len(rem) = 1
                    THEN LET r == DecideW(asCoded, cls, st, rem[1]) IN
                         IF ~r.ok THEN r
                         ELSE LoopW(asCoded, cls, [m |-> r.m, wp |-> r.wp, wn |-> r.wn], v, pol, idx + 1)
                    ELSE LET cand == AbsL(rem[1])
                             already == IF asCoded                      \* list chosen by the NEW ASSIGNMENT's polarity
                                        THEN (IF pol THEN InSeq(c, st.wp[cand]) ELSE InSeq(c, st.wn[cand]))
                                        ELSE (IF rem[1] > 0 THEN InSeq(c, st.wp[cand]) ELSE InSeq(c, st.wn[cand]))
                             nl  == IF already THEN rem[2] ELSE rem[1]
                             st1 == IF pol THEN [st EXCEPT !.wn[v] = SwapRemove(@, idx)]
                                    ELSE [st EXCEPT !.wp[v] = SwapRemove(@, idx)]
                             st2 == IF nl > 0 THEN [st1 EXCEPT !.wp[AbsL(nl)] = Append(@, c)]
                                    ELSE [st1 EXCEPT !.wn[AbsL(nl)] = Append(@, c)]
                         IN LoopW(asCoded, cls, st2, v, pol, idx)       \* idx not advanced after swap_remove

(* initial watches: the code pushes c[1] then c[0] of every clause with >= 2 literals *)
RECURSIVE InitWFrom(_, _, _, _, _)
InitWFrom(cls, nv, v, sign, i) ==
  IF i > Len(cls) THEN << >>
  ELSE LET cl == cls[i]
           a == IF Len(cl) >= 2 /\ AbsL(cl[2]) = v /\ (cl[2] > 0) = sign THEN <<i>> ELSE << >>
           b == IF Len(cl) >= 2 /\ AbsL(cl[1]) = v /\ (cl[1] > 0) = sign THEN <<i>> ELSE << >>
       IN a \o b \o InitWFrom(cls, nv, v, sign, i + 1)
InitW(cls, nv, sign) == [v \in 1 .. nv |-> InitWFrom(cls, nv, v, sign, 1)]
EmptyM(nv) == [v \in 1 .. nv |-> -1]
RECURSIVE InitUnits(_, _, _, _)
InitUnits(asCoded, cls, st, i) ==
  IF i > Len(cls) THEN Res(TRUE, st)
  ELSE IF Len(cls[i]) = 1
       THEN LET r == DecideW(asCoded, cls, st, cls[i][1]) IN
            IF ~r.ok THEN r ELSE InitUnits(asCoded, cls, [m |-> r.m, wp |-> r.wp, wn |-> r.wn], i + 1)
       ELSE InitUnits(asCoded, cls, st, i + 1)
(* UnitPropagate::new: None iff there is an empty clause or the units conflict *)
NewW(asCoded, cls, nv) ==
  IF \E i \in 1 .. Len(cls) : Len(cls[i]) = 0 THEN [ok |-> FALSE, m |-> EmptyM(nv), wp |-> << >>, wn |-> << >>]
  ELSE InitUnits(asCoded, cls, [m |-> EmptyM(nv), wp |-> InitW(cls, nv, TRUE), wn |-> InitW(cls, nv, FALSE)], 1)

-----------------------------------------------------------------------------
(* Bounded model: all interleavings of decide / pop on every CNF of a family *)
CONSTANTS Family, PickAsCoded, MaxDepth
VARIABLES cnf, wp, wn, stack, decs, last
wvars == <<cnf, wp, wn, stack, decs, last>>
NVars == NV
Lits == {l \in (0 - NVars) .. NVars : l # 0}

WInit == /\ cnf \in Family
         /\ LET i0 == NewW(PickAsCoded, cnf, NVars) IN
              /\ wp = i0.wp /\ wn = i0.wn
              /\ stack = IF i0.ok THEN <<i0.m>> ELSE << >>
              /\ decs = << >>
              /\ last = [op |-> IF i0.ok THEN "new" ELSE "none", lit |-> 0]
WDecide(l) ==
  /\ Len(stack) >= 1 /\ Len(stack) < MaxDepth
  /\ LET r == DecideW(PickAsCoded, cnf, [m |-> stack[Len(stack)], wp |-> wp, wn |-> wn], l) IN
       /\ wp' = r.wp /\ wn' = r.wn
       /\ stack' = IF r.ok THEN Append(stack, r.m) ELSE stack
       /\ decs' = IF r.ok THEN Append(decs, l) ELSE decs
       /\ last' = [op |-> IF r.ok THEN "ok" ELSE "unsat", lit |-> l]
  /\ UNCHANGED cnf
WPop == /\ Len(stack) > 1
        /\ stack' = SubSeq(stack, 1, Len(stack) - 1) /\ decs' = SubSeq(decs, 1, Len(decs) - 1)
        /\ last' = [op |-> "pop", lit |-> 0]
        /\ UNCHANGED <<cnf, wp, wn>>
WNext == (\E l \in Lits : WDecide(l)) \/ WPop
WSpec == WInit /\ [][WNext]_wvars

DecSet == {decs[i] : i \in 1 .. Len(decs)}
(* refinement of UnitProp (L1), as invariants *)
StateOK == Len(stack) >= 1 => GoodState(cnf, DecSet, stack[Len(stack)])
UnsatOK == /\ (last.op = "unsat" => UnsatAllowed(cnf, DecSet \cup {last.lit}))
           /\ (last.op = "none" => UnsatAllowed(cnf, {}))
(* the deterministic L2 expectation: the model is exactly the unit-propagation closure - only  *)
(* checked on the model itself (a deviation of the code from it is MODEL-DRIFT, not an alarm)  *)
(* the two-watched-literal invariant (the hypothesis of WatchLemma.tla, which proves that it implies the fixpoint clause of   *)
(* C09 for any CNF): every clause of >= 2 literals is on the lists of exactly two distinct literals of its own, and unless the *)
(* clause is satisfied neither of them is false - under the current top model, also after pops and failed decides             *)
WatchLits(c) == {l \in Lits : InSeq(c, IF l > 0 THEN wp[AbsL(l)] ELSE wn[AbsL(l)])}
TwoWatch ==
  Len(stack) >= 1 =>
    \A c \in 1 .. Len(cnf) : Len(cnf[c]) >= 2 =>
       LET m == stack[Len(stack)] IN
       /\ Cardinality(WatchLits(c)) = 2 /\ WatchLits(c) \subseteq LitSet(cnf[c])
       /\ (ClauseSat(m, cnf[c]) \/ \A l \in WatchLits(c) : LitVal(m, l) # "F")
LevelsNested == \A i \in 1 .. (Len(stack) - 1) : AssignedLits(stack[i]) \subseteq AssignedLits(stack[i + 1])
=============================================================================
