SPECIFICATION BSpec
CONSTANTS
  NV = 2
  PD = 1
  Ord <- Ord21
INVARIANT OptimalInv
INVARIANT BoundInv
CHECK_DEADLOCK FALSE
