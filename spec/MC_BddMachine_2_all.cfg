SPECIFICATION Spec
CONSTANTS
  NV = 2
  Ord <- O01
  Slots = 0
  MaxNodes = 4
  MaxCache = 2
  Cnfs <- NoCnfs
  Ops <- AllOps
  GetIgnoresCompl = FALSE
  GetIgnoresKey = FALSE
INVARIANTS ResultOK ShapeOK Canonical CacheSound CacheShape CacheStandard
CHECK_DEADLOCK FALSE
