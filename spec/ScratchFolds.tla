----------------------------- MODULE ScratchFolds -----------------------------
(***************************************************************************)
(* L2: the traversals of src/repr/bdd.rs that use the per-node scratch     *)
(* slot as a memo, over DAGs with complement edges:                        *)
(*   Fold        = DDNNFPtr::fold (bottomup_pass_h): the slot holds the    *)
(*                 pair <<value under a complemented edge, value under a   *)
(*                 regular edge>>, each possibly absent                    *)
(*   CountNodes  = count_nodes: the slot holds a visited mark              *)
(*   Clear       = clear_scratch: stops descending at an empty slot        *)
(*   typed down-cast: a slot written by a query of another result type     *)
(*                 reads as "no value" (but is not empty)                  *)
(* The fold is instantiated with Boolean evaluation at an assignment (the  *)
(* parameter of the query).  Checked for every DAG of the family and every *)
(* sequence of queries with different parameters and result types:         *)
(*   Pure         every answer equals the un-memoised definition (C07/C10) *)
(*   ScratchEmpty every slot is empty again when a query returns (C10)     *)
(* SkipMarkOnDontCare reproduces a plausible optimisation (do not memoise  *)
(* nodes whose children coincide) that breaks both.                        *)
(***************************************************************************)
EXTENDS Naturals, Integers, Sequences, FiniteSets, TLC

CONSTANTS NN,                   \* number of internal nodes
          NL,                   \* number of levels (variables 0 .. NL-1)
          SkipMarkOnDontCare

(* a pointer is <<id, compl>>; id 0 = terminal: <<0,0>> True, <<0,1>> False *)
IsT(p) == p[1] = 0
NegP(p) == <<p[1], 1 - p[2]>>
Assignments == [0 .. (NL - 1) -> BOOLEAN]

(* dag[i] = [v, lo, hi]: children point to smaller ids; hi is regular *)
Ptrs(i) == {<<j, c>> : j \in 0 .. (i - 1), c \in {0, 1}}
NodeShapes(i) == [v : 0 .. (NL - 1), lo : Ptrs(i), hi : {p \in Ptrs(i) : p[2] = 0}]
WellOrdered(d) == \A i \in 1 .. NN :
   /\ (~IsT(d[i].lo) => d[d[i].lo[1]].v > d[i].v)
   /\ (~IsT(d[i].hi) => d[d[i].hi[1]].v > d[i].v)
Dags == {d \in [1 .. NN -> UNION {NodeShapes(i) : i \in 1 .. NN}] :
           (\A i \in 1 .. NN : d[i] \in NodeShapes(i)) /\ WellOrdered(d)}

(* the definition: evaluate pointer p at assignment a *)
RECURSIVE Eval(_, _, _)
Eval(d, p, a) == IF IsT(p) THEN p[2] = 0
                 ELSE LET n == d[p[1]]
                          r == IF a[n.v] THEN Eval(d, n.hi, a) ELSE Eval(d, n.lo, a)
                      IN IF p[2] = 1 THEN ~r ELSE r
RECURSIVE ReachSet(_, _)
ReachSet(d, p) == IF IsT(p) THEN {} ELSE {p[1]} \cup ReachSet(d, d[p[1]].lo) \cup ReachSet(d, d[p[1]].hi)

(* scratch: node id -> "empty" | [ty |-> "fold", c |-> value-or-"none", r |-> value-or-"none"] | [ty |-> "mark"] *)
(* (uniform records: TLC cannot compare values of different shapes; memoised values are "T" / "F" / "none") *)
Empty == [ty |-> "empty", c |-> "none", r |-> "none"]
FoldSlot(c, r) == [ty |-> "fold", c |-> c, r |-> r]
ReadFold(s) == IF s.ty = "fold" THEN s ELSE FoldSlot("none", "none")                   \* down-cast: other types read as absent
ReadMark(s) == s.ty = "mark"
B2S(b) == IF b THEN "T" ELSE "F"

(* bottomup_pass_h: returns [v |-> value, sc |-> scratch] *)
RECURSIVE FoldH(_, _, _, _)
FoldH(d, sc, p, a) ==
  IF IsT(p) THEN [v |-> B2S(p[2] = 0), sc |-> sc]
  ELSE LET id == p[1]
           n == d[id]
           neg == p[2] = 1
           slot == ReadFold(sc[id])
           hit == IF neg THEN slot.c ELSE slot.r
       IN IF hit # "none" THEN [v |-> hit, sc |-> sc]
          ELSE LET l == IF neg THEN NegP(n.lo) ELSE n.lo
                   h == IF neg THEN NegP(n.hi) ELSE n.hi
                   rl == FoldH(d, sc, l, a)
                   rh == FoldH(d, rl.sc, h, a)
                   val == IF a[n.v] THEN rh.v ELSE rl.v
                   \* the other polarity's cached value is the one read BEFORE the recursion (as coded)
                   other == IF neg THEN slot.r ELSE slot.c
                   skip == SkipMarkOnDontCare /\ n.lo = n.hi
                   sc2 == IF skip THEN rh.sc
                          ELSE [rh.sc EXCEPT ![id] = IF neg THEN FoldSlot(val, other) ELSE FoldSlot(other, val)]
               IN [v |-> val, sc |-> sc2]

RECURSIVE ClearH(_, _, _)
ClearH(d, sc, p) ==
  IF IsT(p) THEN sc
  ELSE IF sc[p[1]] = Empty THEN sc                                   \* short-circuit
  ELSE ClearH(d, ClearH(d, [sc EXCEPT ![p[1]] = Empty], d[p[1]].lo), d[p[1]].hi)

Fold(d, sc, p, a) == LET r == FoldH(d, sc, p, a) IN [v |-> r.v, sc |-> ClearH(d, r.sc, p)]

RECURSIVE CountH(_, _, _)
CountH(d, st, p) ==                       \* st = [sc, n]
  IF IsT(p) THEN st
  ELSE IF ReadMark(st.sc[p[1]]) THEN st
  ELSE LET s1 == [sc |-> [st.sc EXCEPT ![p[1]] = [ty |-> "mark", c |-> "none", r |-> "none"]], n |-> st.n + 1]
       IN CountH(d, CountH(d, s1, d[p[1]].lo), d[p[1]].hi)
CountNodes(d, sc, p) == LET r == CountH(d, [sc |-> sc, n |-> 0], p) IN [v |-> r.n, sc |-> ClearH(d, r.sc, p)]

-----------------------------------------------------------------------------
VARIABLES dag, scratch, lastOK, steps
fvars == <<dag, scratch, lastOK, steps>>
Roots == {<<j, c>> : j \in 0 .. NN, c \in {0, 1}}
FInit == dag \in Dags /\ scratch = [i \in 1 .. NN |-> Empty] /\ lastOK = TRUE /\ steps = 0
QFold == \E p \in Roots, a \in Assignments :
   LET r == Fold(dag, scratch, p, a) IN
   /\ scratch' = r.sc /\ lastOK' = (r.v = B2S(Eval(dag, p, a)))
QCount == \E p \in Roots :
   LET r == CountNodes(dag, scratch, p) IN
   /\ scratch' = r.sc /\ lastOK' = (r.v = Cardinality(ReachSet(dag, p)))
FNext == steps < 3 /\ steps' = steps + 1 /\ UNCHANGED dag /\ (QFold \/ QCount)
FSpec == FInit /\ [][FNext]_fvars
Pure == lastOK
ScratchEmpty == \A i \in 1 .. NN : scratch[i] = Empty
=============================================================================
