------------------------------- MODULE GenIte -------------------------------
(***************************************************************************)
(* Behaviour generator (spec -> impl) for the standard-triple              *)
(* normalisation: for every triple <<f, g, h>> of functions of NV          *)
(* variables (f from the sampled class) TLC prints the key IteNew yields   *)
(* in the model (kind, f', g', h') and the value Ite(f,g,h).  The driver   *)
(* calls the real Ite::new on the canonical diagrams of f, g, h and checks *)
(*   L1 (alarm): the code's key evaluates to Ite(f,g,h)  (KeySound)        *)
(*   L2 (drift): the code's key is the model's key                         *)
(***************************************************************************)
EXTENDS RobddAlgo, Json
CONSTANTS Sample, Seed
VARIABLE f
Ord12 == <<0, 1>>
Ord21 == <<1, 0>>
Ord123 == <<0, 1, 2>>
Ord132 == <<0, 2, 1>>
Ord213 == <<1, 0, 2>>
Ord231 == <<1, 2, 0>>
Ord312 == <<2, 0, 1>>
Ord321 == <<2, 1, 0>>
(* sampling by the rank of the function among all functions (its truth table read as a binary number): every residue class *)
(* modulo Sample is inhabited, whatever the seed                                                                         *)
Tag(g) == LET RECURSIVE Rank(_)
              Rank(h) == IF h = {} THEN 0 ELSE LET a == CHOOSE x \in h : TRUE IN 2 ^ a + Rank(h \ {a})
          IN ((Rank(g) % 251) * 13 + (Rank(g) \div 251) + Seed) % Sample
AllF == SUBSET Assign
Init == f \in {g \in AllF : Tag(g) = 0}
Next ==
  /\ f' = f
  /\ \A g \in AllF, h \in AllF :
       LET k == IteNew(f, g, h) IN
       PrintT(ToJson([f |-> f, g |-> g, h |-> h, kind |-> k.kind, kf |-> k.f, kg |-> k.g, kh |-> k.h,
                      exp |-> Ite(f, g, h), order |-> Ord]))
Spec == Init /\ [][Next]_f
=============================================================================
