SPECIFICATION Spec
CONSTANTS
  NV = 2
  Ord <- Ord12
INVARIANT KeySound
INVARIANT IteSound
INVARIANT CondSound
CHECK_DEADLOCK FALSE
