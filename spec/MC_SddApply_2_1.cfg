SPECIFICATION SSpec
CONSTANTS
  NV = 3
  LV = {0, 2}
  RV = {1}
INVARIANT ElemsOK
INVARIANT CartesianOK
INVARIANT DescOK
INVARIANT IndepOK
INVARIANT CondOK
CHECK_DEADLOCK FALSE
