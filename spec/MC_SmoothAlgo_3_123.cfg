SPECIFICATION Spec
CONSTANTS
  NV = 3
  Ord <- Ord123
  AsCoded = FALSE
INVARIANT SmoothSound
CHECK_DEADLOCK FALSE
