SPECIFICATION Spec
CONSTANTS
  InitFinal = TRUE
  NVars = 4
  Family <- Pos4
INVARIANT Sound
CHECK_DEADLOCK FALSE
