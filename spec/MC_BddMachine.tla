---------------------------- MODULE MC_BddMachine ----------------------------
(* configurations of BddMachine: orders and operation sets (cfg files cannot hold tuples / sets of strings) *)
EXTENDS BddMachine
O01 == <<0, 1>>
O10 == <<1, 0>>
O012 == <<0, 1, 2>>
O201 == <<2, 0, 1>>
O120 == <<1, 2, 0>>
NoCnfs == {}
Lits == {x \in (0 - NV) .. NV : x # 0}
SortedCl(w) == {c \in [1 .. w -> Lits] : \A i, j \in 1 .. w : i < j => (AbsL(c[i]) < AbsL(c[j]) \/ (AbsL(c[i]) = AbsL(c[j]) /\ c[i] < c[j]))}
Cls == SortedCl(1) \cup SortedCl(2) \cup {<< >>}
Cnfs2 == {<< >>} \cup {<<c>> : c \in Cls} \cup {<<c, d>> : c, d \in Cls}
Cnfs3 == {<<c, d, e>> : c, d, e \in SortedCl(1) \cup SortedCl(2)}
CnfOps == {"cnf", "cond"}
AllOps == {"ite", "and", "or", "xor", "iff", "cond", "exists", "compose"}
BinOps == {"and", "xor", "cond", "exists"}
IteOnly == {"ite"}
IteCond == {"ite", "cond", "exists"}
=============================================================================
