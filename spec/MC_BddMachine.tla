---------------------------- MODULE MC_BddMachine ----------------------------
(* configurations of BddMachine: orders and operation sets (cfg files cannot hold tuples / sets of strings) *)
EXTENDS BddMachine
O01 == <<0, 1>>
O10 == <<1, 0>>
O012 == <<0, 1, 2>>
O201 == <<2, 0, 1>>
O120 == <<1, 2, 0>>
AllOps == {"ite", "and", "or", "xor", "iff", "cond", "exists", "compose"}
BinOps == {"and", "xor", "cond", "exists"}
IteOnly == {"ite"}
IteCond == {"ite", "cond", "exists"}
=============================================================================
