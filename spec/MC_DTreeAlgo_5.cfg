SPECIFICATION Spec
CONSTANTS
  InitFinal = TRUE
  NVars = 3
  Family <- Pos5
INVARIANT Sound
CHECK_DEADLOCK FALSE
