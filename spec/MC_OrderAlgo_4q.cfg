SPECIFICATION Spec
CONSTANTS
  NVars = 4
  Family <- F4q
INVARIANT Sound
CHECK_DEADLOCK FALSE
