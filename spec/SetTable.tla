------------------------------ MODULE SetTable ------------------------------
(***************************************************************************)
(* L1: the abstract unique table - what canonicity (C02, C04) needs from   *)
(* it.  A set of keys with stable identities; the state is the pair        *)
(*   idOf   : abstract key |-> identity                                    *)
(*   handed : set of identities handed out so far                          *)
(* GetOrInsert(kk) returns the identity the key already has, or a fresh    *)
(* identity (never handed out before) if the key is new; Lookup(kk)        *)
(* returns the key's identity, or 0 if it has none.  Nothing about slots,  *)
(* probing, growth or load factor.  Written as predicates / functions of   *)
(* the state so that trace specifications can combine it with the L2 model.*)
(***************************************************************************)
EXTENDS Naturals, FiniteSets, TLC

SetEmpty == [idOf |-> << >>, handed |-> {}]

(* ret is what the implementation returned *)
SetGetOrInsertOK(s, kk, ret) ==
  IF kk \in DOMAIN s.idOf THEN ret = s.idOf[kk] ELSE ret \notin s.handed /\ ret # 0
SetAfterGetOrInsert(s, kk, ret) ==
  [idOf |-> IF kk \in DOMAIN s.idOf THEN s.idOf ELSE s.idOf @@ (kk :> ret), handed |-> s.handed \cup {ret}]

SetLookupOK(s, kk, ret) == ret = (IF kk \in DOMAIN s.idOf THEN s.idOf[kk] ELSE 0)
=============================================================================
