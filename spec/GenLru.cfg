SPECIFICATION GSpec
CONSTANTS
  LKeys = {1, 2, 3}
  LVals = {1}
  LH = 2
  LMaxCap = 8
  Depth = 5
  LCaps = {0, 1}
INVARIANT Emit
CHECK_DEADLOCK FALSE
