SPECIFICATION WSpec
CONSTANTS
  NV = 3
  PickAsCoded = FALSE
  MaxDepth = 4
  Family <- FamAll2
INVARIANT StateOK
INVARIANT UnsatOK
INVARIANT LevelsNested
INVARIANT TwoWatch
CHECK_DEADLOCK FALSE
