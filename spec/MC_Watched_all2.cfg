SPECIFICATION WSpec
CONSTANTS
  NV = 3
  PickAsCoded = FALSE
  MaxDepth = 4
  Family <- FamAll2
INVARIANT StateOK
INVARIANT UnsatOK
INVARIANT LevelsNested
CHECK_DEADLOCK FALSE
