----------------------------- MODULE TraceExtras -----------------------------
(***************************************************************************)
(* L3 for behaviour BEYOND the listed properties (no alarm is raised from  *)
(* here: a rejected line is reported as SPEC-DEVIATION by the runner):     *)
(*   hg_*  util/hypergraph.rs against Hypergraph.tla (state machine)       *)
(*   bt    util/btree.rs against BTrees.tla (definitions by paths)         *)
(*   ordq  the read-only queries of VarOrder                               *)
(*   wp    WmcParams: new / set_weight / var_weight / assignment_weight    *)
(***************************************************************************)
EXTENDS Json, IOUtils, TLC, Naturals, Integers, Sequences, FiniteSets
Rec == ndJsonDeserialize(IOEnv.TRACE)
VARIABLES l, g
H == INSTANCE Hypergraph WITH U <- 0 .. 63, MaxEdges <- 99
B == INSTANCE BTrees WITH MaxNodes <- 1

ToSet(s) == {s[i] : i \in 1 .. Len(s)}
ES(x) == [i \in 1 .. Len(x) |-> ToSet(x[i])]                      \* JSON list of lists -> sequence of sets
Obs(e) == [verts |-> ToSet(e.verts), edges |-> ES(e.edges)]      \* what the code shows: vertices() and edges() (non-empty edges)
Shows(e, h) == ToSet(e.verts) = h.verts /\ H!SameBag(ES(e.edges), H!Edges(h))
NoPanic(e) == "panic" \notin DOMAIN e

HgNew(e) == LET h == [verts |-> ToSet(e.in_verts), edges |-> ES(e.in_edges)]
            IN NoPanic(e) /\ Shows(e, h) /\ g' = h
HgCnf(e) == LET m == H!FromCnf(e.cnf)
            IN NoPanic(e) /\ Shows(e, m) /\ g' = Obs(e)            \* the recorder rebuilds the graph from what it was shown
HgIns(e) == LET r == H!Insert(g, ToSet(e.e))
            IN NoPanic(e) /\ e.ok = r.ok /\ Shows(e, r.h) /\ g' = r.h
(* cut_vertex of a vertex that lies in no edge: as coded the call panics after the vertex has been removed; a repaired version
   that returns true with the vertex removed is accepted as well *)
HgCut(e) == LET r == H!Cut(g, e.v)
            IN /\ IF H!CutPanics(g, e.v) THEN (IF "panic" \in DOMAIN e THEN TRUE ELSE e.ok = TRUE) ELSE (NoPanic(e) /\ e.ok = r.ok)
               /\ Shows(e, r.h) /\ g' = r.h
HgQ(e) ==
  LET p1 == ToSet(e.p1)  p2 == ToSet(e.p2)
      cs == {[vs |-> ToSet(e.covers[i].vs), es |-> ToSet(ES(e.covers[i].es))] : i \in 1 .. Len(e.covers)}
  IN /\ NoPanic(e)
     /\ e.size = H!Size(g) /\ e.order = H!Order(g)
     /\ <<e.wmin, e.wmax>> = H!Widths(g) /\ e.width = H!Widths(g)[1]
     /\ cs = H!Covers(g) /\ Len(e.covers) = Cardinality(cs)                                \* each cover listed once
     /\ \A i \in 1 .. Len(e.covers) : Len(e.covers[i].es) = Cardinality(ToSet(ES(e.covers[i].es)))   \* each edge once per cover
     /\ H!SameBag(ES(e.cut), H!CutEdges(g, p1, p2)) /\ e.ncut = H!CountCut(g, p1, p2)
     /\ IF H!HasEdge(g, e.node) THEN "efor" \in DOMAIN e /\ H!SameBag(ES(e.efor), H!EdgesFor(g, e.node))
                                ELSE "efor_none" \in DOMAIN e
     /\ UNCHANGED g

Bt(e) ==
  LET t == e.tree  n == B!SizeB(t) IN
  /\ NoPanic(e) /\ B!DistinctLabels(t)
  /\ e.inorder = B!InOrder(t) /\ e.flat = e.inorder
  /\ e.bfs = B!BfsDef(t)
  /\ e.d2b = B!DfsToBfs(t) /\ e.b2d = B!BfsToDfs(t)
  /\ e.find = B!FindLeafIdx(t, ToSet(e.q)) /\ e.contains = B!ContainsLeaf(t, ToSet(e.q))
  /\ (IF B!IsLeafB(t) THEN "left" \notin DOMAIN e ELSE e.left = t[3][2] /\ e.right = t[4][2])
  /\ Len(e.lca) = n
  /\ \A i, j \in 1 .. n : e.bfs[e.lca[i][j] + 1] = B!LcaDef(t, e.bfs[i], e.bfs[j])
  /\ UNCHANGED g

Rev(s) == [i \in 1 .. Len(s) |-> s[Len(s) + 1 - i]]
OrdQ(e) ==
  LET k == Len(e.perm)  n == k + e.grown
      p2v == [i \in 1 .. n |-> IF i <= k THEN e.perm[i] ELSE i - 1]          \* run-time extension: fresh labels, placed last
      pos(v) == CHOOSE i \in 1 .. n : p2v[i] = v
  IN /\ NoPanic(e) /\ e.p2v = p2v /\ e.inorder = p2v /\ e.rev = Rev(p2v) /\ e.last = p2v[n]
     /\ \A a, b \in 0 .. (n - 1) : /\ e.lt[a + 1][b + 1] = (pos(a) < pos(b))
                                   /\ e.lte[a + 1][b + 1] = (pos(a) <= pos(b))
     /\ \A a \in 0 .. (n - 1) : /\ e.above[a + 1] = (IF pos(a) = 1 THEN 0 - 1 ELSE p2v[pos(a) - 1])
                                /\ e.below[a + 1] = (IF pos(a) = n THEN 0 - 1 ELSE p2v[pos(a) + 1])
     \* between_iter(lo, hi): the variables at levels lo .. hi-1, deepest first
     /\ \A i \in 1 .. Len(e.between) : LET b == e.between[i] IN b[3] = Rev(SubSeq(p2v, b[1] + 1, b[2]))
     /\ Len(e.between) = ((n + 1) * (n + 2)) \div 2
     /\ UNCHANGED g

RECURSIVE ApplySets(_, _)
ApplySets(w, sets) == IF sets = << >> THEN w
                      ELSE LET s == Head(sets) IN ApplySets([v \in DOMAIN w \cup {s[1]} |-> IF v = s[1] THEN <<s[2], s[3]>> ELSE w[v]], Tail(sets))
RECURSIVE Prod(_, _)
Prod(w, lits) == IF lits = << >> THEN 1
                 ELSE LET x == Head(lits)  v == (IF x < 0 THEN 0 - x ELSE x) - 1
                      IN (IF x > 0 THEN w[v][2] ELSE w[v][1]) * Prod(w, Tail(lits))
Wp(e) ==
  LET w0 == [v \in 0 .. (Len(e.w0) - 1) |-> <<e.w0[v + 1][1], e.w0[v + 1][2]>>]
      w == ApplySets(w0, e.sets)
  IN /\ NoPanic(e) /\ "inexact" \notin DOMAIN e
     /\ \A v \in 0 .. (Len(e.w0) - 1) : e.vw[v + 1] = w[v]
     /\ e.aw = Prod(w, e.lits) /\ e.one = 1 /\ e.zero = 0
     /\ UNCHANGED g

Max(S) == CHOOSE x \in S : \A y \in S : x >= y
(* Cnf::from_string: each written integer x is the literal of label |x|, positive iff x > 0 (ZeroIsNegative: as coded "0" reads as the
   negative literal of label 0); the clause sets are those of the text (Cnf::new sorts and removes repeated literals) *)
CnfText(e) ==
  LET want(c) == {<<IF c[k] < 0 THEN 0 - c[k] ELSE c[k], IF c[k] > 0 THEN 1 ELSE 0>> : k \in 1 .. Len(c)}
      got(c) == {<<c[k][1], c[k][2]>> : k \in 1 .. Len(c)}
  IN /\ NoPanic(e) /\ Len(e.parsed) = Len(e.in)
     /\ \A i \in 1 .. Len(e.in) : got(e.parsed[i]) = want(e.in[i]) /\ Len(e.parsed[i]) = Cardinality(want(e.in[i]))
     /\ e.nv = 1 + Max({x[1] : x \in UNION {want(e.in[i]) : i \in 1 .. Len(e.in)}})
     /\ UNCHANGED g
EventOK(e) ==
  CASE e.ev = "hg_new" -> HgNew(e)
    [] e.ev = "hg_cnf" -> HgCnf(e)
    [] e.ev = "hg_ins" -> HgIns(e)
    [] e.ev = "hg_cut" -> HgCut(e)
    [] e.ev = "hg_q" -> HgQ(e)
    [] e.ev = "bt" -> Bt(e)
    [] e.ev = "ordq" -> OrdQ(e)
    [] e.ev = "wp" -> Wp(e)
    [] e.ev = "cnf_text" -> CnfText(e)

Init == l = 2 /\ g = [verts |-> {}, edges |-> << >>]
Step == l <= Len(Rec) /\ l' = l + 1 /\ EventOK(Rec[l])
Spec == Init /\ [][Step]_<<l, g>>
Accepted ==
  LET d == TLCGet("stats").diameter IN
  IF d = Len(Rec) THEN TRUE ELSE PrintT(<<"REJECT", d + 1>>) /\ FALSE
=============================================================================
