------------------------------ MODULE GenStress ------------------------------
(***************************************************************************)
(* Behaviour generator (spec -> impl) for long histories of ONE builder:   *)
(* N pseudo-random functions of NV variables (an arithmetic bit mixer,      *)
(* reproducible from Seed)        together with the conjunction and       *)
(* disjunction of consecutive ones, as sets of assignments.  The driver    *)
(* builds all of them in a single hash-identified (semantic) builder -     *)
(* tens of thousands of live nodes - and compares every returned diagram   *)
(* with the set TLC printed.  This is the regime in which an identity      *)
(* narrower than the 64-bit field (a truncated or re-mixed table hash)     *)
(* starts to merge different functions.                                    *)
(***************************************************************************)
EXTENDS BoolFn, Json, TLC, Sequences
CONSTANTS N, Seed
VARIABLE i
(* three rounds of multiply / square / add modulo the prime 32749 (all intermediates below 2^31) *)
Mix(a, k) == LET h1 == ((a + 1) * 26544 + (k % 32749) * 40503 + (k \div 32749) * 7717 + Seed * 977) % 32749
                 h2 == (h1 * h1 + a * 7 + k) % 32749
                 h3 == (h2 * 31421 + 6927 + a) % 32749
             IN (h3 \div 16) % 2
Fn(k) == {a \in Assign : Mix(a, k) = 1}
Init == i = 1
Next == /\ i <= N /\ i' = i + 1
        /\ LET f == Fn(i)  g == Fn(i + 1) IN
           PrintT(ToJson([op |-> "stress", f |-> f, g |-> g, conj |-> And(f, g), disj |-> Or(f, g)]))
Spec == Init /\ [][Next]_i
=============================================================================
