--------------------------- MODULE TraceUnitProp ---------------------------
(***************************************************************************)
(* L3: a decide / pop history recorded from the real SATSolver must        *)
(* satisfy UnitProp (L1, alarm).  Watched (L2) predicts the exact model    *)
(* and watch lists from the previously observed ones; a difference is      *)
(* MODEL-DRIFT only.  The residual hash is abstracted as "some function h  *)
(* with h(s1) = h(s2) => Residual(s1) = Residual(s2)": hmap remembers      *)
(* which residual each hash value has been seen with.                      *)
(***************************************************************************)
EXTENDS Json, IOUtils, SequencesExt, Bignum
Rec == ndJsonDeserialize(IOEnv.TRACE)
NV == Rec[1].nmax
Family == {} PickAsCoded == FALSE MaxDepth == 0
VARIABLES l, cnf, wp, wn, stack, decs, last, hmap
INSTANCE Watched
tvars == <<l, cnf, wp, wn, stack, decs, last, hmap>>

(* stack elements here are observation records [m, sat, hash] *)
TInit == l = 2 /\ cnf = << >> /\ wp = << >> /\ wn = << >> /\ stack = << >> /\ decs = << >>
         /\ last = [op |-> "none", lit |-> 0] /\ hmap = << >>

Obs(e) == [m |-> e.m, sat |-> e.sat, hash |-> e.hash]
HashOK(c, e) == IF e.hash \in DOMAIN hmap THEN hmap[e.hash] = ResidualSet(c, e.m) ELSE TRUE
HashUpd(c, e) == IF e.hash \in DOMAIN hmap THEN hmap ELSE hmap @@ (e.hash :> ResidualSet(c, e.m))
IsSetOK(e) == \A v \in 1 .. Len(e.m) : e.isset[v] = (e.m[v] # -1)

(* L2 (MODEL-DRIFT only): the numeric residual hash as SATSolver computes it.  new() sorts every clause (negative literals  *)
(* first, each group by variable), removes repeated literals and drops tautologies; the k-th literal occurrence of what is  *)
(* left owns the k-th prime; the hash of a state is the product of the primes of the occurrences that are GONE from the      *)
(* residual: every occurrence of a satisfied clause, the falsified occurrences of an unsatisfied one.                        *)
FirstPrimes == <<2, 3, 5, 7, 11, 13, 17, 19, 23, 29, 31, 37, 41, 43, 47, 53, 59, 61, 67, 71, 73, 79, 83, 89, 97, 101, 103, 107, 109, 113,
                 127, 131, 137, 139, 149, 151, 157, 163, 167, 173, 179, 181, 191, 193, 197, 199, 211, 223, 227, 229>>
SortedLits(c) == LET S == LitSet(c)
                     neg == SetToSortSeq({x \in S : x < 0}, LAMBDA a, b : a > b)      \* -1, -2, ...: ascending variable
                     pos == SetToSortSeq({x \in S : x > 0}, LAMBDA a, b : a < b)
                 IN neg \o pos
NormCnf(c) == LET kept == SelectSeq(c, LAMBDA cl : ~Tautology(cl)) IN [i \in 1 .. Len(kept) |-> SortedLits(kept[i])]
RECURSIVE OccBaseN(_, _)
OccBaseN(nc, i) == IF i <= 1 THEN 0 ELSE Len(nc[i - 1]) + OccBaseN(nc, i - 1)
GonePrimes(nc, m) ==
  UNION {{FirstPrimes[OccBaseN(nc, i) + j] : j \in {k \in 1 .. Len(nc[i]) : ClauseSat(m, nc[i]) \/ LitVal(m, nc[i][k]) = "F"}} : i \in 1 .. Len(nc)}
RECURSIVE ProdLimbs(_)
ProdLimbs(S) == IF S = {} THEN <<1>> ELSE LET x == CHOOSE y \in S : TRUE IN LMul(<<x>>, ProdLimbs(S \ {x}))
HashDrift(c, e) == LET nc == NormCnf(c) IN
  OccBaseN(nc, Len(nc) + 1) <= Len(FirstPrimes) /\ e.hash # ProdLimbs(GonePrimes(nc, e.m))

L2On == "nol2" \notin DOMAIN Rec[1]      \* bulk-padded solvers: the record shows a suffix of the clause list, the L2 predictions do not apply
TStep ==
  /\ l <= Len(Rec)
  /\ l' = l + 1
  /\ LET e == Rec[l] IN
     /\ "panic" \notin DOMAIN e
     /\ CASE e.ev = "snew" ->
               /\ cnf' = e.cnf /\ decs' = << >> /\ hmap' = << >>
               /\ IF e.ok
                    THEN /\ GoodState(e.cnf, {}, e.m)                               \* L1
                         /\ SatFlagOK(e.cnf, e.m, e.sat) /\ IsSetOK(e)
                         /\ LET p == NewW(FALSE, e.cnf, e.nv) IN                     \* L2
                              IF L2On /\ (~p.ok \/ p.m # e.m \/ p.wp # e.wp \/ p.wn # e.wn \/ HashDrift(e.cnf, e)) THEN PrintT(<<"DRIFT", l>>) ELSE TRUE
                         /\ stack' = <<Obs(e)>> /\ wp' = e.wp /\ wn' = e.wn
                         /\ last' = [op |-> "new", lit |-> 0]
                    ELSE /\ UnsatAllowed(e.cnf, {})                                  \* L1: None only if unsatisfiable
                         /\ stack' = << >> /\ wp' = << >> /\ wn' = << >>
                         /\ last' = [op |-> "none", lit |-> 0]
          [] e.ev = "decide" ->
               LET top == stack[Len(stack)]
                   ds  == {decs[i] : i \in 1 .. Len(decs)} \cup {e.lit}
                   p   == DecideW(FALSE, cnf, [m |-> top.m, wp |-> wp, wn |-> wn], e.lit)
               IN /\ Len(stack) >= 1
                  /\ IF e.res = "UNSAT"
                       THEN /\ UnsatAllowed(cnf, ds)                                 \* L1
                            /\ Obs(e) = top /\ e.depth = Len(stack) + 1              \* nothing pushed
                            /\ stack' = stack /\ decs' = decs /\ hmap' = hmap
                       ELSE /\ GoodState(cnf, ds, e.m)                               \* L1
                            /\ AssignedLits(top.m) \subseteq AssignedLits(e.m)
                            /\ SatFlagOK(cnf, e.m, e.sat) /\ (e.res = "SAT") = e.sat /\ IsSetOK(e)
                            /\ e.depth = Len(stack) + 2
                            /\ {e.diff[i] : i \in 1 .. Len(e.diff)} = AssignedLits(e.m) \ AssignedLits(top.m)
                            /\ HashOK(cnf, e) /\ hmap' = HashUpd(cnf, e)
                            /\ stack' = Append(stack, Obs(e)) /\ decs' = Append(decs, e.lit)
                  /\ IF L2On /\ (p.ok # (e.res # "UNSAT") \/ (p.ok /\ p.m # e.m) \/ p.wp # e.wp \/ p.wn # e.wn \/ (e.res # "UNSAT" /\ HashDrift(cnf, e)))
                       THEN PrintT(<<"DRIFT", l>>) ELSE TRUE                         \* L2
                  /\ wp' = e.wp /\ wn' = e.wn
                  /\ last' = [op |-> e.res, lit |-> e.lit] /\ UNCHANGED cnf
          [] e.ev = "pop" ->
               /\ Len(stack) >= 2                                                    \* domain: pops <= decides
               /\ Obs(e) = stack[Len(stack) - 1]                                     \* L1: exactly the earlier state
               /\ e.depth = Len(stack)
               /\ e.wp = wp /\ e.wn = wn
               /\ stack' = SubSeq(stack, 1, Len(stack) - 1) /\ decs' = SubSeq(decs, 1, Len(decs) - 1)
               /\ last' = [op |-> "pop", lit |-> 0] /\ UNCHANGED <<cnf, wp, wn, hmap>>

TSpec == TInit /\ [][TStep]_tvars
Accepted ==
  LET d == TLCGet("stats").diameter IN
  IF d = Len(Rec) THEN TRUE ELSE PrintT(<<"REJECT", d + 1>>) /\ FALSE
=============================================================================
