SPECIFICATION TDSpec
CONSTANTS
  NV = 3
  PickAsCoded = FALSE
  MaxDepth = 0
  Family <- Fam3
  TDFamily <- FamAll2
INVARIANT CompileExact
INVARIANT CacheTransparent
CHECK_DEADLOCK FALSE
