------------------------------- MODULE GenCnf -------------------------------
(***************************************************************************)
(* Behaviour generator (spec -> impl) for CNF compilation: every CNF of a  *)
(* positional family (one clause set per clause position, walked prefix by *)
(* prefix) with its set of models EvalCnf(cnf).  The driver compiles each  *)
(* CNF with every compiler - bottom-up BDD (every order, both caches),     *)
(* bottom-up SDD (several vtrees, compression on/off), top-down            *)
(* decision-DNNF (every order, both node stores) - and compares the truth  *)
(* table of the result (top-down additionally: the false constant iff the  *)
(* CNF is unsatisfiable, no variable decided twice on a path).             *)
(***************************************************************************)
EXTENDS BoolFn, Json, TLC, Sequences
CONSTANTS Family, Sample, Seed
VARIABLE cnf
Lits == {x \in (0 - NV) .. NV : x # 0}
AbsOf(x) == IF x < 0 THEN 0 - x ELSE x
Strict(w) == {c \in [1 .. w -> Lits] : \A i, j \in 1 .. w : i < j => AbsOf(c[i]) < AbsOf(c[j])}
AnyCl(w) == {c \in [1 .. w -> Lits] : \A i, j \in 1 .. w : i < j => AbsOf(c[i]) <= AbsOf(c[j])}     \* repeated / complementary literals
Pos3 == << Strict(1) \cup Strict(2) \cup Strict(3), Strict(1) \cup Strict(2) \cup Strict(3), Strict(1) \cup Strict(2) \cup Strict(3) >>
Pos4 == << Strict(2), Strict(2) \cup Strict(1), Strict(2), Strict(1) \cup Strict(2) >>
PosT == << AnyCl(1) \cup AnyCl(2), AnyCl(2) \cup Strict(3) \cup {<< >>}, AnyCl(1) \cup AnyCl(2) >>          \* tautologies, duplicates, an empty clause
Tag(c) == LET RECURSIVE H(_, _) H(i, acc) == IF i > Len(c) THEN acc
                                             ELSE H(i + 1, (acc * 31 + Len(c[i]) * 7 + (IF Len(c[i]) > 0 THEN c[i][1] + c[i][Len(c[i])] * 3 + 40 ELSE 5)) % 1009)
          IN (H(1, Seed + 17)) % Sample
Init == cnf \in {<<c>> : c \in Family[1]}
Next == /\ Len(cnf) < Len(Family)
        /\ \E c \in Family[Len(cnf) + 1] : cnf' = Append(cnf, c)
Spec == Init /\ [][Next]_cnf
Emit == IF Tag(cnf) = 0 THEN PrintT(ToJson([op |-> "cnf", cnf |-> cnf, models |-> EvalCnf(cnf), nv |-> NV])) ELSE TRUE
=============================================================================
