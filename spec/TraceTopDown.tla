---------------------------- MODULE TraceTopDown ----------------------------
EXTENDS Json, IOUtils
Rec == ndJsonDeserialize(IOEnv.TRACE)
NV == Rec[1].nmax
PD == 6
CONSTANT Enforce
VARIABLES l, nv, cnf, node, root, den, store
INSTANCE TopDownApi
vars == <<l, nv, cnf, node, root, den, store>>
EnfC06 == {"C06"}
EnfC07 == {"C07"}
EnfC11 == {"C11"}
EnfC10 == {"C10"}
EnfAll == {"C06", "C07", "C10"}
Init == l = 2 /\ store = "std" /\ nv = 0 /\ cnf = << >> /\ node = << >> /\ root = [s \in TSlots |-> 0] /\ den = [s \in TSlots |-> TrueFn]
Step ==
  /\ l <= Len(Rec)
  /\ l' = l + 1
  /\ LET e == Rec[l] IN
     /\ "panic" \notin DOMAIN e
     /\ CASE e.ev = "treset" -> TDReset(e)
          [] e.ev \in {"compile", "tneg", "tcond"} -> TDProduce(e)
          [] e.ev \in {"eval", "wmc", "count"} -> TDQuery(e)
Spec == Init /\ [][Step]_vars
Accepted ==
  LET d == TLCGet("stats").diameter IN
  IF d = Len(Rec) THEN TRUE ELSE PrintT(<<"REJECT", d + 1>>) /\ FALSE
=============================================================================
