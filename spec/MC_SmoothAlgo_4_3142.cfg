SPECIFICATION Spec
CONSTANTS
  NV = 4
  Ord <- Ord3142
  AsCoded = FALSE
INVARIANT SmoothSound
CHECK_DEADLOCK FALSE
