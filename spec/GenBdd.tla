------------------------------- MODULE GenBdd -------------------------------
(***************************************************************************)
(* Behaviour generator (spec -> impl) for function-level operations: the   *)
(* state is "the current function" and every operation of the BoolFn       *)
(* vocabulary with every argument is a transition; TLC prints each         *)
(* transition <<op, arguments, expected result>> as one JSON line, the     *)
(* driver replays it into real builders (BDD under every order and both    *)
(* caches, SDD under every vtree) and compares truth tables.               *)
(* Functions are sets of assignments (integers); Sample/Seed thin out the  *)
(* space deterministically in quick mode.                                  *)
(***************************************************************************)
EXTENDS BoolFn, Json, TLC
CONSTANTS Mode,      \* "unary" (cond / exists / condm), "binary" (and or xor iff), "ternary" (ite, compose)
          Sample,    \* keep 1 function out of Sample (1 = all)
          Seed
VARIABLE f
(* sampling by the rank of the function among all functions (its truth table read as a binary number): every residue class *)
(* modulo Sample is inhabited, whatever the seed                                                                         *)
Tag(g) == LET RECURSIVE Rank(_)
              Rank(h) == IF h = {} THEN 0 ELSE LET a == CHOOSE x \in h : TRUE IN 2 ^ a + Rank(h \ {a})
          IN ((Rank(g) % 251) * 13 + (Rank(g) \div 251) + Seed) % Sample
Fns == {g \in SUBSET Assign : Tag(g) = 0}
AllF == SUBSET Assign
J(op, args, g, h, exp) == PrintT(ToJson([op |-> op, a |-> args, f |-> f, g |-> g, h |-> h, exp |-> exp]))

Init == f \in Fns
Next ==
  /\ f' = f
  /\ CASE Mode = "unary" ->
            /\ \A v \in Vars : \A b \in BOOLEAN : J("cond", <<v, IF b THEN 1 ELSE 0>>, {}, {}, Cond(f, v, b))
            /\ \A v \in Vars : J("exists", <<v>>, {}, {}, Exists(f, v))
            /\ J("neg", << >>, {}, {}, Neg(f))
       [] Mode = "binary" ->
            \A g \in AllF :
              /\ J("and", << >>, g, {}, And(f, g))
              /\ J("or", << >>, g, {}, Or(f, g))
              /\ J("xor", << >>, g, {}, Xor(f, g))
              /\ J("iff", << >>, g, {}, Iff(f, g))
       [] Mode = "ternary" ->
            \A g \in AllF :
              /\ \A h \in AllF : J("ite", << >>, g, h, Ite(f, g, h))
              /\ \A v \in Vars : J("compose", <<v>>, g, {}, Compose(f, v, g))
Spec == Init /\ [][Next]_f
=============================================================================
