------------------------------- MODULE GenLru -------------------------------
(* Behaviour generator (spec -> impl) for the lossy cache: every behaviour of the bounded  *)
(* Lru model up to Depth calls, one JSON line each: ["i",k,v,h] / ["g",k,h,ret,last].       *)
EXTENDS Json, Sequences
CONSTANTS LKeys, LH, LMaxCap, LVals, Depth, LCaps
VARIABLES lru, last, lastGet, lhash, hist, cap0, nextv
LCap0 == 0
INSTANCE Lru
gvars == <<lru, last, lastGet, lhash, hist, cap0, nextv>>
GInit == /\ cap0 \in LCaps /\ lru = EmptyLru(cap0) /\ last = LossyEmpty /\ lastGet = [k |-> 0, ret |-> -1]
         /\ lhash = << >> /\ hist = << >> /\ nextv = 1
GNext ==
  /\ Len(hist) < Depth
  /\ UNCHANGED <<cap0, lastGet>>
  /\ \E k \in LKeys, h \in 0 .. (LH - 1) :
       /\ HashFor(k, h)
       /\ \/ /\ lru' = Insert(lru, k, nextv, h)
             /\ last' = LossyAfterInsert(last, k, nextv)
             /\ nextv' = nextv + 1
             /\ hist' = Append(hist, <<"i", k, nextv, h>>)
          \/ /\ UNCHANGED <<lru, last, nextv>>
             /\ hist' = Append(hist, <<"g", k, h, Get(lru, k, h), IF k \in DOMAIN last THEN last[k] ELSE -1>>)
GSpec == GInit /\ [][GNext]_gvars
Emit == (Len(hist) = Depth) => PrintT(ToJson([cap |-> cap0, ops |-> hist]))
=============================================================================
