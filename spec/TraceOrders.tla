----------------------------- MODULE TraceOrders -----------------------------
(***************************************************************************)
(* L1 + L3 for C14: variable orders, dtrees, derived vtrees and the vtree  *)
(* manager's tables, each recomputed here from the definition.             *)
(*   dtree: <<"n", l, r, cutset, vars>> / <<"l", clause, cutset, vars>>    *)
(***************************************************************************)
EXTENDS Json, IOUtils, TLC
Rec == ndJsonDeserialize(IOEnv.TRACE)
NV == Rec[1].nmax
PD == 1
INSTANCE CnfAll
VARIABLE l

ToSet(s) == {s[i] : i \in 1 .. Len(s)}
ClauseVars(c) == {LitVar(x) : x \in LitSet(c)}

(* --- orders: a permutation of 0..n-1 whose two maps are mutually inverse --- *)
OrderOK(e) ==
  /\ e.n = e.nv
  /\ Len(e.p2v) = e.n /\ Len(e.v2p) = e.n
  /\ ToSet(e.p2v) = 0 .. (e.n - 1)
  /\ \A i \in 1 .. e.n : e.v2p[e.p2v[i] + 1] = i - 1
  /\ \A v \in 1 .. e.n : e.p2v[e.v2p[v] + 1] = v - 1
  /\ (IF e.kind = "linear" THEN e.p2v = [i \in 1 .. e.n |-> i - 1] ELSE TRUE)
  /\ (IF e.kind = "new_last"
        THEN /\ e.labels = [i \in 1 .. e.k |-> Len(e.base) + i - 1]            \* fresh labels, in order
             /\ SubSeq(e.p2v, 1, Len(e.base)) = e.base                          \* the old order is kept
             /\ SubSeq(e.p2v, Len(e.base) + 1, e.n) = e.labels                  \* new variables go last
        ELSE TRUE)

(* L2 (MODEL-DRIFT only): the heuristic orders are the very orders min_fill_order / force_order as transcribed in OrderAlgo compute *)
(* (FORCE: on inputs where no exact tie meets an inexact f64 quotient - elsewhere the model abstains)                             *)
OA == INSTANCE OrderAlgo
OrderDrift(e) ==
  IF e.nv > 5 \/ Len(e.cnf) > 4 THEN FALSE ELSE        \* the model is evaluated on small inputs only (TLC: seconds per large input)
  CASE e.kind = "minfill" -> e.p2v # OA!MinFill(e.cnf, e.nv)
    [] e.kind = "force" -> OA!Applicable(e.cnf) /\ ~OA!Fragile(e.cnf, e.nv) /\ e.p2v # OA!Force(e.cnf, e.nv)
    [] OTHER -> FALSE

(* --- dtrees --- *)
IsLeafD(t) == t[1] = "l"
RECURSIVE Leaves(_), DVars(_), DTreeOK(_, _)
Leaves(t) == IF IsLeafD(t) THEN <<t[2]>> ELSE Leaves(t[2]) \o Leaves(t[3])
DVarsField(t) == IF IsLeafD(t) THEN ToSet(t[4]) ELSE ToSet(t[5])
DCut(t) == IF IsLeafD(t) THEN ToSet(t[3]) ELSE ToSet(t[4])
DVars(t) == IF IsLeafD(t) THEN ClauseVars(t[2]) ELSE DVars(t[2]) \cup DVars(t[3])
(* anc = union of the cutsets of the ancestors *)
DTreeOK(t, anc) ==
  IF IsLeafD(t)
  THEN /\ DVarsField(t) = ClauseVars(t[2])
       /\ DCut(t) = ClauseVars(t[2]) \ anc
  ELSE /\ DVarsField(t) = DVarsField(t[2]) \cup DVarsField(t[3])                 \* union of the children's
       /\ DCut(t) = (DVarsField(t[2]) \cap DVarsField(t[3])) \ anc
       /\ DTreeOK(t[2], anc \cup DCut(t)) /\ DTreeOK(t[3], anc \cup DCut(t))
(* multiset equality of two sequences of clauses *)
SameBag(a, b) ==
  /\ Len(a) = Len(b)
  /\ \A x \in ToSet(a) \cup ToSet(b) :
        Cardinality({i \in 1 .. Len(a) : a[i] = x}) = Cardinality({i \in 1 .. Len(b) : b[i] = x})
DtreeEventOK(e) ==
  /\ SameBag(Leaves(e.tree), e.cnf)                               \* exactly the CNF's clauses as leaves
  /\ DTreeOK(e.tree, {})

(* L2 (MODEL-DRIFT only): the recorded trees are the very trees eo2dtree / from_dtree as transcribed in DTreeAlgo build *)
DT == INSTANCE DTreeAlgo WITH InitFinal <- TRUE
RECURSIVE NormD(_)
NormD(t) == IF IsLeafD(t) THEN <<"l", t[2], ToSet(t[3]), ToSet(t[4])>>
            ELSE <<"n", NormD(t[2]), NormD(t[3]), ToSet(t[4]), ToSet(t[5])>>
DtreeDrift(e) == e.cnf # << >> /\ NormD(e.tree) # DT!FromCnf(e.cnf, e.elim)
VtreeDrift(e) == "dtree" \in DOMAIN e /\ e.cnf # << >> /\
                 (IF "none" \in DOMAIN e THEN DT!None ELSE e.tree) # DT!FromDtree(NormD(e.dtree))

(* --- vtree derived from a dtree: every CNF variable exactly one leaf --- *)
CnfVars(cnf) == UNION {ClauseVars(cnf[i]) : i \in 1 .. Len(cnf)}
VtreeDtOK(e) ==
  IF "none" \in DOMAIN e THEN CnfVars(e.cnf) = {}
  ELSE /\ VVars(e.tree) = CnfVars(e.cnf)
       /\ NoRepeatedLeaf(e.tree)

(* --- vtree manager --- *)
VtManOK(e) ==
  LET t == e.tree
      flat == Flatten(t)                 \* computed once per event (the operators of VTrees recompute it per call)
      spans == SpanSeq(t, 0)
      n == Len(flat)
      idx == e.idx
      vix(v) == (CHOOSE i \in 1 .. n : flat[i] = <<"leaf", v>>) - 1
  IN /\ e.root = t
     /\ ToSet(idx) \subseteq 0 .. (n - 1)
     \* every index the manager hands out names the subtree at that in-order position
     /\ \A i \in 1 .. Len(idx) : e.sub[i] = flat[idx[i] + 1]
     /\ \A i \in 1 .. Len(e.varidx) : flat[e.varidx[i][2] + 1] = <<"leaf", e.varidx[i][1]>>
     /\ \A i \in 1 .. Len(idx), j \in 1 .. Len(idx) :
          /\ e.lca[i][j] = LcaS(spans, idx[i], idx[j])
          \* a is "prime" w.r.t. b iff it comes strictly earlier in the in-order traversal
          /\ e.prime[i][j] = (idx[i] < idx[j])
     /\ \A i \in 1 .. Len(e.labels), j \in 1 .. Len(e.labels) :
          e.primevar[i][j] = (vix(e.labels[i]) < vix(e.labels[j]))
     /\ e.numvars = NumLeaves(t)
     \* the one-pass tables are the tables of the definition (checked on small trees, where the cubic definition is cheap)
     /\ (n <= 15 => \A a, b \in 0 .. (n - 1) : LcaS(spans, a, b) = Lca(t, a, b))

EventOK(e) ==
  CASE e.ev = "order" -> OrderOK(e)
    [] e.ev = "dtree" -> DtreeEventOK(e)
    [] e.ev = "vtree_dt" -> VtreeDtOK(e)
    [] e.ev = "vtman" -> VtManOK(e)

Init == l = 2
Step == /\ l <= Len(Rec) /\ l' = l + 1
        /\ "panic" \notin DOMAIN Rec[l] /\ "inexact" \notin DOMAIN Rec[l]
        /\ EventOK(Rec[l])
        /\ (IF Rec[l].ev = "order" /\ OrderDrift(Rec[l]) THEN PrintT(<<"DRIFT", l>>) ELSE TRUE)
        /\ (IF Rec[l].ev = "dtree" /\ DtreeDrift(Rec[l]) THEN PrintT(<<"DRIFT", l>>) ELSE TRUE)
        /\ (IF Rec[l].ev = "vtree_dt" /\ VtreeDrift(Rec[l]) THEN PrintT(<<"DRIFT", l>>) ELSE TRUE)
Spec == Init /\ [][Step]_l
Accepted ==
  LET d == TLCGet("stats").diameter IN
  IF d = Len(Rec) THEN TRUE ELSE PrintT(<<"REJECT", d + 1>>) /\ FALSE
=============================================================================
