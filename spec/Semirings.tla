------------------------------ MODULE Semirings ------------------------------
(***************************************************************************)
(* L0 vocabulary: the weight types shipped by rsdd as exact TLA+ carriers. *)
(*                                                                         *)
(* A value is a record [c |-> <<integer components>>, e |-> exponent] and  *)
(* denotes the tuple c / 8^e (dyadic rationals): this is how "exactly      *)
(* representable" reals, complex numbers, expected utilities and           *)
(* polynomial coefficients are compared with the f64 values of the code    *)
(* without any tolerance.  Kinds:                                          *)
(*   "real"    1 component                 "bool" 1 component in {0,1}     *)
(*   "rat"     1 component (naturals)      "ff"   1 component mod P        *)
(*   "complex" <<re, im>>                  "eu"   <<probability, utility>> *)
(*   "poly"    PD+1 coefficients, products truncated at X^PD               *)
(*   "polyhi"  all 32 coefficient slots of the shipped polynomial type:    *)
(*             products truncated at X^31 (used with high-degree weights   *)
(*             whose counts reach the last slot)                           *)
(* For "bool", "rat" and "ff" the exponent is always 0.                    *)
(***************************************************************************)
EXTENDS Naturals, Integers, Sequences, FiniteSets, FiniteSetsExt, TLC

CONSTANT PD                                  \* highest polynomial degree kept

Max2(a, b) == IF a >= b THEN a ELSE b
Min2(a, b) == IF a <= b THEN a ELSE b
Pow8(d) == 8 ^ d
NComp(sr) == CASE sr \in {"real", "bool", "ff", "rat"} -> 1
               [] sr \in {"complex", "eu"} -> 2
               [] sr = "poly" -> PD + 1
               [] sr = "polyhi" -> 32                       \* the full capacity of the shipped type (MAX_COEFFS)

Val(c, e) == [c |-> c, e |-> e]
Zero(sr) == Val([i \in 1 .. NComp(sr) |-> 0], 0)
One(sr) == Val([i \in 1 .. NComp(sr) |-> IF i = 1 THEN 1 ELSE 0], 0)

Scale(x, d) == Val([i \in DOMAIN x.c |-> IF x.c[i] = 0 \/ d = 0 THEN x.c[i] ELSE x.c[i] * Pow8(d)], x.e + d)
(* the same value written with exponent e (e >= x.e) *)
AtExp(x, e) == Scale(x, e - x.e)
SameValue(x, y) == LET m == Max2(x.e, y.e) IN AtExp(x, m).c = AtExp(y, m).c

RECURSIVE ConvSum(_, _, _, _)
ConvSum(a, b, k, i) ==          \* sum of a[i]*b[k+1-i] for i .. k
  IF i > k THEN 0 ELSE a[i] * b[k + 1 - i] + ConvSum(a, b, k, i + 1)

MulC(sr, p, a, b) ==
  CASE sr \in {"real", "rat", "bool"} -> <<a[1] * b[1]>>
    [] sr = "ff" -> <<(a[1] * b[1]) % p>>
    [] sr = "complex" -> <<a[1] * b[1] - a[2] * b[2], a[1] * b[2] + a[2] * b[1]>>
    [] sr = "eu" -> <<a[1] * b[1], a[1] * b[2] + a[2] * b[1]>>
    [] sr = "poly" -> [k \in 1 .. PD + 1 |-> ConvSum(a, b, k, 1)]
    [] sr = "polyhi" -> [k \in 1 .. 32 |-> ConvSum(a, b, k, 1)]        \* terms past X^31 are dropped, as documented

AddC(sr, p, a, b) ==
  CASE sr = "bool" -> <<IF a[1] + b[1] > 0 THEN 1 ELSE 0>>
    [] sr = "ff" -> <<(a[1] + b[1]) % p>>
    [] OTHER -> [i \in DOMAIN a |-> a[i] + b[i]]

SubC(sr, p, a, b) ==
  CASE sr = "ff" -> <<(a[1] - b[1]) % p>>
    [] OTHER -> [i \in DOMAIN a |-> a[i] - b[i]]

(* TLCEval forces the operands once: TLC passes operator arguments lazily and, inside recursive definitions, re-evaluates *)
(* them on every use - without it a 32-coefficient product re-computes its recursive operand once per coefficient access *)
Mul(sr, p, x, y) == LET xx == TLCEval(x)  yy == TLCEval(y) IN Val(TLCEval(MulC(sr, p, xx.c, yy.c)), xx.e + yy.e)
Add(sr, p, x, y) == LET xx == TLCEval(x)  yy == TLCEval(y)  m == Max2(xx.e, yy.e) IN Val(TLCEval(AddC(sr, p, AtExp(xx, m).c, AtExp(yy, m).c)), m)
Sub(sr, p, x, y) == LET xx == TLCEval(x)  yy == TLCEval(y)  m == Max2(xx.e, yy.e) IN Val(TLCEval(SubC(sr, p, AtExp(xx, m).c, AtExp(yy, m).c)), m)

(* order, join, meet, choose as declared by the code for "real" and "eu" *)
Leq(sr, x, y) == LET m == Max2(x.e, y.e)  a == AtExp(x, m).c  b == AtExp(y, m).c IN
  CASE sr = "real" -> a[1] <= b[1]
    [] sr = "eu" -> (a[1] < b[1] /\ a[2] < b[2]) \/ a = b      \* the declared (strict product) partial order
Join(sr, x, y) == LET m == Max2(x.e, y.e)  a == AtExp(x, m).c  b == AtExp(y, m).c IN
  Val([i \in DOMAIN a |-> Max2(a[i], b[i])], m)
Meet(sr, x, y) == LET m == Max2(x.e, y.e)  a == AtExp(x, m).c  b == AtExp(y, m).c IN
  Val([i \in DOMAIN a |-> Min2(a[i], b[i])], m)
(* choose: real = max; eu = the one with the larger utility, the SECOND argument on ties *)
Choose(sr, x, y) == LET m == Max2(x.e, y.e)  a == AtExp(x, m).c  b == AtExp(y, m).c IN
  CASE sr = "real" -> IF a[1] >= b[1] THEN AtExp(x, m) ELSE AtExp(y, m)
    [] sr = "eu" -> IF a[2] > b[2] THEN AtExp(x, m) ELSE AtExp(y, m)

(* pad / read a logged weight: a tuple of components, at weight exponent we *)
Pad(sr, t) == [i \in 1 .. NComp(sr) |-> IF i <= Len(t) THEN t[i] ELSE 0]
Weight(sr, t, we) == Val(Pad(sr, t), we)
=============================================================================
