------------------------------- MODULE BddApi -------------------------------
(***************************************************************************)
(* L1: what a user of the bottom-up BDD builder relies on (properties      *)
(* C01, C02, C05, C07, C08, C10, C11, C12, C16 are conjuncts of these      *)
(* actions).  The specification is a MONITOR: each action takes, besides   *)
(* the call's arguments, what the implementation answered (root pointer,   *)
(* the raw nodes it allocated, returned scalars) and is enabled only if    *)
(* that answer is one the properties allow.  The denotation of every       *)
(* answer is recomputed here from the raw node table.                      *)
(*                                                                         *)
(* State: the builder's order, the append-only node table, a bounded pool  *)
(* of live diagrams (slot -> root pointer / denotation), the canonicity    *)
(* map (function -> the one pointer that may denote it) and the set of     *)
(* node contents (unique-table abstraction).                               *)
(***************************************************************************)
EXTENDS Diagrams, Counting, Bignum, TLC

CONSTANT K,                      \* number of pool slots (0 = True, 1 = False are fixed)
         Enforce,                \* the property ids whose conjuncts are enforced in this run
         TwinProp                \* the property a lock-step twin belongs to: "C16" (lossy-cache twin) or "C18" (C ABI twin)

(* a conjunct belongs to exactly one property; a check for property P alarms only on P's conjuncts *)
Req(p, cond) == IF p \in Enforce THEN cond ELSE TRUE

VARIABLES nvars,     \* number of variables created so far
          ord,       \* ord[level] = variable (1-based levels)
          node,      \* node[id] = <<id, var, lo, hi>>, append-only
          root,      \* root[slot] = pointer
          den,       \* den[slot] = denotation (set of assignments over NV variables)
          loose,     \* loose[slot] = n for a diagram smoothed over the first n levels (deliberately non-reduced), else -1
          canon,     \* function: denotation |-> the pointer of every reduced diagram denoting it
          contents,  \* set of <<var, lo, hi>> of all nodes
          hashes     \* function: <<prime, denotation>> |-> semantic hash (limbs) seen so far
bvars == <<nvars, ord, node, root, den, loose, canon, contents, hashes>>

Slots == 0 .. (K - 1)

ResetState(n0, order) ==
  /\ nvars' = n0
  /\ ord' = order
  /\ node' = << >>
  /\ root' = [s \in Slots |-> IF s = 1 THEN 1 ELSE 0]
  /\ den' = [s \in Slots |-> IF s = 1 THEN FalseFn ELSE TrueFn]
  /\ loose' = [s \in Slots |-> -1]
  /\ canon' = (TrueFn :> 0) @@ (FalseFn :> 1)
  /\ contents' = {}

(***************************************************************************)
(* Sem: the function an operation must return (C01, C05).                  *)
(***************************************************************************)
D(e, i) == den[e.a[i]]
Sem(e) ==
  CASE e.ev = "var"     -> Lit(e.a[1], e.a[2] = 1)
    [] e.ev = "newvar"  -> Lit(nvars, e.a[1] = 1)
    [] e.ev = "neg"     -> Neg(D(e, 1))
    [] e.ev = "and"     -> And(D(e, 1), D(e, 2))
    [] e.ev = "or"      -> Or(D(e, 1), D(e, 2))
    [] e.ev = "xor"     -> Xor(D(e, 1), D(e, 2))
    [] e.ev = "iff"     -> Iff(D(e, 1), D(e, 2))
    [] e.ev = "ite"     -> Ite(D(e, 1), D(e, 2), D(e, 3))
    [] e.ev = "cond"    -> Cond(D(e, 1), e.a[2], e.a[3] = 1)
    [] e.ev = "condm"   -> CondModel(D(e, 1), e.pm)
    [] e.ev = "exists"  -> Exists(D(e, 1), e.a[2])
    [] e.ev = "compose" -> Compose(D(e, 1), e.a[2], D(e, 3))
    [] e.ev = "andl"    -> AndAll([i \in 1 .. Len(e.a) |-> den[e.a[i]]], 1)
    [] e.ev = "orl"     -> OrAll([i \in 1 .. Len(e.a) |-> den[e.a[i]]], 1)
    [] e.ev = "cnf"     -> EvalCnf(e.cnf)
    [] e.ev = "cnfa"    -> CondModel(EvalCnf(e.cnf), e.pm)
    [] e.ev = "expr"    -> EvalExpr(e.expr)
    [] e.ev = "plan"    -> EvalExpr(e.expr)
    [] e.ev = "smooth"  -> D(e, 1)

(***************************************************************************)
(* Produce: a call that returns a diagram into slot e.res.                 *)
(***************************************************************************)
(* C10 (purity): when the recorder repeated the call on a fresh copy of the pool in a fresh builder, *)
(* every answer field must coincide with the long-lived builder's (shape = the diagram unfolded)    *)
FreshAgrees(e) ==
  IF "fresh" \in DOMAIN e
  THEN /\ "f_panic" \notin DOMAIN e
       /\ \A k \in {"val", "model", "limbs", "nlimbs", "climbs", "nclimbs", "shape"} :
             IF k \in DOMAIN e THEN ("f_" \o k) \in DOMAIN e /\ e["f_" \o k] = e[k] ELSE TRUE
  ELSE TRUE

Produce(e) ==
  LET nn   == e.nodes
      nd2  == node \o nn
      nv2  == IF e.ev = "newvar" THEN nvars + 1 ELSE nvars
      ord2 == IF e.ev = "newvar" THEN Append(ord, nvars) ELSE ord
      pos2 == [v \in 0 .. (nv2 - 1) |-> CHOOSE i \in 1 .. Len(ord2) : ord2[i] = v]
      d    == DenBdd(nd2, e.root)
      isLoose == e.ev = "smooth"
  IN
  /\ e.res \in 2 .. (K - 1)
  /\ (e.ev = "newvar") => (e.label = nvars /\ nvars < NV)      \* new label goes last, C14/C01
  \* the node table is append-only with consecutive ids; children are already known
  /\ \A i \in 1 .. Len(nn) :
        /\ nn[i][1] = Len(node) + i
        /\ nn[i][2] \in 0 .. (nv2 - 1)
        /\ NodeOf(nn[i][3]) < nn[i][1] /\ NodeOf(nn[i][4]) < nn[i][1]
  \* C01 / C05 / C08: the function
  /\ Req(IF e.ev \in {"cnf", "cnfa", "expr", "plan"} THEN "C05" ELSE IF e.ev = "smooth" THEN "C08" ELSE "C01",
         d = Sem(e))
  \* C02: shape of every new node; the unique table holds no two nodes with the same content
  /\ Req("C02", \A i \in 1 .. Len(nn) :
        /\ HighRegular(nn[i])
        /\ Ordered(nd2, pos2, nn[i])
        /\ IF isLoose THEN TRUE ELSE Reduced(nn[i])
        /\ <<nn[i][2], nn[i][3], nn[i][4]>> \notin contents)
  /\ Req("C02", Cardinality({<<nn[i][2], nn[i][3], nn[i][4]>> : i \in 1 .. Len(nn)}) = Len(nn))
  /\ contents' = contents \cup {<<nn[i][2], nn[i][3], nn[i][4]>> : i \in 1 .. Len(nn)}
  \* C02: one pointer per function (reduced diagrams only)
  /\ IF isLoose
       THEN /\ Req("C08", TestsLevels(nd2, ord2, pos2, e.root, 1, e.a[2]))   \* each of the first n levels once, in order
            /\ UNCHANGED canon
       ELSE IF d \in DOMAIN canon THEN Req("C02", canon[d] = e.root) /\ UNCHANGED canon
            ELSE canon' = canon @@ (d :> e.root)
  \* C05: compile-under-assignment returns the very diagram that compile + condition_model returns
  /\ IF "cm_root" \in DOMAIN e THEN Req("C05", e.cm_root = e.root) ELSE TRUE
  \* C16: the twin builder (tiny lossy apply cache, same program) returned the same canonical diagram
  /\ IF "tev" \in DOMAIN e
       THEN Req(TwinProp, /\ e.tev = e.ev /\ e.ta = e.a /\ "troot" \in DOMAIN e
                       /\ e.troot = e.root /\ e.tnodes = e.nodes)
       ELSE TRUE
  \* C10: no scratch left behind, and the same call on a freshly built copy gives the same diagram
  /\ Req("C10", e.dirty = << >>)
  /\ Req("C10", FreshAgrees(e))
  /\ node' = nd2
  /\ nvars' = nv2 /\ ord' = ord2
  /\ root' = [root EXCEPT ![e.res] = e.root]
  /\ den' = [den EXCEPT ![e.res] = d]
  /\ loose' = [loose EXCEPT ![e.res] = IF isLoose THEN e.a[2] ELSE -1]
  /\ UNCHANGED hashes

(***************************************************************************)
(* Queries: stuttering steps on the builder state; the answer is a         *)
(* function of (denotation, parameters) only - or, for count_nodes, of the *)
(* immutable structure.                                                    *)
(***************************************************************************)
(***************************************************************************)
(* C11: the semantic hash is a function of the denotation; hash(~f) =       *)
(* 1 - hash(f) mod P; cached = recomputed; at a small prime the defining    *)
(* sum is recomputed natively.                                              *)
(***************************************************************************)
(* the cached hash is the finite-field count that the fold computes with the same weights (C11: cached = recomputed; and C07: it IS a
   weighted model count, delivered through the per-node cache) *)
CachedIsCount(e) ==
  /\ (IF "climbs" \in DOMAIN e THEN e.climbs = e.limbs ELSE TRUE)
  /\ (IF "nclimbs" \in DOMAIN e THEN e.nclimbs = e.nlimbs ELSE TRUE)                     \* cached hash of the negation
HashOK(e) ==
  LET f == D(e, 1) IN
  IF e.p = "32749"
  THEN /\ Normalised("ff", 32749, e.w, WX(0, nvars), nvars)
       /\ <<e.val>> = Comps(WMC("ff", 32749, f, e.w, WX(0, nvars), nvars), 0)
  ELSE LET P == PrimeLimbs(e.p)
           s == LAdd(e.limbs, e.nlimbs)
       IN /\ IsLimbs(e.limbs) /\ IsLimbs(e.nlimbs)
          /\ LLess(e.limbs, P) /\ LLess(e.nlimbs, P)
          /\ (s = <<1>> \/ s = LAdd(P, <<1>>))                       \* h + h' = 1 (mod P)
          /\ (IF <<e.p, f>> \in DOMAIN hashes THEN hashes[<<e.p, f>>] = e.limbs ELSE TRUE)
          /\ (IF <<e.p, Neg(f)>> \in DOMAIN hashes THEN hashes[<<e.p, Neg(f)>>] = e.nlimbs ELSE TRUE)
          /\ CachedIsCount(e)
HashUpd(e) ==
  IF e.p = "32749" THEN hashes
  ELSE LET f == D(e, 1) IN (<<e.p, f>> :> e.limbs) @@ (<<e.p, Neg(f)>> :> e.nlimbs) @@ hashes

(***************************************************************************)
(* C12: marginal MAP / MEU / branch and bound return the optimum over all  *)
(* assignments of the query variables and a model attaining it.            *)
(***************************************************************************)
QSet(e) == {e.q[i] : i \in 1 .. Len(e.q)}
RestrictTo(f, Q, T) == {a \in f : \A v \in Q : Bit(a, v) = (v \in T)}
RECURSIVE CondAll(_, _, _, _)
CondAll(f, q, T, i) == IF i > Len(q) THEN f ELSE CondAll(Cond(f, q[i], q[i] \in T), q, T, i + 1)
WExps(e) == IF "wexps" \in DOMAIN e THEN e.wexps ELSE WX(e.wexp, nvars)
Score(e, T) ==
  IF e.sr = "real"
  THEN Comps(WMC("real", 0, RestrictTo(D(e, 1), QSet(e), T), e.w, WExps(e), nvars), SumExp(WExps(e), nvars))[1]
  ELSE Comps(UWmc("eu", 0, CondAll(D(e, 1), e.q, T, 1), ord, e.w, WExps(e)), SumExp(WExps(e), nvars))[2]
OptOK(e) ==
  LET Q == QSet(e)
      scores == [T \in SUBSET Q |-> Score(e, T)]
      best == CHOOSE b \in {scores[T] : T \in SUBSET Q} : \A T \in SUBSET Q : scores[T] <= b
      mT == {v \in Q : e.model[v + 1] = 1}
  IN /\ e.val[IF e.sr = "real" THEN 1 ELSE 2] = best
     /\ \A v \in Q : e.model[v + 1] \in {0, 1}                     \* complete on the query variables
     /\ scores[mT] = best                                            \* and attains the optimum

QueryOK(e) ==
  LET f == D(e, 1)  r == root[e.a[1]] IN
  CASE e.ev = "eq" -> Req("C02", e.val = (den[e.a[1]] = den[e.a[2]]))
    [] e.ev = "recheck" -> Req("C01",                                             \* keeps denoting
         /\ e.root = r
         /\ \A i \in 1 .. Len(e.nodes) : node[e.nodes[i][1]] = e.nodes[i]
         /\ {e.nodes[i][1] : i \in 1 .. Len(e.nodes)} = Reach(node, r)
         /\ DenBdd(node, r) = f)
    [] e.ev = "eval" -> Req("C07", e.val = (e.a[2] \in f))
    [] e.ev = "count" -> Req("C10", e.val = Cardinality(Reach(node, r)))          \* structure only
    [] e.ev = "wmc" -> Req("C07",                                                 \* normalised weights
         /\ Normalised(e.sr, e.p, e.w, WX(e.wexp, nvars), nvars)
         /\ e.val = Comps(WMC(e.sr, e.p, f, e.w, WX(e.wexp, nvars), nvars), nvars * e.wexp)
         /\ ("den" \in DOMAIN e) => e.den = 1
         /\ ("tail0" \in DOMAIN e) => e.tail0)
    [] e.ev = "uwmc" -> Req(IF loose[e.a[1]] >= 0 THEN "C08" ELSE "C07",          \* arbitrary weights
         /\ e.val = Comps(IF loose[e.a[1]] >= 0
                            THEN SWmc(e.sr, e.p, f, ord, loose[e.a[1]], e.w, WX(e.wexp, nvars))    \* C08: exact on a smoothed diagram
                            ELSE UWmc(e.sr, e.p, f, ord, e.w, WX(e.wexp, nvars)), nvars * e.wexp)
         /\ ("den" \in DOMAIN e) => e.den = 1
         /\ ("tail0" \in DOMAIN e) => e.tail0)
    [] e.ev = "semhash" -> Req("C11", HashOK(e)) /\ Req("C07", e.p = "32749" \/ CachedIsCount(e))
    [] e.ev \in {"mmap", "meu", "bb"} -> Req("C12", OptOK(e))
    [] e.ev \in {"topvar", "mc", "wmcr", "wmcc", "wmcp", "json", "cnt", "sddpipe", "tdpipe", "cmisc"} -> TRUE     \* C ABI queries: judged by the twin only
    [] e.ev = "bfold" -> TRUE                                                        \* purity (C10) through FreshAgrees / dirty; the value: BFoldDrift

(* bdd_fold (beyond the listed properties; a difference is reported as drift, never as a violation): the fold of the Shannon
   expansion of the function along the builder's order - value(True) = hi, value(False) = lo, otherwise
   F(v, value(f|v=0), value(f|v=1)) for the first variable v of the order that f depends on *)
RECURSIVE BFoldFrom(_, _, _, _)
BFoldFrom(f, ordseq, lvl, which) ==
  IF f = {} THEN (IF which = 0 THEN 0 ELSE 1)
  ELSE IF f = Assign THEN (IF which = 0 THEN 1 ELSE 2)
  ELSE LET i == CHOOSE i \in lvl .. Len(ordseq) :
                   DependsOn(f, ordseq[i]) /\ \A j \in lvl .. (i - 1) : ~DependsOn(f, ordseq[j])
           v == ordseq[i]
           lo == BFoldFrom(Cond(f, v, FALSE), ordseq, i + 1, which)
           hi == BFoldFrom(Cond(f, v, TRUE), ordseq, i + 1, which)
       IN IF which = 0 THEN lo + hi ELSE lo + 2 * hi + v + 1
BFoldDrift(e) == e.ev = "bfold" /\ "val" \in DOMAIN e /\ e.val # BFoldFrom(D(e, 1), ord, 1, e.a[2])

(* a numeric answer that is not exactly representable where the property demands an exact value *)
PropOfQuery(e) == CASE e.ev = "uwmc" /\ loose[e.a[1]] >= 0 -> "C08"
                    [] e.ev \in {"wmc", "uwmc", "eval"} -> "C07"
                    [] e.ev \in {"mmap", "meu", "bb"} -> "C12"
                    [] e.ev = "semhash" -> "C11"
                    [] e.ev \in {"mc", "wmcr", "wmcc", "wmcp", "sddpipe", "tdpipe", "cmisc"} -> TwinProp
                    [] OTHER -> "C10"
Query(e) ==
  /\ Req(PropOfQuery(e), "inexact" \notin DOMAIN e)
  /\ QueryOK(e)
  /\ Req("C10", FreshAgrees(e))
  /\ IF "tev" \in DOMAIN e
       THEN Req(TwinProp, /\ e.tev = e.ev /\ e.ta = e.a
                       /\ (IF "val" \in DOMAIN e THEN "tval" \in DOMAIN e /\ e.tval = e.val ELSE TRUE)
                       /\ (IF "root" \in DOMAIN e THEN "troot" \in DOMAIN e /\ e.troot = e.root /\ e.tnodes = e.nodes ELSE TRUE))
       ELSE TRUE
  /\ Req("C10", e.dirty = << >>)
  /\ (IF BFoldDrift(e) THEN PrintT(<<"DRIFT", e.val>>) ELSE TRUE)
  /\ hashes' = (IF e.ev = "semhash" THEN HashUpd(e) ELSE hashes)
  /\ UNCHANGED <<nvars, ord, node, root, den, loose, canon, contents>>
=============================================================================
