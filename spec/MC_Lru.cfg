SPECIFICATION LSpec
CONSTANTS
  LKeys = {1, 2, 3}
  LVals = {1, 2}
  LH = 4
  LCap0 = 0
  LMaxCap = 2
INVARIANT Transparent
INVARIANT FilledUpper
INVARIANT OwnSlot
INVARIANT AllTransparent
CHECK_DEADLOCK FALSE
