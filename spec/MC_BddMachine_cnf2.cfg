SPECIFICATION Spec
CONSTANTS
  NV = 2
  Ord <- O10
  Slots = 0
  MaxNodes = 7
  MaxCache = 3
  Cnfs <- Cnfs2
  Ops <- CnfOps
  GetIgnoresCompl = FALSE
  GetIgnoresKey = FALSE
INVARIANTS ResultOK ShapeOK Canonical CacheSound CacheShape CacheStandard
CHECK_DEADLOCK FALSE
