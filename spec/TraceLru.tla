------------------------------ MODULE TraceLru ------------------------------
(***************************************************************************)
(* L3: a history recorded from the real rsdd::util::lru::Lru must be a     *)
(* behaviour of LossyMap (L1, alarm); the Lru model (L2) predicts the      *)
(* exact answer (a difference there is MODEL-DRIFT only).                  *)
(***************************************************************************)
EXTENDS Json, IOUtils, Sequences
Rec == ndJsonDeserialize(IOEnv.TRACE)
LKeys == {} LVals == {} LH == 1 LCap0 == 0 LMaxCap == 0
VARIABLES l, lru, last, lastGet, lhash
INSTANCE Lru
tvars == <<l, lru, last, lastGet, lhash>>

TInit == l = 2 /\ lru = EmptyLru(0) /\ last = LossyEmpty /\ lastGet = [k |-> 0, ret |-> -1] /\ lhash = << >>

TStep ==
  /\ l <= Len(Rec)
  /\ l' = l + 1
  /\ LET e == Rec[l] IN
     /\ "panic" \notin DOMAIN e
     /\ CASE e.ev = "lreset" -> lru' = EmptyLru(e.cap) /\ last' = LossyEmpty /\ lhash' = << >> /\ UNCHANGED lastGet
          [] e.ev = "lins" ->
               /\ HashFor(e.k, e.h)                                  \* domain: the hash is a function of the key
               /\ lru' = Insert(lru, e.k, e.v, e.h)
               /\ last' = LossyAfterInsert(last, e.k, e.v)
               /\ UNCHANGED lastGet
          [] e.ev = "lget" ->
               /\ HashFor(e.k, e.h)
               /\ LossyGetOK(last, e.k, e.ret)                                          \* L1 (C16)
               /\ IF Get(lru, e.k, e.h) # e.ret THEN PrintT(<<"DRIFT", l>>) ELSE TRUE   \* L2
               /\ lastGet' = [k |-> e.k, ret |-> e.ret]
               /\ UNCHANGED <<lru, last>>

TSpec == TInit /\ [][TStep]_tvars
Accepted ==
  LET d == TLCGet("stats").diameter IN
  IF d = Len(Rec) THEN TRUE ELSE PrintT(<<"REJECT", d + 1>>) /\ FALSE
=============================================================================
