---------------------------- MODULE MC_Semirings ----------------------------
(* The reference carriers of Semirings.tla obey the laws C13 lists (so that "result = reference" *)
(* in TraceSemiring entails the laws).  Checked exhaustively over small grids by TLC.            *)
EXTENDS Semirings, TLC
Grid1 == {-2, -1, 0, 1, 2, 3}
Carrier(sr) ==
  CASE sr = "real" -> {Val(<<n>>, e) : n \in Grid1, e \in {0, 1}}
    [] sr = "rat" -> {Val(<<n>>, 0) : n \in 0 .. 4}
    [] sr = "bool" -> {Val(<<n>>, 0) : n \in {0, 1}}
    [] sr = "ff" -> {Val(<<n>>, 0) : n \in 0 .. 6}
    [] sr \in {"complex", "eu"} -> {Val(<<n, m>>, e) : n \in {-1, 0, 1, 2}, m \in {-1, 0, 2}, e \in {0, 1}}
    [] sr = "poly" -> {Val(<<a, b, c>>, 0) : a \in {0, 1, 2}, b \in {0, 1}, c \in {0, 1}}
Eq(x, y) == SameValue(x, y)
Laws(sr, p) ==
  \A a \in Carrier(sr), b \in Carrier(sr), c \in Carrier(sr) :
    /\ Eq(Add(sr, p, a, b), Add(sr, p, b, a))
    /\ Eq(Add(sr, p, Add(sr, p, a, b), c), Add(sr, p, a, Add(sr, p, b, c)))
    /\ Eq(Mul(sr, p, a, b), Mul(sr, p, b, a))
    /\ Eq(Mul(sr, p, Mul(sr, p, a, b), c), Mul(sr, p, a, Mul(sr, p, b, c)))
    /\ Eq(Add(sr, p, a, Zero(sr)), a) /\ Eq(Mul(sr, p, a, One(sr)), a) /\ Eq(Mul(sr, p, a, Zero(sr)), Zero(sr))
    /\ Eq(Mul(sr, p, a, Add(sr, p, b, c)), Add(sr, p, Mul(sr, p, a, b), Mul(sr, p, a, c)))
    /\ (sr \in {"real", "ff", "complex", "eu"} => Eq(Add(sr, p, Sub(sr, p, a, b), b), a))
    /\ (sr \in {"real", "eu"} =>
          /\ Eq(Join(sr, a, a), a) /\ Eq(Meet(sr, a, a), a)
          /\ Eq(Join(sr, a, b), Join(sr, b, a)) /\ Eq(Meet(sr, a, b), Meet(sr, b, a))
          /\ Eq(Join(sr, Join(sr, a, b), c), Join(sr, a, Join(sr, b, c)))
          /\ Eq(Meet(sr, Meet(sr, a, b), c), Meet(sr, a, Meet(sr, b, c)))
          /\ (Leq(sr, a, b) => Eq(Join(sr, a, b), b) /\ Eq(Choose(sr, a, b), b) /\ Eq(Choose(sr, b, a), b) /\ Eq(Meet(sr, a, b), a)))
ASSUME Laws("real", 0)
ASSUME Laws("rat", 0)
ASSUME Laws("bool", 0)
ASSUME Laws("ff", 7)
ASSUME Laws("complex", 0)
ASSUME Laws("eu", 0)
ASSUME Laws("poly", 0)
ASSUME PrintT("SEMIRING-LAWS-OK")
=============================================================================
