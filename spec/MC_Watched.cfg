SPECIFICATION WSpec
CONSTANTS
  NV = 3
  PickAsCoded = FALSE
  MaxDepth = 5
  Family <- Fam3
INVARIANT StateOK
INVARIANT UnsatOK
INVARIANT LevelsNested
INVARIANT TwoWatch
CHECK_DEADLOCK FALSE
