----------------------------- MODULE GenMachine -----------------------------
(***************************************************************************)
(* Behaviour generator (spec -> impl) for BddMachine: every history of     *)
(* Depth public calls (the first one drawn from a sampled class of `ite`   *)
(* triples, the following ones any of ite / cond / exists / and / xor over *)
(* the pointers the store holds by then) is printed as one JSON line: per  *)
(* call the operation, its arguments and the machine's result as           *)
(* structural pointers, the truth table the result must have, and the      *)
(* machine's recursion counter after the call. The driver replays each     *)
(* history into a FRESH real cache-everything builder under the same order *)
(*   L1 (alarm, C01): the code's result has the printed truth table        *)
(*   L2 (drift): the code's result is the printed diagram and its public   *)
(*   recursion counter equals the machine's after every call               *)
(***************************************************************************)
EXTENDS MC_BddMachine, Json
CONSTANTS Depth, Sample, Seed
VARIABLES hist, calls
gvars == <<tbl, cache, ok, hist, calls>>
MM == [t |-> tbl, c |-> cache, n |-> calls]
Tag(f, g, h) == (HashP(f) + 3 * HashP(g) + 5 * HashP(h) + Seed) % Sample
TT(p) == LET d == Den(p) IN [a \in 1 .. (2 ^ NV) |-> IF (a - 1) \in d THEN 1 ELSE 0]
Rec(op, args, v, b, res) ==
  [op |-> op, args |-> args, v |-> v, b |-> b, res |-> res.r, calls |-> res.m.n, tt |-> TT(res.r)]
Do(op, args, v, b, res) ==
  /\ tbl' = res.m.t /\ cache' = res.m.c /\ calls' = res.m.n /\ ok' = TRUE
  /\ hist' = Append(hist, Rec(op, args, v, b, res))
  /\ (Len(hist') = Depth => PrintT(ToJson([order |-> Ord, nv |-> NV, calls |-> hist'])))
GInit == Init /\ hist = << >> /\ calls = 0
GNext ==
  /\ Len(hist) < Depth
  /\ \/ \E f, g, h \in Ptrs : (Len(hist) > 0 \/ Tag(f, g, h) = 0) /\ Do("ite", <<f, g, h>>, 0, TRUE, IteH(MM, f, g, h))
     \/ Len(hist) > 0 /\ \E f \in Ptrs, v \in 0 .. (NV - 1), b \in BOOLEAN : Do("cond", <<f>>, v, b, Condition(MM, f, v, b))
     \/ Len(hist) > 0 /\ \E f \in Ptrs, v \in 0 .. (NV - 1) : Do("exists", <<f>>, v, TRUE, ExistsM(MM, f, v))
     \/ Len(hist) > 0 /\ \E f, g \in Ptrs : Do("xor", <<f, g>>, 0, TRUE, XorM(MM, f, g))
GSpec == GInit /\ [][GNext]_gvars
=============================================================================
