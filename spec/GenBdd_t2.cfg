SPECIFICATION Spec
CONSTANTS
  NV = 2
  Mode = "ternary"
  Sample = 1
  Seed = 0
CHECK_DEADLOCK FALSE
