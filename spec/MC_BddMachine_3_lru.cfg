SPECIFICATION Spec
CONSTANTS
  NV = 3
  Ord <- O120
  Slots = 2
  MaxNodes = 5
  MaxCache = 9
  Cnfs <- NoCnfs
  Ops <- BinOps
  GetIgnoresCompl = FALSE
  GetIgnoresKey = FALSE
INVARIANTS ResultOK ShapeOK Canonical CacheSound CacheShape CacheStandard
CHECK_DEADLOCK FALSE
