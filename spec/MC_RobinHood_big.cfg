SPECIFICATION Spec
CONSTANTS
  Keys = {1, 2, 3, 4, 5, 6}
  H = 4
  Cap0 = 2
  MaxCap = 16
  GrowAsCoded = FALSE
  ByHash = FALSE
INVARIANT Canonical
INVARIANT NoDup
INVARIANT LenOK
INVARIANT Findable
INVARIANT PslOK
CHECK_DEADLOCK FALSE
