------------------------------ MODULE TraceBdd ------------------------------
(***************************************************************************)
(* L3: binds BddApi to a trace recorded from the real RobddBuilder.        *)
(* One trace line = one public call; TLC accepts the trace iff every line  *)
(* is a step of BddApi (POSTCONDITION Accepted).                           *)
(***************************************************************************)
EXTENDS Json, IOUtils
Rec == ndJsonDeserialize(IOEnv.TRACE)
NV == Rec[1].nmax
K == Rec[1].k
PD == 6
CONSTANT Enforce
TwinProp == IF Rec[1].mode = "c18" THEN "C18" ELSE "C16"
VARIABLES l, nvars, ord, node, root, den, loose, canon, contents, hashes
INSTANCE BddApi
vars == <<l, nvars, ord, node, root, den, loose, canon, contents, hashes>>
tbvars == <<nvars, ord, node, root, den, loose, canon, contents, hashes>>    \* (BddApi's own tuple `bvars` cannot be used under UNCHANGED from here)

EnfC01 == {"C01"}
EnfC02 == {"C02"}
EnfC05 == {"C05"}
EnfC07 == {"C07"}
EnfC08 == {"C08"}
EnfC10 == {"C10"}
EnfC11 == {"C11"}
EnfC12 == {"C12"}
EnfC18 == {"C18"}
EnfC16 == {"C16"}   \* cache transparency: the twin builder with a tiny lossy cache returns the same diagrams
EnfAll == {"C01", "C02", "C05", "C07", "C08", "C10", "C11", "C12", "C16"}

Producers == {"var", "newvar", "neg", "and", "or", "xor", "iff", "ite", "cond", "condm", "exists",
              "compose", "andl", "orl", "cnf", "cnfa", "expr", "plan", "smooth", "low", "high"}
Queries == {"eq", "recheck", "eval", "count", "wmc", "uwmc", "semhash", "mmap", "meu", "bb",
            "topvar", "mc", "wmcr", "wmcc", "wmcp", "json", "cnt", "sddpipe", "tdpipe", "cmisc", "bfold"}

Init ==
  /\ l = 2
  /\ nvars = 0 /\ ord = << >> /\ node = << >>
  /\ root = [s \in Slots |-> 0] /\ den = [s \in Slots |-> TrueFn] /\ loose = [s \in Slots |-> -1]
  /\ canon = << >> /\ contents = {} /\ hashes = << >>

Step ==
  /\ l <= Len(Rec)
  /\ l' = l + 1
  /\ LET e == Rec[l] IN
     /\ "panic" \notin DOMAIN e                 \* a panic inside the domain is a violation
     /\ CASE e.ev = "reset" -> ResetState(e.n0, e.order) /\ UNCHANGED hashes
          [] e.ev \in Producers -> Produce(e)
          [] e.ev \in Queries -> Query(e)
          \* purity at size (C10): after every call on a 16 000-node diagram of a builder of its own no reachable node keeps scratch,
          \* and count_nodes is the number of reachable nodes
          [] e.ev = "bigpure" -> Req("C10", e.dirty = 0 /\ e.count = e.reach) /\ UNCHANGED tbvars
          [] e.ev = "burst" -> Req("C07", e.val = e.n) /\ UNCHANGED tbvars      \* n evaluations of a literal of another builder: nothing changes here
          [] e.ev = "panicpair" -> Req(TwinProp, e.npanic = e.cpanic) /\ UNCHANGED tbvars   \* one side panicked, the other did not

Spec == Init /\ [][Step]_vars

Accepted ==
  LET d == TLCGet("stats").diameter IN
  IF d = Len(Rec) THEN TRUE
  ELSE /\ PrintT(<<"REJECT", d + 1>>)
       /\ FALSE
=============================================================================
