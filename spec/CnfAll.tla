------------------------------- MODULE CnfAll -------------------------------
(* one instantiation point for trace specifications that need CNF semantics, counting and big naturals *)
EXTENDS CnfSem, Counting, Bignum, VTrees
=============================================================================
