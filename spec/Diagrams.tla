------------------------------ MODULE Diagrams ------------------------------
(***************************************************************************)
(* L0 vocabulary: raw decision-diagram structures as the recorder dumps    *)
(* them, and their meaning.                                                *)
(*                                                                         *)
(* BDD-shaped nodes (bottom-up BDDs and top-down decision-DNNFs):          *)
(*   nd[id] = <<id, var, lo, hi>>; a pointer is 2*id + c where c = 1 means *)
(*   complemented; id 0 is the terminal: pointer 0 = True, 1 = False.      *)
(***************************************************************************)
EXTENDS BoolFn

IsConst(p) == p \div 2 = 0
IsCompl(p) == p % 2 = 1
NodeOf(p) == p \div 2
NegP(p) == IF p % 2 = 0 THEN p + 1 ELSE p - 1

RECURSIVE EvalP(_, _, _)
EvalP(nd, p, a) ==
  IF IsConst(p) THEN p = 0
  ELSE LET n == nd[NodeOf(p)]
           r == IF Bit(a, n[2]) THEN EvalP(nd, n[4], a) ELSE EvalP(nd, n[3], a)
       IN IF IsCompl(p) THEN ~r ELSE r
DenBdd(nd, p) == {a \in Assign : EvalP(nd, p, a)}

RECURSIVE ReachFrom(_, _, _)
ReachFrom(nd, p, acc) ==
  IF IsConst(p) \/ NodeOf(p) \in acc THEN acc
  ELSE LET n == nd[NodeOf(p)]
       IN ReachFrom(nd, n[4], ReachFrom(nd, n[3], acc \cup {NodeOf(p)}))
Reach(nd, p) == ReachFrom(nd, p, {})

(* shape predicates on one node; pos[v] = level of variable v *)
Reduced(n) == n[3] # n[4]
HighRegular(n) == n[4] % 2 = 0                 \* neither complemented nor the False constant
ChildBelow(nd, pos, v, c) == IF IsConst(c) THEN TRUE ELSE pos[v] < pos[nd[NodeOf(c)][2]]
Ordered(nd, pos, n) == ChildBelow(nd, pos, n[2], n[3]) /\ ChildBelow(nd, pos, n[2], n[4])

(* every path from p tests exactly the variables at levels lvl .. n, in order, and below *)
(* level n none of the first n variables is tested again                                *)
RECURSIVE TestsLevels(_, _, _, _, _, _)
TestsLevels(nd, ordseq, pos, p, lvl, n) ==
  IF lvl > n THEN \A id \in Reach(nd, p) : pos[nd[id][2]] > n
  ELSE /\ ~IsConst(p)
       /\ LET nn == nd[NodeOf(p)] IN
            /\ nn[2] = ordseq[lvl]
            /\ TestsLevels(nd, ordseq, pos, nn[3], lvl + 1, n)
            /\ TestsLevels(nd, ordseq, pos, nn[4], lvl + 1, n)

(* no variable is decided twice on a path (decision-DNNF decomposability) *)
RECURSIVE NoRepeat(_, _, _)
NoRepeat(nd, p, seen) ==
  IF IsConst(p) THEN TRUE
  ELSE LET n == nd[NodeOf(p)] IN
         /\ n[2] \notin seen
         /\ NoRepeat(nd, n[3], seen \cup {n[2]})
         /\ NoRepeat(nd, n[4], seen \cup {n[2]})
=============================================================================
