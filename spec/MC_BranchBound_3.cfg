SPECIFICATION BSpec
CONSTANTS
  NV = 3
  PD = 1
  Ord <- Ord231
INVARIANT OptimalInv
INVARIANT BoundInv
CHECK_DEADLOCK FALSE
