SPECIFICATION HSpec
CONSTANTS
  U <- U4
  MaxEdges = 3
INVARIANTS EdgesWithinVerts CoversPartition FoldIsDefinition CutClean InsertIdempotent
CHECK_DEADLOCK FALSE
