------------------------------- MODULE GenWmc -------------------------------
(***************************************************************************)
(* Behaviour generator (spec -> impl) for weighted model counting: for     *)
(* every function f of NV variables (thinned by Sample), each semiring     *)
(* kind and K weight vectors drawn deterministically from small grids,     *)
(* TLC prints                                                              *)
(*   wmc   the semiring sum over the models of f of the product of the     *)
(*         chosen literal weights (normalised vectors: low + high = one),  *)
(*   uwmc  for arbitrary vectors and EVERY variable order, the unsmoothed  *)
(*         count of the reduced ordered BDD of f under that order.         *)
(* The driver builds f as a BDD under every order (both caches), as an SDD *)
(* under several vtrees, and as a top-down d-DNNF of its canonical CNF,    *)
(* counts with the library, and compares component by component.          *)
(***************************************************************************)
EXTENDS Counting, Json, TLC, FiniteSets, Sequences
CONSTANTS Sample, Seed, K
VARIABLE f
(* sampling by the rank of the function among all functions (its truth table read as a binary number): every residue class *)
(* modulo Sample is inhabited, whatever the seed                                                                         *)
Tag(g) == LET RECURSIVE Rank(_)
              Rank(h) == IF h = {} THEN 0 ELSE LET a == CHOOSE x \in h : TRUE IN 2 ^ a + Rank(h \ {a})
          IN ((Rank(g) % 251) * 13 + (Rank(g) \div 251) + Seed) % Sample
Perms == {p \in [1 .. NV -> Vars] : \A i, j \in 1 .. NV : i # j => p[i] # p[j]}
Rnd(a, b, c, d, m) == (a * 31 + b * 17 + c * 7 + d * 3 + Seed * 11 + (a * b + c) * 5 + d * d) % m
Kinds == <<"real", "complex", "eu", "ff", "bool", "poly">>
PrimeOf(sr) == IF sr = "ff" THEN 7 ELSE 0
ExpOf(sr) == IF sr \in {"ff", "bool"} THEN 0 ELSE 1
(* a weight pair <<lo, hi>> for variable v, vector number j *)
Pair(sr, g, j, v, nrm) ==
  LET c == Cardinality(g)
      a == Rnd(c, j, v, 1, 9)  b == Rnd(j, v, c, 2, 9)  x == Rnd(v, c, j, 3, 7) - 3  y == Rnd(c + 1, v, j, 4, 7) - 3
  IN CASE sr = "real" -> IF nrm THEN << <<a>>, <<8 - a>> >> ELSE << <<a % 7>>, <<b % 7>> >>
       [] sr \in {"complex", "eu", "poly"} -> IF nrm THEN << <<a, x>>, <<8 - a, 0 - x>> >> ELSE << <<(a % 6) - 2, x>>, <<(b % 6) - 2, y>> >>
       [] sr = "ff" -> IF nrm THEN << <<a % 7>>, <<(8 - (a % 7)) % 7>> >> ELSE << <<a % 7>>, <<b % 7>> >>
       [] sr = "bool" -> IF nrm THEN (CASE a % 3 = 0 -> << <<1>>, <<1>> >> [] a % 3 = 1 -> << <<1>>, <<0>> >> [] OTHER -> << <<0>>, <<1>> >>)
                         ELSE << <<a % 2>>, <<b % 2>> >>
Wt(sr, g, j, nrm) == [v \in 1 .. NV |-> Pair(sr, g, j, v, nrm)]
Emit(g) ==
  \A si \in 1 .. Len(Kinds) : \A j \in 1 .. K :
    LET sr == Kinds[si]  p == PrimeOf(sr)  we == ExpOf(sr)
        wn == Wt(sr, g, j, TRUE)  wa == Wt(sr, g, j + 100, FALSE)
    IN /\ Normalised(sr, p, wn, WX(we, NV), NV)               \* the generator's own sanity check
       /\ PrintT(ToJson([op |-> "wmc", f |-> g, sr |-> sr, p |-> p, wexp |-> we, w |-> wn,
                         val |-> Comps(WMC(sr, p, g, wn, WX(we, NV), NV), NV * we)]))
       /\ PrintT(ToJson([op |-> "uwmc", f |-> g, sr |-> sr, p |-> p, wexp |-> we, w |-> wa,
                         orders |-> [o \in Perms |-> o],
                         vals |-> [o \in Perms |-> Comps(UWmc(sr, p, g, o, wa, WX(we, NV)), NV * we)]]))
Init == f \in {g \in SUBSET Assign : Tag(g) = 0}
Next == f' = f /\ Emit(f)
Spec == Init /\ [][Next]_f
=============================================================================
