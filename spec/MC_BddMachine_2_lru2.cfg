SPECIFICATION Spec
CONSTANTS
  NV = 2
  Ord <- O01
  Slots = 2
  MaxNodes = 4
  MaxCache = 9
  Cnfs <- NoCnfs
  Ops <- IteCond
  GetIgnoresCompl = FALSE
  GetIgnoresKey = FALSE
INVARIANTS ResultOK ShapeOK Canonical CacheSound CacheShape CacheStandard
CHECK_DEADLOCK FALSE
