SPECIFICATION Spec
CONSTANTS
  NV = 4
  Ord <- Ord2413
  AsCoded = FALSE
INVARIANT SmoothSound
CHECK_DEADLOCK FALSE
