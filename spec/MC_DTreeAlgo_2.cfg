SPECIFICATION Spec
CONSTANTS
  InitFinal = TRUE
  NVars = 3
  Family <- Pos2
INVARIANT Sound
CHECK_DEADLOCK FALSE
