------------------------------ MODULE MC_BoolFn ------------------------------
(* Cross-check of the denotational vocabulary against algebraic laws, so   *)
(* that the oracle is not wrong in the same way as the code (TLC evaluates *)
(* the ASSUME exhaustively over all functions of NV variables).            *)
EXTENDS BoolFn, TLC
(***************************************************************************)
(* Algebraic laws used to cross-check the vocabulary itself (MC_BoolFn):   *)
(* the oracle must not be wrong in the same way as the code.               *)
(***************************************************************************)
AllFns == SUBSET Assign
VocabLaws(dummy) ==
  /\ \A f \in AllFns, g \in AllFns :
        /\ Neg(Or(f, g)) = And(Neg(f), Neg(g))
        /\ Xor(f, g) = Neg(Iff(f, g))
        /\ Ite(f, g, FalseFn) = And(f, g)
        /\ Iff(f, g) = Or(And(f, g), And(Neg(f), Neg(g)))
  /\ \A f \in AllFns, v \in Vars :
        /\ Exists(f, v) = Or(Cond(f, v, TRUE), Cond(f, v, FALSE))
        /\ ~DependsOn(Cond(f, v, TRUE), v)
        /\ f = Ite(Lit(v, TRUE), Cond(f, v, TRUE), Cond(f, v, FALSE))      \* Shannon
        /\ \A g \in AllFns : ~DependsOn(g, v) =>
              \* composition is substitution: evaluate f with bit v replaced by g's value
              Compose(f, v, g) = {a \in Assign : SetBit(a, v, a \in g) \in f}

ASSUME VocabLaws(0)
ASSUME PrintT(<<"VOCAB-LAWS-OK", NV, Cardinality(AllFns)>>)
=============================================================================
