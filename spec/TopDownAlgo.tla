----------------------------- MODULE TopDownAlgo -----------------------------
(***************************************************************************)
(* L2: the top-down compiler of src/builder/decision_nnf/builder.rs        *)
(* (topdown_h + compile_cnf_topdown) over the Watched model of the SAT     *)
(* state, at the level of denotations: the value of a sub-diagram is the   *)
(* Boolean function it denotes.  Transcribed:                              *)
(*   - base case: level past the last variable or every clause satisfied   *)
(*   - skip variables already set by unit propagation                      *)
(*   - component cache keyed by the solver's residual (as coded: the hash  *)
(*     identifies the per-clause residual)                                 *)
(*   - decide high, then low, ON THE SAME watch lists (never restored)     *)
(*   - implied literals of each branch conjoined (not onto False)          *)
(*   - root: initially implied literals conjoined; False stays False       *)
(* The design claim of C06 is checked exhaustively on CNF families and all *)
(* decision orders: the compiled function is exactly EvalCnf, and the      *)
(* component cache never changes it (UseCache = TRUE and FALSE agree).     *)
(***************************************************************************)
EXTENDS Watched

NonTaut(cls) == {i \in 1 .. Len(cls) : ~Tautology(cls[i])}
CacheKey(cls, m) == ResidualIdx(cls, m, NonTaut(cls))
RECURSIVE AndLits(_)
AndLits(ls) == IF ls = {} THEN TrueFn
               ELSE LET l == CHOOSE x \in ls : TRUE IN And(Lit(LitVar(l), LitPol(l)), AndLits(ls \ {l}))
Conjoin(sub, lits) == IF sub = FalseFn THEN FalseFn ELSE And(sub, AndLits(lits))

(* one branch: decide literal `lit` on state st; returns [d, wp, wn, cache] *)
RECURSIVE TD(_, _, _, _, _, _, _), Branch(_, _, _, _, _, _, _, _)
Branch(useCache, cls, ord, nv, st, level, cache, lit) ==
  LET r == DecideW(FALSE, cls, st, lit) IN
  IF ~r.ok THEN [d |-> FalseFn, wp |-> r.wp, wn |-> r.wn, cache |-> cache]
  ELSE LET implied == (AssignedLits(r.m) \ AssignedLits(st.m)) \ {lit, 0 - lit}
           st2 == [m |-> r.m, wp |-> r.wp, wn |-> r.wn]
       IN IF AllSatisfied(cls, r.m)
          THEN [d |-> Conjoin(TrueFn, implied), wp |-> r.wp, wn |-> r.wn, cache |-> cache]
          ELSE LET sub == TD(useCache, cls, ord, nv, st2, level + 1, cache)
               IN [d |-> Conjoin(sub.d, implied), wp |-> sub.wp, wn |-> sub.wn, cache |-> sub.cache]
TD(useCache, cls, ord, nv, st, level, cache) ==
  IF level > nv \/ AllSatisfied(cls, st.m) THEN [d |-> TrueFn, wp |-> st.wp, wn |-> st.wn, cache |-> cache]
  ELSE LET v == ord[level] IN
       IF st.m[v + 1] # -1 THEN TD(useCache, cls, ord, nv, st, level + 1, cache)
       ELSE LET key == CacheKey(cls, st.m) IN
            IF useCache /\ key \in DOMAIN cache
            THEN [d |-> cache[key], wp |-> st.wp, wn |-> st.wn, cache |-> cache]
            ELSE LET hi == Branch(useCache, cls, ord, nv, st, level, cache, v + 1)
                     st1 == [m |-> st.m, wp |-> hi.wp, wn |-> hi.wn]         \* pop: the model returns, the watches do not
                     lo == Branch(useCache, cls, ord, nv, st1, level, hi.cache, 0 - (v + 1))
                     d  == Ite(Lit(v, TRUE), hi.d, lo.d)
                 IN [d |-> d, wp |-> lo.wp, wn |-> lo.wn,
                     cache |-> IF key \in DOMAIN lo.cache THEN lo.cache ELSE lo.cache @@ (key :> d)]

Compile(useCache, cls, ord, nv) ==
  LET i0 == NewW(FALSE, cls, nv) IN
  IF ~i0.ok THEN FalseFn
  ELSE LET r == TD(useCache, cls, ord, nv, [m |-> i0.m, wp |-> i0.wp, wn |-> i0.wn], 1, << >>)
       IN Conjoin(r.d, AssignedLits(i0.m))

-----------------------------------------------------------------------------
CONSTANT TDFamily
VARIABLES tcnf, tord
Perms == {p \in [1 .. NV -> 0 .. (NV - 1)] : \A i, j \in 1 .. NV : i # j => p[i] # p[j]}
(* the variables of the Watched bounded model are not used here: they are pinned *)
TDInit == /\ tcnf \in TDFamily /\ tord \in Perms
          /\ cnf = << >> /\ wp = << >> /\ wn = << >> /\ stack = << >> /\ decs = << >> /\ last = [op |-> "none", lit |-> 0]
TDNext == UNCHANGED <<tcnf, tord, cnf, wp, wn, stack, decs, last>>
TDSpec == TDInit /\ [][TDNext]_<<tcnf, tord, cnf, wp, wn, stack, decs, last>>
(* C06 at design level *)
CompileExact == Compile(TRUE, tcnf, tord, NV) = EvalCnf(tcnf)
CacheTransparent == Compile(TRUE, tcnf, tord, NV) = Compile(FALSE, tcnf, tord, NV)
=============================================================================
