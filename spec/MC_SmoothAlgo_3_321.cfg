SPECIFICATION Spec
CONSTANTS
  NV = 3
  Ord <- Ord321
  AsCoded = FALSE
INVARIANT SmoothSound
CHECK_DEADLOCK FALSE
