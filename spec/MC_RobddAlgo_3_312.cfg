SPECIFICATION Spec
CONSTANTS
  NV = 3
  Ord <- Ord312
INVARIANT KeySound
INVARIANT CondSound
CHECK_DEADLOCK FALSE
