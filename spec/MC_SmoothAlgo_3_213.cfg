SPECIFICATION Spec
CONSTANTS
  NV = 3
  Ord <- Ord213
  AsCoded = FALSE
INVARIANT SmoothSound
CHECK_DEADLOCK FALSE
