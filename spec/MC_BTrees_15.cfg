SPECIFICATION Spec
CONSTANT MaxNodes = 15
