------------------------------ MODULE Counting ------------------------------
(***************************************************************************)
(* L0 vocabulary: weighted model counts as the properties define them.     *)
(*   WMC  - semiring sum over satisfying assignments of the first nv       *)
(*          variables of the product of the chosen literal weights         *)
(*   UWmc - the "unsmoothed" count of a BDD: Shannon expansion on the first *)
(*          variable, in the order, the function depends on                *)
(* w[v+1] = <<lo, hi>> with lo / hi tuples of integer components at        *)
(* exponent we (see Semirings).                                            *)
(***************************************************************************)
EXTENDS BoolFn, Semirings

(* we[v+1] = exponent of variable v's weights (weights of different variables may live on different scales) *)
W(sr, w, we, v, b) == Weight(sr, IF b THEN w[v + 1][2] ELSE w[v + 1][1], we[v + 1])
WX(x, n) == [i \in 1 .. n |-> x]                      \* the same exponent for every variable
RECURSIVE SumExpFrom(_, _, _)
SumExpFrom(we, i, n) == IF i > n THEN 0 ELSE we[i] + SumExpFrom(we, i + 1, n)
SumExp(we, n) == SumExpFrom(we, 1, n)

RECURSIVE ProdFrom(_, _, _, _, _, _, _)
ProdFrom(sr, p, w, we, a, v, nv) ==
  IF v >= nv THEN One(sr)
  ELSE Mul(sr, p, W(sr, w, we, v, Bit(a, v)), ProdFrom(sr, p, w, we, a, v + 1, nv))
AssignWeight(sr, p, w, we, a, nv) == ProdFrom(sr, p, w, we, a, 0, nv)

(* models over the first nv variables: the representatives with all higher bits 0 *)
Models(f, nv) == {a \in f : a < Pow2(nv)}
WMC(sr, p, f, w, we, nv) ==
  FoldSet(LAMBDA a, acc : Add(sr, p, acc, AssignWeight(sr, p, w, we, a, nv)), Zero(sr), Models(f, nv))

RECURSIVE UWmcFrom(_, _, _, _, _, _, _)
UWmcFrom(sr, p, f, ordseq, lvl, w, we) ==
  IF f = {} THEN Zero(sr)
  ELSE IF f = Assign THEN One(sr)
  ELSE LET i == CHOOSE i \in lvl .. Len(ordseq) :
                   DependsOn(f, ordseq[i]) /\ \A j \in lvl .. (i - 1) : ~DependsOn(f, ordseq[j])
           v == ordseq[i]
       IN Add(sr, p,
              Mul(sr, p, W(sr, w, we, v, FALSE), UWmcFrom(sr, p, Cond(f, v, FALSE), ordseq, i + 1, w, we)),
              Mul(sr, p, W(sr, w, we, v, TRUE), UWmcFrom(sr, p, Cond(f, v, TRUE), ordseq, i + 1, w, we)))
UWmc(sr, p, f, ordseq, w, we) == UWmcFrom(sr, p, f, ordseq, 1, w, we)

(* the count of a diagram smoothed over the first n levels: every one of those levels is tested on every path *)
(* (the weights of both branches are paid even where the function ignores the variable); below level n the    *)
(* diagram is the unsmoothed one                                                                               *)
RECURSIVE SWmcFrom(_, _, _, _, _, _, _, _)
SWmcFrom(sr, p, f, ordseq, lvl, n, w, we) ==
  IF lvl > n THEN UWmcFrom(sr, p, f, ordseq, lvl, w, we)
  ELSE LET v == ordseq[lvl] IN
       Add(sr, p,
           Mul(sr, p, W(sr, w, we, v, FALSE), SWmcFrom(sr, p, Cond(f, v, FALSE), ordseq, lvl + 1, n, w, we)),
           Mul(sr, p, W(sr, w, we, v, TRUE), SWmcFrom(sr, p, Cond(f, v, TRUE), ordseq, lvl + 1, n, w, we)))
SWmc(sr, p, f, ordseq, n, w, we) == SWmcFrom(sr, p, f, ordseq, 1, n, w, we)

(* integer components of x at exponent e (the recorder logs value * 8^e) *)
Comps(x, e) == AtExp(x, e).c
Normalised(sr, p, w, we, nv) ==
  \A v \in 0 .. (nv - 1) : SameValue(Add(sr, p, W(sr, w, we, v, FALSE), W(sr, w, we, v, TRUE)), One(sr))
=============================================================================
