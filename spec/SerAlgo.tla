------------------------------- MODULE SerAlgo -------------------------------
(***************************************************************************)
(* L2: BDDSerializer::serialize_helper (src/serialize/ser_bdd.rs) on DAGs  *)
(* with complement edges.  The walk keeps a table  node id |-> index in    *)
(* the output list; a node met again contributes only a pointer            *)
(* <<index, complement bit OF THE EDGE IT WAS MET THROUGH>>.  The output   *)
(* is read as a plain node table (the reading the property prescribes):    *)
(* SerEval.  Checked for every DAG and every root pointer: the serialised  *)
(* table denotes the function of the in-memory diagram.                    *)
(* FreezeFirst = TRUE is the variant in which the table stores the whole   *)
(* pointer handed out at the first visit and replays it (three independent *)
(* seeded changes made exactly this slip): it must FAIL on a node shared   *)
(* through edges of different polarity.                                    *)
(***************************************************************************)
EXTENDS Naturals, Integers, Sequences, FiniteSets, TLC
CONSTANTS NN, NL, FreezeFirst

IsT(p) == p[1] = 0
Assignments == [0 .. (NL - 1) -> BOOLEAN]
Ptrs(i) == {<<j, c>> : j \in 0 .. (i - 1), c \in {0, 1}}
NodeShapes(i) == [v : 0 .. (NL - 1), lo : Ptrs(i), hi : {p \in Ptrs(i) : p[2] = 0}]
WellOrdered(d) == \A i \in 1 .. NN :
   /\ (~IsT(d[i].lo) => d[d[i].lo[1]].v > d[i].v)
   /\ (~IsT(d[i].hi) => d[d[i].hi[1]].v > d[i].v)
RECURSIVE Eval(_, _, _)
Eval(d, p, a) == IF IsT(p) THEN p[2] = 0
                 ELSE LET n == d[p[1]]
                          r == IF a[n.v] THEN Eval(d, n.hi, a) ELSE Eval(d, n.lo, a)
                      IN IF p[2] = 1 THEN ~r ELSE r

(* serialised pointers: <<"T">>, <<"F">>, <<"P", index, compl>> (index 1-based into the node list) *)
(* walk state: [nodes : sequence of [v, lo, hi], tab : id |-> serialised pointer or index, ptr : result] *)
RECURSIVE Ser(_, _, _, _)
Ser(d, p, nodes, tab) ==
  IF IsT(p) THEN [nodes |-> nodes, tab |-> tab, ptr |-> IF p[2] = 0 THEN <<"T", 0, 0>> ELSE <<"F", 0, 0>>]
  ELSE IF p[1] \in DOMAIN tab
       THEN [nodes |-> nodes, tab |-> tab,
             ptr |-> IF FreezeFirst THEN tab[p[1]] ELSE <<"P", tab[p[1]][2], p[2]>>]
       ELSE LET n == d[p[1]]
                l == Ser(d, n.lo, nodes, tab)
                h == Ser(d, n.hi, l.nodes, l.tab)
                ns == Append(h.nodes, [v |-> n.v, lo |-> l.ptr, hi |-> h.ptr])
                me == <<"P", Len(ns), p[2]>>
            IN [nodes |-> ns, tab |-> (p[1] :> me) @@ h.tab, ptr |-> me]
FromBdd(d, p) == Ser(d, p, << >>, << >>)

RECURSIVE SerEval(_, _, _)
SerEval(nodes, q, a) ==
  IF q[1] = "T" THEN TRUE ELSE IF q[1] = "F" THEN FALSE
  ELSE LET n == nodes[q[2]]
           r == IF a[n.v] THEN SerEval(nodes, n.hi, a) ELSE SerEval(nodes, n.lo, a)
       IN IF q[3] = 1 THEN ~r ELSE r

VARIABLES dag, k
Init == dag = << >> /\ k = 0
(* DAGs are built one node at a time (prefix walk: every prefix is a DAG of its own) *)
Next == /\ k < NN /\ k' = k + 1
        /\ \E n \in NodeShapes(k + 1) :
             /\ (~IsT(n.lo) => dag[n.lo[1]].v > n.v) /\ (~IsT(n.hi) => dag[n.hi[1]].v > n.v)
             /\ dag' = Append(dag, n)
Spec == Init /\ [][Next]_<<dag, k>>
Faithful ==
  \A p \in {<<j, c>> : j \in 0 .. k, c \in {0, 1}} :
    LET s == FromBdd(dag, p) IN
    /\ \A a \in Assignments : SerEval(s.nodes, s.ptr, a) = Eval(dag, p, a)
    /\ \A i \in 1 .. Len(s.nodes) :                                   \* children precede their parents in the list
         (s.nodes[i].lo[1] = "P" => s.nodes[i].lo[2] < i) /\ (s.nodes[i].hi[1] = "P" => s.nodes[i].hi[2] < i)
=============================================================================
