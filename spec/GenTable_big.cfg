SPECIFICATION GSpec
CONSTANTS
  Keys = {1, 2, 3, 4}
  H = 2
  MaxCap = 64
  GrowAsCoded = FALSE
  ByHash = FALSE
  Depth = 7
  Caps = {1, 2, 3}
INVARIANT Emit
CHECK_DEADLOCK FALSE
