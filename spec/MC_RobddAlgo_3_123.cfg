SPECIFICATION Spec
CONSTANTS
  NV = 3
  Ord <- Ord123
INVARIANT KeySound
INVARIANT CondSound
CHECK_DEADLOCK FALSE
