--------------------------------- MODULE Lru ---------------------------------
(***************************************************************************)
(* L2: implementation-shaped model of src/util/lru.rs (direct-mapped lossy *)
(* cache: slot = hash mod 2^cap, overwrite on conflict, grow when          *)
(* num_filled / 2^cap > 0.7 BEFORE inserting, growth re-inserts survivors  *)
(* into a table twice as large and - as coded - does not copy the new      *)
(* table's num_filled back).  Checked against LossyMap (L1).               *)
(***************************************************************************)
EXTENDS Naturals, Integers, Sequences, FiniteSets, TLC

NoEntry == [occ |-> FALSE, key |-> 0, val |-> 0, hash |-> 0]
Entry(k, v, h) == [occ |-> TRUE, key |-> k, val |-> v, hash |-> h]
Size(c) == 2 ^ c
EmptyLru(c) == [t |-> [i \in 0 .. (Size(c) - 1) |-> NoEntry], c |-> c, filled |-> 0]

(* the body of insert after the growth test *)
Put(s, k, v, h) ==
  LET pos == h % Size(s.c) IN
  [t |-> [s.t EXCEPT ![pos] = Entry(k, v, h)], c |-> s.c,
   filled |-> IF s.t[pos].occ THEN s.filled ELSE s.filled + 1]

(* num_filled as f64 / (1 << cap) as f64 > 0.7 *)
NeedGrowLru(s) == 10 * s.filled > 7 * Size(s.c)

RECURSIVE Reinsert(_, _, _, _)
Reinsert(old, i, n, acc) ==
  IF i = n THEN acc
  ELSE Reinsert(old, i + 1, n, IF old[i].occ THEN Put(acc, old[i].key, old[i].val, old[i].hash) ELSE acc)
(* fn grow: the survivors are re-inserted in slot order (the new table cannot need to grow: it is *)
(* at most half full); self.num_filled keeps its OLD value, as coded                              *)
GrownLru(s) == LET n == Reinsert(s.t, 0, Size(s.c), EmptyLru(s.c + 1)) IN [t |-> n.t, c |-> n.c, filled |-> s.filled]

Insert(s, k, v, h) == Put(IF NeedGrowLru(s) THEN GrownLru(s) ELSE s, k, v, h)
Get(s, k, h) == LET e == s.t[h % Size(s.c)] IN IF e.occ /\ e.key = k THEN e.val ELSE -1

-----------------------------------------------------------------------------
CONSTANTS LKeys, LH, LCap0, LMaxCap, LVals
VARIABLES lru, last, lastGet, lhash   \* lhash: the hash is a function of the key (domain of C16)
lvars == <<lru, last, lastGet, lhash>>
INSTANCE LossyMap

LInit == lru = EmptyLru(LCap0) /\ last = LossyEmpty /\ lastGet = [k |-> 0, ret |-> -1] /\ lhash = << >>
HashFor(k, h) == /\ (k \in DOMAIN lhash => h = lhash[k])
                 /\ lhash' = IF k \in DOMAIN lhash THEN lhash ELSE lhash @@ (k :> h)
LInsert == \E k \in LKeys, v \in LVals, h \in 0 .. (LH - 1) :
   /\ HashFor(k, h)
   /\ lru' = Insert(lru, k, v, h)
   /\ lru'.c <= LMaxCap
   /\ last' = LossyAfterInsert(last, k, v)
   /\ lastGet' = [k |-> 0, ret |-> -1]          \* the answer of a get is judged against the state it was given in
LGet == \E k \in LKeys, h \in 0 .. (LH - 1) :
   /\ HashFor(k, h)
   /\ lastGet' = [k |-> k, ret |-> Get(lru, k, h)]
   /\ UNCHANGED <<lru, last>>
LNext == LInsert \/ LGet
LSpec == LInit /\ [][LNext]_lvars

(* C16: never a value stored for a different key, never a stale value *)
Transparent == LossyGetOK(last, lastGet.k, lastGet.ret)
(* stronger, on the whole table: whatever a lookup with ANY hash could return *)
AllTransparent == \A i \in 0 .. (Size(lru.c) - 1) :
   lru.t[i].occ => (lru.t[i].key \in DOMAIN last /\ lru.t[i].val = last[lru.t[i].key]) \/
                   (\* an entry that is no longer reachable under its own hash may be stale
                    lru.t[i].hash % Size(lru.c) # i)
(* the link to LruProof.tla: every entry sits in the slot of its own hash, also after growth (the Rehash step of the proof) *)
OwnSlot == \A i \in 0 .. (Size(lru.c) - 1) : lru.t[i].occ => lru.t[i].hash % Size(lru.c) = i
FilledUpper == Cardinality({i \in 0 .. (Size(lru.c) - 1) : lru.t[i].occ}) <= lru.filled
=============================================================================
