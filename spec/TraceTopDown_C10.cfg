SPECIFICATION Spec
POSTCONDITION Accepted
CHECK_DEADLOCK FALSE
CONSTANT Enforce <- EnfC10
