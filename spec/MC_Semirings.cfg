CONSTANT PD = 2
