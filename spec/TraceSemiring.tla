---------------------------- MODULE TraceSemiring ----------------------------
(***************************************************************************)
(* L1 + L3 for C13: every logged result of +, *, -, one, zero, join, meet, *)
(* choose of the shipped weight types must equal the reference arithmetic  *)
(* of Semirings.tla / Bignum.tla (finite fields of every exported prime by *)
(* limb arithmetic, products by quotient certificate a*b = q*P + r), and   *)
(* both sides of every law instance - evaluated by the real code - must    *)
(* coincide.  The laws of the reference carriers themselves are checked by *)
(* MC_Semirings.                                                           *)
(***************************************************************************)
EXTENDS Json, IOUtils, TLC
Rec == ndJsonDeserialize(IOEnv.TRACE)
NV == 1
PD == 31
INSTANCE CnfAll
VARIABLE l

SmallPrime(name) == name \in {"7", "13"}
PL(name) == IF name = "7" THEN <<7>> ELSE IF name = "13" THEN <<13>> ELSE PrimeLimbs(name)

FFOK(e) ==
  LET P == PL(e.prime)  a == e.a  b == e.b IN
  /\ \A k \in {"add_panic", "mul_panic", "sub_panic", "law_panic"} : k \notin DOMAIN e
  /\ IsLimbs(a) /\ IsLimbs(b) /\ LLess(a, P) /\ LLess(b, P)
  /\ e.add = ModOnce(LAdd(a, b), P)
  /\ e.sub = (IF LLess(a, b) THEN LSub(P, LSub(b, a)) ELSE LSub(a, b))
  /\ LLess(e.mul, P) /\ LAdd(LMul(e.q, P), e.mul) = LMul(a, b)          \* a*b = q*P + r, r < P
  /\ e.one = <<1>> /\ e.zero = <<0>>
  /\ e.subadd = a                                                        \* (a - b) + b = a
  /\ e.dl = e.dr                                                         \* (a + b) * a = a*a + b*a
  /\ LLess(e.negate, P) /\ ModOnce(LAdd(e.negate, a), P) = <<1>>         \* negate(a) = 1 - a

V(sr, t, e) == Weight(sr, t, e)
PairsEqual(laws) == \A k \in DOMAIN laws : laws[k][1] = laws[k][2]
SR3OK(e) ==
  LET sr == e.sr
      a == V(sr, e.x[1], e.e)  b == V(sr, e.x[2], e.e)
      at(x, k) == Comps(x, IF e.e = 0 THEN 0 ELSE k)
  IN /\ e.add = at(Add(sr, 0, a, b), 1)
     /\ e.mul = at(Mul(sr, 0, a, b), 2)
     /\ e.one = Comps(One(sr), 0) /\ e.zero = Comps(Zero(sr), 0)
     /\ (IF "sub" \in DOMAIN e THEN e.sub = at(Sub(sr, 0, a, b), 1) ELSE TRUE)
     /\ PairsEqual(e.laws)
     /\ (IF "join" \in DOMAIN e
           THEN /\ e.join = at(Join(sr, a, b), 1) /\ e.meet = at(Meet(sr, a, b), 1)
                /\ e.choose = at(Choose(sr, a, b), 1) /\ e.choose_ba = at(Choose(sr, b, a), 1)
                /\ e.rchoose = e.choose /\ e.rchoose_ba = e.choose_ba          \* both traits that declare `choose` (BBSemiring, BBRing)
                /\ e.le = Leq(sr, a, b) /\ e.ge = Leq(sr, b, a)
                \* whenever the declared order relates the two: join = choose = the larger, meet = the smaller
                /\ (IF e.le THEN e.join = at(b, 1) /\ e.choose = at(b, 1) /\ e.choose_ba = at(b, 1) /\ e.meet = at(a, 1) ELSE TRUE)
                /\ (IF e.ge THEN e.join = at(a, 1) /\ e.choose = at(a, 1) /\ e.choose_ba = at(a, 1) /\ e.meet = at(b, 1) ELSE TRUE)
           ELSE TRUE)

PolyVal(c) == Val(Pad("poly", c), 0)
PolyRec(x, len) == [len |-> len, c |-> x.c]
PolyOK(e) ==
  LET a == PolyVal(e.a)  b == PolyVal(e.b)  la == Len(e.a)  lb == Len(e.b)  r == e.r IN
  /\ e.max = PD + 1
  /\ r.a = PolyRec(a, la)
  /\ r.add = PolyRec(Add("poly", 0, a, b), Min2(Max2(la, lb), PD + 1))
  /\ r.mul = (IF la = 0 \/ lb = 0 THEN PolyRec(Zero("poly"), 0) ELSE PolyRec(Mul("poly", 0, a, b), Min2(la + lb - 1, PD + 1)))
  /\ r.one = PolyRec(One("poly"), 1) /\ r.zero = PolyRec(Zero("poly"), 0)
  /\ r.add_ba = r.add /\ r.mul_ba = r.mul
  /\ r.add_assoc_l = r.add_assoc_r /\ r.mul_assoc_l = r.mul_assoc_r
  /\ r.dist_l = r.dist_r
  /\ r.a_one = r.a /\ r.a_zero = r.zero /\ r.a_plus_zero = r.a

(* ---- large exactly representable integers: signed values [s |-> -1 / 0 / 1, m |-> limbs]; the defining formulas ---- *)
(* complex (a,b)(c,d) = (ac - bd, ad + bc), expected utility (p,u)(q,v) = (pq, pv + uq), evaluated on limbs            *)
SZ == [s |-> 0, m |-> <<0>>]
SNorm(x) == IF x.m = <<0>> THEN SZ ELSE x
SNeg(x) == SNorm([s |-> 0 - x.s, m |-> x.m])
SMul(x, y) == SNorm([s |-> x.s * y.s, m |-> IF x.s * y.s = 0 THEN <<0>> ELSE LMul(x.m, y.m)])
SAdd(x, y) ==
  IF x.s = 0 THEN y ELSE IF y.s = 0 THEN x
  ELSE IF x.s = y.s THEN [s |-> x.s, m |-> LAdd(x.m, y.m)]
  ELSE IF LCmp(x.m, y.m) = 0 THEN SZ
  ELSE IF LCmp(x.m, y.m) = 1 THEN [s |-> x.s, m |-> LSub(x.m, y.m)] ELSE [s |-> y.s, m |-> LSub(y.m, x.m)]
Two53 == <<992, 5474, 1992, 9007>>
Exact(x) == x.s \in {-1, 0, 1} /\ IsLimbs(x.m) /\ LCmp(x.m, Two53) <= 0
BigMul(sr, x, y) ==
  IF sr = "complex" THEN <<SAdd(SMul(x[1], y[1]), SNeg(SMul(x[2], y[2]))), SAdd(SMul(x[1], y[2]), SMul(x[2], y[1]))>>
  ELSE <<SMul(x[1], y[1]), SAdd(SMul(x[1], y[2]), SMul(x[2], y[1]))>>
BigDomain(sr, x, y) ==                          \* the stated domain: operands, partial products and results exactly representable
  /\ \A i \in 1 .. 2 : Exact(x[i]) /\ Exact(y[i])
  /\ \A i \in 1 .. 2 : \A j \in 1 .. 2 : Exact(SMul(x[i], y[j]))
  /\ \A i \in 1 .. 2 : Exact(BigMul(sr, x, y)[i])
Big2OK(e) ==
  LET x == <<SNorm(e.x[1]), SNorm(e.x[2])>>  y == <<SNorm(e.y[1]), SNorm(e.y[2])>>
      N(p) == <<SNorm(p[1]), SNorm(p[2])>>
      one == <<[s |-> 1, m |-> <<1>>], SZ>>
  IN /\ BigDomain(e.sr, x, y)                  \* the recorder stays inside the domain
     /\ N(e.r.mul) = BigMul(e.sr, x, y)
     /\ N(e.r.mul_ba) = BigMul(e.sr, x, y)     \* commutative
     /\ N(e.r.x_one) = x /\ N(e.r.one_x) = x   \* identity
     /\ N(e.r.x_zero) = <<SZ, SZ>>             \* annihilating zero

EventOK(e) ==
  CASE e.ev = "ff" -> FFOK(e)
    [] e.ev = "big2" -> Big2OK(e)
    [] e.ev = "sr3" -> SR3OK(e)
    [] e.ev = "poly" -> PolyOK(e)

Init == l = 2
Step == /\ l <= Len(Rec) /\ l' = l + 1
        /\ "panic" \notin DOMAIN Rec[l] /\ "inexact" \notin DOMAIN Rec[l]
        /\ EventOK(Rec[l])
Spec == Init /\ [][Step]_l
Accepted ==
  LET d == TLCGet("stats").diameter IN
  IF d = Len(Rec) THEN TRUE ELSE PrintT(<<"REJECT", d + 1>>) /\ FALSE
=============================================================================
