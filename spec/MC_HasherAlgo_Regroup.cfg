SPECIFICATION HSpec
CONSTANTS
  HCnf <- Regroup
  HNV = 5
  MaxPush = 2
  PerOccurrence = TRUE
INVARIANT Incremental
INVARIANT DenotationalOnce
CHECK_DEADLOCK FALSE
