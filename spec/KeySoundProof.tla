--------------------------- MODULE KeySoundProof ---------------------------
(* The whole of Ite::new (as transcribed in RobddAlgo.tla) is key-sound for Boolean functions over ANY universe *)
(* and for ANY order predicate and ANY complement-bit predicate.                                                 *)
EXTENDS TLAPS
CONSTANTS U, Before(_, _), IsNeg(_)
Neg(f) == U \ f
Ite(f, g, h) == (f \cap g) \cup (Neg(f) \cap h)
IsTrue(f) == f = U
IsFalse(f) == f = {}

IntroConsts(t) ==
  LET f == t[1] g == t[2] h == t[3] IN
  IF f = h THEN <<f, g, {}>>
  ELSE IF f = Neg(h) THEN <<f, g, U>>
  ELSE IF f = Neg(g) THEN <<f, {}, h>>
  ELSE t
Terminal(t) ==
  LET f == t[1] g == t[2] h == t[3] IN
  IF IsTrue(f) THEN <<TRUE, g>>
  ELSE IF IsFalse(f) THEN <<TRUE, h>>
  ELSE IF IsTrue(g) /\ IsFalse(h) THEN <<TRUE, f>>
  ELSE IF IsFalse(g) /\ IsTrue(h) THEN <<TRUE, Neg(f)>>
  ELSE IF h = g THEN <<TRUE, g>>
  ELSE <<FALSE, {}>>
Reorder(t) ==
  LET f == t[1] g == t[2] h == t[3] IN
  IF IsTrue(g) /\ Before(h, f) THEN <<h, g, f>>
  ELSE IF IsFalse(h) /\ Before(g, f) THEN <<g, f, h>>
  ELSE IF IsTrue(h) /\ Before(g, f) THEN <<Neg(g), Neg(f), h>>
  ELSE IF IsFalse(g) /\ Before(h, f) THEN <<Neg(h), g, Neg(f)>>
  ELSE IF g = Neg(h) /\ Before(g, f) THEN <<g, f, Neg(f)>>
  ELSE t
(* value of the key Standardize would build from t: choice = Ite, compl = Neg(Ite) *)
StdValue(t) ==
  LET f == t[1] g == t[2] h == t[3] IN
  IF IsNeg(f) /\ ~IsNeg(h) THEN Ite(Neg(f), h, g)
  ELSE IF ~IsNeg(f) /\ IsNeg(g) THEN Neg(Ite(f, Neg(g), Neg(h)))
  ELSE IF IsNeg(f) /\ IsNeg(h) THEN Neg(Ite(Neg(f), Neg(h), Neg(g)))
  ELSE Ite(f, g, h)
KeyValueOfIteNew(f, g, h) ==
  LET t1 == IntroConsts(<<f, g, h>>)
      tm == Terminal(t1)
  IN IF tm[1] THEN tm[2] ELSE StdValue(Reorder(t1))

T3(t) == Ite(t[1], t[2], t[3])
LEMMA IntroOK == \A f, g, h \in SUBSET U : T3(IntroConsts(<<f, g, h>>)) = Ite(f, g, h) /\ IntroConsts(<<f, g, h>>) \in (SUBSET U) \X (SUBSET U) \X (SUBSET U)
  BY DEF T3, IntroConsts, Ite, Neg
LEMMA TermOK == \A f, g, h \in SUBSET U : Terminal(<<f, g, h>>)[1] => Terminal(<<f, g, h>>)[2] = Ite(f, g, h)
  BY DEF Terminal, Ite, Neg, IsTrue, IsFalse
LEMMA ReorderOK == \A f, g, h \in SUBSET U : T3(Reorder(<<f, g, h>>)) = Ite(f, g, h) /\ Reorder(<<f, g, h>>) \in (SUBSET U) \X (SUBSET U) \X (SUBSET U)
  BY DEF T3, Reorder, Ite, Neg, IsTrue, IsFalse
LEMMA StdOK == \A f, g, h \in SUBSET U : StdValue(<<f, g, h>>) = Ite(f, g, h)
  BY DEF StdValue, Ite, Neg
THEOREM KeySoundAll == \A f, g, h \in SUBSET U : KeyValueOfIteNew(f, g, h) = Ite(f, g, h)
<1> SUFFICES ASSUME NEW f \in SUBSET U, NEW g \in SUBSET U, NEW h \in SUBSET U
             PROVE KeyValueOfIteNew(f, g, h) = Ite(f, g, h)
    OBVIOUS
<1> DEFINE t1 == IntroConsts(<<f, g, h>>)
<1>1. t1 \in (SUBSET U) \X (SUBSET U) \X (SUBSET U) /\ T3(t1) = Ite(f, g, h)
    BY IntroOK
<1>2. t1 = <<t1[1], t1[2], t1[3]>> /\ t1[1] \in SUBSET U /\ t1[2] \in SUBSET U /\ t1[3] \in SUBSET U
    BY <1>1
<1>3. CASE Terminal(t1)[1]
    BY <1>1, <1>2, <1>3, TermOK DEF KeyValueOfIteNew, T3
<1>4. CASE ~Terminal(t1)[1]
    <2> DEFINE t2 == Reorder(t1)
    <2>1. t2 \in (SUBSET U) \X (SUBSET U) \X (SUBSET U) /\ T3(t2) = T3(t1)
        BY <1>2, ReorderOK DEF T3
    <2>2. t2 = <<t2[1], t2[2], t2[3]>> /\ t2[1] \in SUBSET U /\ t2[2] \in SUBSET U /\ t2[3] \in SUBSET U
        BY <2>1
    <2>3. StdValue(t2) = T3(t2)
        BY <2>2, StdOK DEF T3
    <2> QED BY <1>1, <1>4, <2>1, <2>3 DEF KeyValueOfIteNew
<1> QED BY <1>3, <1>4
=============================================================================
