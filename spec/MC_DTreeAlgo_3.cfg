SPECIFICATION Spec
CONSTANTS
  InitFinal = TRUE
  NVars = 3
  Family <- Pos3
INVARIANT Sound
CHECK_DEADLOCK FALSE
