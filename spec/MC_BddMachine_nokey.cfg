SPECIFICATION Spec
CONSTANTS
  NV = 2
  Ord <- O01
  Slots = 1
  MaxNodes = 7
  MaxCache = 9
  Cnfs <- NoCnfs
  Ops <- AllOps
  GetIgnoresCompl = FALSE
  GetIgnoresKey = TRUE
INVARIANTS ResultOK ShapeOK Canonical CacheSound CacheShape CacheStandard
CHECK_DEADLOCK FALSE
