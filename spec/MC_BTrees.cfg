SPECIFICATION Spec
CONSTANT MaxNodes = 11
