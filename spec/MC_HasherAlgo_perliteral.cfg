SPECIFICATION HSpec
CONSTANTS
  HCnf <- Regroup
  HNV = 5
  MaxPush = 0
  PerOccurrence = FALSE
INVARIANT DenotationalOnce
CHECK_DEADLOCK FALSE
