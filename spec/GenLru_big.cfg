SPECIFICATION GSpec
CONSTANTS
  LKeys = {1, 2, 3}
  LVals = {1}
  LH = 3
  LMaxCap = 8
  Depth = 5
  LCaps = {0, 1}
INVARIANT Emit
CHECK_DEADLOCK FALSE
