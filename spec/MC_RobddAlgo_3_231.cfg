SPECIFICATION Spec
CONSTANTS
  NV = 3
  Ord <- Ord231
INVARIANT KeySound
INVARIANT CondSound
CHECK_DEADLOCK FALSE
