----------------------------- MODULE TraceTable -----------------------------
(***************************************************************************)
(* L3: a history recorded from the real BackedRobinhoodTable<u64> (through *)
(* the rsdd_verif re-export) must be a behaviour of SetTable (L1, alarm).  *)
(* In lock-step the RobinHood model (L2) predicts the slot array; a        *)
(* difference there is only MODEL-DRIFT: the model is re-synchronised with *)
(* the observed slots and validation continues.                            *)
(***************************************************************************)
EXTENDS Json, IOUtils, Sequences
Rec == ndJsonDeserialize(IOEnv.TRACE)
(* the bounded-model constants of RobinHood are irrelevant here *)
Keys == {} H == 1 Cap0 == 1 MaxCap == 1 GrowAsCoded == FALSE ByHash == FALSE
VARIABLES l, st, hashOf, nextId, idOf, set, byhash, keyOf
INSTANCE RobinHood
INSTANCE SetTable
tvars == <<l, st, hashOf, nextId, idOf, set, byhash, keyOf>>

TInit == /\ l = 2 /\ st = [t |-> EmptyTable(1), c |-> 1, len |-> 0] /\ hashOf = << >> /\ nextId = 1
        /\ idOf = << >> /\ set = SetEmpty /\ byhash = FALSE /\ keyOf = << >>

(* 64-bit hashes are logged as <<hi, lo>> (hi * 2^32 + lo); the model works on hi * 1024 + lo, which has *)
(* the same residue modulo every capacity that divides 1024 (wide hashes are only used with such tables)  *)
HV(h) == h[1] * 1024 + h[2]
Observed(slots, ko) ==
  [i \in 0 .. (Len(slots) - 1) |->
     IF slots[i + 1][1] = 1
     THEN [occ |-> TRUE, key |-> ko[slots[i + 1][4]], hash |-> slots[i + 1][5] * 1024 + slots[i + 1][2], psl |-> slots[i + 1][3], id |-> slots[i + 1][4]]
     ELSE Empty]

TStep ==
  /\ l <= Len(Rec)
  /\ l' = l + 1
  /\ UNCHANGED <<hashOf, nextId, idOf>>
  /\ LET e == Rec[l] IN
     /\ "panic" \notin DOMAIN e
     /\ CASE e.ev = "treset" ->
               /\ st' = [t |-> EmptyTable(e.cap), c |-> e.cap, len |-> 0]
               /\ set' = SetEmpty /\ byhash' = e.byhash /\ keyOf' = << >>
          [] e.ev = "goi" ->
               LET kk == IF byhash THEN HV(e.h) ELSE e.k
                   ko == IF e.ret \in DOMAIN keyOf THEN keyOf ELSE keyOf @@ (e.ret :> e.k)
                   pred == GetOrInsertStep(FALSE, st, byhash, HV(e.h), e.k, e.ret)
                   obs == Observed(e.slots, ko)
               IN /\ SetGetOrInsertOK(set, kk, e.ret)                              \* L1
                  /\ set' = SetAfterGetOrInsert(set, kk, e.ret)
                  /\ IF pred.t # obs THEN PrintT(<<"DRIFT", l>>) ELSE TRUE        \* L2
                  /\ st' = [t |-> obs, c |-> Len(e.slots),
                            len |-> Cardinality({i \in DOMAIN obs : obs[i].occ})]
                  /\ keyOf' = ko /\ UNCHANGED byhash
          [] e.ev = "gbh" ->
               /\ IF byhash THEN SetLookupOK(set, HV(e.h), e.ret)                     \* L1 (by-hash tables only)
                  ELSE (IF e.ret # 0 THEN e.ret \in set.handed ELSE TRUE)
               /\ UNCHANGED set
               /\ IF GetByHash(st, HV(e.h)) # e.ret THEN PrintT(<<"DRIFT", l>>) ELSE TRUE
               /\ UNCHANGED <<st, byhash, keyOf>>

TSpec == TInit /\ [][TStep]_tvars
Accepted ==
  LET d == TLCGet("stats").diameter IN
  IF d = Len(Rec) THEN TRUE ELSE PrintT(<<"REJECT", d + 1>>) /\ FALSE
=============================================================================
