---------------------------- MODULE VarOrderProof ----------------------------
(***************************************************************************)
(* TLAPS proof for repr/var_order.rs (C14, "run-time extension"): the two  *)
(* tables of a VarOrder are mutually inverse bijections of 0 .. n-1, for   *)
(* ANY number of variables and ANY number of extensions.                   *)
(*   New(o)    VarOrder::new(order): o lists each label once;              *)
(*             pos_to_var = o, var_to_pos[o[i]] = i                        *)
(*   NewLast   new_last(): both tables are extended by pos -> pos, the     *)
(*             fresh label is the old number of variables                  *)
(* The trace specification TraceOrders checks the same statement on every  *)
(* order the real code returns (bounded sizes); here it is shown to be an  *)
(* inductive invariant of the data structure as coded.                     *)
(***************************************************************************)
EXTENDS Naturals, TLAPS
VARIABLES n, v2p, p2v           \* n = num_vars(); v2p = var_to_pos; p2v = pos_to_var  (functions on 0 .. n-1)

IsPerm(k, f) == /\ f \in [0 .. (k - 1) -> 0 .. (k - 1)]
                /\ \A i, j \in 0 .. (k - 1) : f[i] = f[j] => i = j              \* each label at most once
                /\ \A v \in 0 .. (k - 1) : \E i \in 0 .. (k - 1) : f[i] = v      \* each label at least once
(* New: any injective listing o of the labels 0 .. k-1 *)
Init == /\ n \in Nat
        /\ IsPerm(n, p2v)
        /\ v2p \in [0 .. (n - 1) -> 0 .. (n - 1)]
        /\ \A i \in 0 .. (n - 1) : v2p[p2v[i]] = i
NewLast == /\ n' = n + 1
           /\ v2p' = [v \in 0 .. n |-> IF v = n THEN n ELSE v2p[v]]
           /\ p2v' = [p \in 0 .. n |-> IF p = n THEN n ELSE p2v[p]]
Next == NewLast
vars == <<n, v2p, p2v>>
Spec == Init /\ [][Next]_vars

TypeOK == /\ n \in Nat
          /\ v2p \in [0 .. (n - 1) -> 0 .. (n - 1)]
          /\ p2v \in [0 .. (n - 1) -> 0 .. (n - 1)]
(* var_at_level(get(v)) = v and get(var_at_level(p)) = p *)
Inverse == /\ \A p \in 0 .. (n - 1) : v2p[p2v[p]] = p
           /\ \A v \in 0 .. (n - 1) : p2v[v2p[v]] = v
Inv == TypeOK /\ Inverse

THEOREM InitOK == Init => Inv
<1> SUFFICES ASSUME Init PROVE Inv
    OBVIOUS
<1>1. TypeOK
    BY DEF Init, IsPerm, TypeOK
<1>2. \A p \in 0 .. (n - 1) : v2p[p2v[p]] = p
    BY DEF Init
<1>3. \A v \in 0 .. (n - 1) : p2v[v2p[v]] = v
  <2> SUFFICES ASSUME NEW v \in 0 .. (n - 1) PROVE p2v[v2p[v]] = v
      OBVIOUS
  <2>1. v2p[v] \in 0 .. (n - 1)
      BY DEF Init
  <2>2. p2v[v2p[v]] \in 0 .. (n - 1)
      BY <2>1 DEF Init, IsPerm
  <2>4. \E q \in 0 .. (n - 1) : p2v[q] = v
      BY DEF Init, IsPerm
  <2>5. PICK q \in 0 .. (n - 1) : p2v[q] = v
      BY <2>4
  <2>6. v2p[v] = q
      BY <2>5 DEF Init
  <2> QED BY <2>5, <2>6
<1> QED BY <1>1, <1>2, <1>3 DEF Inv, Inverse

THEOREM StepOK == Inv /\ [Next]_vars => Inv'
<1> SUFFICES ASSUME Inv, [Next]_vars PROVE Inv'
    OBVIOUS
<1> USE DEF Inv
<1>1. CASE NewLast
  <2>1. TypeOK'
    <3>1. n' \in Nat /\ n' - 1 = n
        BY <1>1 DEF NewLast, TypeOK
    <3>2. \A v \in 0 .. n : (IF v = n THEN n ELSE v2p[v]) \in 0 .. n
        BY DEF TypeOK
    <3>3. \A p \in 0 .. n : (IF p = n THEN n ELSE p2v[p]) \in 0 .. n
        BY DEF TypeOK
    <3>4. v2p' \in [0 .. n -> 0 .. n] /\ p2v' \in [0 .. n -> 0 .. n]
        BY <1>1, <3>2, <3>3 DEF NewLast
    <3> QED BY <3>1, <3>4 DEF TypeOK
  <2>2. Inverse'
      BY <1>1 DEF NewLast, TypeOK, Inverse
  <2> QED BY <2>1, <2>2
<1>2. CASE UNCHANGED vars
    BY <1>2 DEF vars, TypeOK, Inverse
<1> QED BY <1>1, <1>2 DEF Next

(* the fresh label is the old number of variables, goes last, and the old order is kept *)
THEOREM FreshLast == Inv /\ NewLast => /\ p2v'[n] = n /\ v2p'[n] = n
                                       /\ \A p \in 0 .. (n - 1) : p2v'[p] = p2v[p]
  BY DEF Inv, TypeOK, NewLast
=============================================================================
