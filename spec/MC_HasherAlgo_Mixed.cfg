SPECIFICATION HSpec
CONSTANTS
  HCnf <- Mixed
  HNV = 3
  MaxPush = 2
  PerOccurrence = TRUE
INVARIANT Incremental
INVARIANT DenotationalOnce
CHECK_DEADLOCK FALSE
