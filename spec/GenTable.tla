------------------------------ MODULE GenTable ------------------------------
(***************************************************************************)
(* Behaviour generator (spec -> impl): every behaviour of the bounded      *)
(* RobinHood model up to Depth calls is printed as one JSON line with the  *)
(* identities the model returns and its final slot array; the driver       *)
(* replays each line into the real table (harness: `rv replay table`).     *)
(***************************************************************************)
EXTENDS Json, Sequences
CONSTANTS Keys, H, MaxCap, GrowAsCoded, ByHash, Depth, Caps
VARIABLES st, hashOf, idOf, nextId, hist, cap0
Cap0 == 1
INSTANCE RobinHood
gvars == <<st, hashOf, idOf, nextId, hist, cap0>>

GInit == /\ cap0 \in Caps
         /\ st = [t |-> EmptyTable(cap0), c |-> cap0, len |-> 0]
         /\ hashOf = << >> /\ idOf = << >> /\ nextId = 1 /\ hist = << >>

GNext ==
  /\ Len(hist) < Depth
  /\ UNCHANGED cap0
  /\ \E k \in Keys : \E h \in 0 .. (H - 1) :
       /\ (k \in DOMAIN hashOf => h = hashOf[k])
       /\ hashOf' = IF k \in DOMAIN hashOf THEN hashOf ELSE hashOf @@ (k :> h)
       /\ LET r == GetOrInsertStep(GrowAsCoded, st, ByHash, h, k, nextId) IN
            /\ st' = [t |-> r.t, c |-> r.c, len |-> r.len]
            /\ nextId' = IF r.ins THEN nextId + 1 ELSE nextId
            /\ idOf' = IF AbsKey(k, h) \in DOMAIN idOf THEN idOf ELSE idOf @@ (AbsKey(k, h) :> r.id)
            /\ hist' = Append(hist, <<k, h, r.id>>)

GSpec == GInit /\ [][GNext]_gvars

SlotsOut == [i \in 1 .. st.c |-> <<IF st.t[i - 1].occ THEN 1 ELSE 0, st.t[i - 1].hash, st.t[i - 1].psl, st.t[i - 1].id, 0>>]
Emit == (Len(hist) = Depth) =>
          PrintT(ToJson([cap |-> cap0, byhash |-> ByHash, ops |-> hist, slots |-> SlotsOut]))
=============================================================================
