SPECIFICATION Spec
CONSTANTS
  NVars = 3
  Family <- F3q
INVARIANT Sound
CHECK_DEADLOCK FALSE
