----------------------------- MODULE MC_BTrees -----------------------------
EXTENDS BTrees
VARIABLE x
Init == x = 0
Next == UNCHANGED x
Spec == Init /\ [][Next]_x
ASSUME PrintT(<<"trees", Cardinality(AllTrees)>>)
ASSUME BfsAgrees
ASSUME MappingsInverse
ASSUME LcaAgrees
=============================================================================
