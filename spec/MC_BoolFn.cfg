CONSTANT NV = 3
