SPECIFICATION Spec
CONSTANTS
  NV = 2
  Ord <- Ord21
INVARIANT KeySound
INVARIANT IteSound
INVARIANT CondSound
CHECK_DEADLOCK FALSE
