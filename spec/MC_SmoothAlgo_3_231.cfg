SPECIFICATION Spec
CONSTANTS
  NV = 3
  Ord <- Ord231
  AsCoded = FALSE
INVARIANT SmoothSound
CHECK_DEADLOCK FALSE
