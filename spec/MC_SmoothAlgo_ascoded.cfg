SPECIFICATION Spec
CONSTANTS
  NV = 3
  Ord <- Ord123
  AsCoded = TRUE
INVARIANT SmoothSound
CHECK_DEADLOCK FALSE
