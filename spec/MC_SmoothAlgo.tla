----------------------------- MODULE MC_SmoothAlgo -----------------------------
(* smooth_helper over every function of NV variables, every prefix length n, one order per configuration *)
EXTENDS SmoothAlgo
VARIABLE f
Ord123 == <<0, 1, 2>>
Ord132 == <<0, 2, 1>>
Ord213 == <<1, 0, 2>>
Ord231 == <<1, 2, 0>>
Ord312 == <<2, 0, 1>>
Ord321 == <<2, 1, 0>>
Ord1234 == <<0, 1, 2, 3>>
Ord3142 == <<2, 0, 3, 1>>
Ord4321 == <<3, 2, 1, 0>>
Ord2413 == <<1, 3, 0, 2>>
(* the lattice of subsets is walked one element at a time so that TLC's workers share the invariant evaluations *)
Init == f = {}
Next == \E a \in Assign : f' = f \cup {a}
Spec == Init /\ [][Next]_f
SmoothSound == \A n \in 0 .. NV : SmoothSoundFor(f, n)
=============================================================================
