SPECIFICATION Spec
CONSTANTS
  NV = 2
  Ord <- O01
  Slots = 0
  MaxNodes = 3
  MaxCache = 1
  Cnfs <- NoCnfs
  Ops <- IteCond
  GetIgnoresCompl = FALSE
  GetIgnoresKey = FALSE
INVARIANTS ResultOK ShapeOK Canonical CacheSound CacheShape CacheStandard
CHECK_DEADLOCK FALSE
