------------------------------ MODULE RobddAlgo ------------------------------
(***************************************************************************)
(* L2: the decision procedures of the bottom-up BDD builder, modelled at   *)
(* the level of canonical pointers.  In a reduced ordered BDD with         *)
(* complement edges whose high edges are regular, a pointer is determined  *)
(* by the function it denotes, so a pointer IS a function here and         *)
(*    IsNeg(f)  <=>  the all-true assignment falsifies f                   *)
(*                   (follow the regular high edges down to the terminal)  *)
(*    Top(f)     =   the first variable, in the order, that f depends on   *)
(* This module transcribes                                                 *)
(*    Ite::new               (src/builder/cache/ite.rs: the ten rewrites   *)
(*                            and three complement cases of the standard   *)
(*                            triple normalisation)            -> IteNew   *)
(*    RobddBuilder::ite_helper (Shannon expansion on the first essential   *)
(*                            variable behind the apply cache) -> IteRec   *)
(*    cond_with_alloc        (conditioning with the early exit once the    *)
(*                            variable has been passed)        -> CondRec  *)
(* and states the lemma the apply cache relies on:                         *)
(*    KeySound: for every triple, IteNew yields either a constant equal to *)
(*    Ite(f,g,h) or a key (f',g',h',c) with Ite(f',g',h') xor c =          *)
(*    Ite(f,g,h) - so two calls that share a key share their answer.       *)
(***************************************************************************)
EXTENDS BoolFn, TLC

CONSTANT Ord                     \* Ord[level] = variable, a permutation of Vars (1-based levels)

AllOnes == Pow2(NV) - 1
IsTrue(f) == f = TrueFn
IsFalse(f) == f = FalseFn
IsConstF(f) == IsTrue(f) \/ IsFalse(f)
(* as coded: BddPtr::is_neg is false for BOTH constants (PtrFalse is its own variant, not a complemented PtrTrue) *)
IsNeg(f) == ~IsConstF(f) /\ AllOnes \notin f
Level(v) == CHOOSE i \in 1 .. NV : Ord[i] = v
Top(f) == Ord[CHOOSE i \in 1 .. NV : DependsOn(f, Ord[i]) /\ \A j \in 1 .. (i - 1) : ~DependsOn(f, Ord[j])]
(* the closure `o` of ite_helper: constants come first, otherwise compare the levels of the top variables *)
Before(a, b) == IF IsConstF(a) THEN TRUE ELSE IF IsConstF(b) THEN FALSE ELSE Level(Top(a)) < Level(Top(b))

Const(f) == [kind |-> "const", f |-> f, g |-> {}, h |-> {}]
Choice(f, g, h) == [kind |-> "choice", f |-> f, g |-> g, h |-> h]
ComplChoice(f, g, h) == [kind |-> "compl", f |-> f, g |-> g, h |-> h]

(* --- Ite::new, step by step; every step keeps the value Ite(f,g,h) unchanged --- *)
IntroConsts(t) ==                                   \* "introduce constants"
  LET f == t[1] g == t[2] h == t[3] IN
  IF f = h THEN <<f, g, FalseFn>>
  ELSE IF f = Neg(h) THEN <<f, g, TrueFn>>
  ELSE IF f = Neg(g) THEN <<f, FalseFn, h>>
  ELSE t
Terminal(t) ==                                      \* "check for terminal cases": <<TRUE, value>> or <<FALSE, {}>>
  LET f == t[1] g == t[2] h == t[3] IN
  IF IsTrue(f) THEN <<TRUE, g>>
  ELSE IF IsFalse(f) THEN <<TRUE, h>>
  ELSE IF IsTrue(g) /\ IsFalse(h) THEN <<TRUE, f>>
  ELSE IF IsFalse(g) /\ IsTrue(h) THEN <<TRUE, Neg(f)>>
  ELSE IF h = g THEN <<TRUE, g>>
  ELSE <<FALSE, {}>>
Reorder(t) ==                                       \* "place the top-most node first in the order"
  LET f == t[1] g == t[2] h == t[3] IN
  IF IsTrue(g) /\ Before(h, f) THEN <<h, g, f>>
  ELSE IF IsFalse(h) /\ Before(g, f) THEN <<g, f, h>>
  ELSE IF IsTrue(h) /\ Before(g, f) THEN <<Neg(g), Neg(f), h>>
  ELSE IF IsFalse(g) /\ Before(h, f) THEN <<Neg(h), g, Neg(f)>>
  ELSE IF g = Neg(h) /\ Before(g, f) THEN <<g, f, Neg(f)>>
  ELSE t
Standardize(t) ==                                   \* "ensure f and g are non-negated"
  LET f == t[1] g == t[2] h == t[3] IN
  IF IsNeg(f) /\ ~IsNeg(h) THEN Choice(Neg(f), h, g)
  ELSE IF ~IsNeg(f) /\ IsNeg(g) THEN ComplChoice(f, Neg(g), Neg(h))
  ELSE IF IsNeg(f) /\ IsNeg(h) THEN ComplChoice(Neg(f), Neg(h), Neg(g))
  ELSE Choice(f, g, h)
IteNew(f, g, h) ==
  LET t1 == IntroConsts(<<f, g, h>>)
      tm == Terminal(t1)
  IN IF tm[1] THEN Const(tm[2]) ELSE Standardize(Reorder(t1))

(* what a cache entry under this key must evaluate to *)
KeyValue(k) == IF k.kind = "const" THEN k.f
               ELSE IF k.kind = "choice" THEN Ite(k.f, k.g, k.h)
               ELSE Neg(Ite(k.f, k.g, k.h))
KeySoundFor(f, g, h) == KeyValue(IteNew(f, g, h)) = Ite(f, g, h)
(* the normal form the comment in ite.rs promises: f and g regular (not complemented) *)
KeyStandardFor(f, g, h) ==
  LET k == IteNew(f, g, h) IN k.kind = "const" \/ (~IsNeg(k.f) /\ ~IsNeg(k.g) /\ ~IsConstF(k.f))

(* --- ite_helper without the cache: Shannon expansion on the first essential variable --- *)
FirstOf(a, b) == IF IsConstF(a) THEN b ELSE IF IsConstF(b) THEN a ELSE IF Level(Top(a)) < Level(Top(b)) THEN a ELSE b
RECURSIVE IteRec(_, _, _)
IteRec(f, g, h) ==
  LET k == IteNew(f, g, h) IN
  IF k.kind = "const" THEN k.f
  ELSE LET v  == Top(FirstOf(FirstOf(f, g), h))
           t  == IteRec(Cond(f, v, TRUE), Cond(g, v, TRUE), Cond(h, v, TRUE))
           e  == IteRec(Cond(f, v, FALSE), Cond(g, v, FALSE), Cond(h, v, FALSE))
       IN IF t = e THEN t ELSE Ite(Lit(v, TRUE), t, e)        \* get_or_insert of the node (v, e, t)
IteRecSoundFor(f, g, h) == IteRec(f, g, h) = Ite(f, g, h)

(* --- cond_with_alloc: returns the diagram unchanged once `lbl` has been passed in the order --- *)
RECURSIVE CondRec(_, _, _)
CondRec(f, lbl, b) ==
  IF IsConstF(f) THEN f
  ELSE LET v == Top(f) IN
       IF Level(lbl) < Level(v) THEN f
       ELSE IF v = lbl THEN Cond(f, v, b)
       ELSE LET lo == CondRec(Cond(f, v, FALSE), lbl, b)
                hi == CondRec(Cond(f, v, TRUE), lbl, b)
            IN IF lo = hi THEN lo ELSE Ite(Lit(v, TRUE), hi, lo)
CondRecSoundFor(f, v, b) == CondRec(f, v, b) = Cond(f, v, b)
=============================================================================
