SPECIFICATION Spec
CONSTANTS
  NN = 4
  NL = 3
  FreezeFirst = FALSE
INVARIANT Faithful
CHECK_DEADLOCK FALSE
