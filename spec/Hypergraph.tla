----------------------------- MODULE Hypergraph -----------------------------
(***************************************************************************)
(* util/hypergraph.rs as a state machine (beyond the listed properties).   *)
(* The code keeps `vertices: HashSet<T>` and `hyperedges: Vec<HashSet<T>>`;*)
(* the Vec may hold duplicates and empty edges (through `new`, through     *)
(* `insert_edge` of the empty set, and - between the removal and the       *)
(* de-duplication - inside `cut_vertex`).  A hypergraph value here is      *)
(*      [verts |-> set, edges |-> sequence of sets]                        *)
(* and every comparison with the code is up to the order of the sequence   *)
(* (the code's order after a de-duplication is that of a HashMap).         *)
(* Definitions (Components, Covers) come first, then the operations one    *)
(* action per public method, then the fold `edges_to_covers` as coded.     *)
(***************************************************************************)
EXTENDS Naturals, FiniteSets, Sequences, TLC

ToSet(s) == {s[i] : i \in 1 .. Len(s)}
Count(s, e) == Cardinality({i \in 1 .. Len(s) : s[i] = e})
SameBag(a, b) == Len(a) = Len(b) /\ \A e \in ToSet(a) \cup ToSet(b) : Count(a, e) = Count(b, e)
NonEmptySeq(s) == SelectSeq(s, LAMBDA e : e # {})
RECURSIVE DedupSeq(_)
DedupSeq(s) == IF s = << >> THEN << >>
               ELSE LET r == DedupSeq(SubSeq(s, 1, Len(s) - 1))
                    IN IF s[Len(s)] \in ToSet(r) THEN r ELSE Append(r, s[Len(s)])

(* --- definitions ------------------------------------------------------- *)
Edges(h) == NonEmptySeq(h.edges)                          \* edges(): the non-empty ones, with multiplicity
Size(h) == Len(Edges(h))
Order(h) == Cardinality(h.verts)
RECURSIVE Grow(_, _)
Grow(E, C) == LET C2 == C \cup {e \in E : \E c \in C : e \cap c # {}}
              IN IF C2 = C THEN C ELSE Grow(E, C2)
Components(E) == {Grow(E, {e}) : e \in E}                 \* classes of the transitive closure of "the edges share a vertex"
Covers(h) == {[vs |-> UNION C, es |-> C] : C \in Components(ToSet(Edges(h)))}
Min(S) == CHOOSE x \in S : \A y \in S : x <= y
Max(S) == CHOOSE x \in S : \A y \in S : x >= y
(* widths(): (min, max) number of distinct edges of a cover; the code's fold starts from (usize::MAX, 0): -1 stands for usize::MAX *)
Widths(h) == LET ws == {Cardinality(c.es) : c \in Covers(h)}
             IN IF ws = {} THEN <<0 - 1, 0>> ELSE <<Min(ws), Max(ws)>>
Touches(e, p) == e \cap p # {}
CutEdges(h, p1, p2) == SelectSeq(h.edges, LAMBDA e : Touches(e, p1) /\ Touches(e, p2))     \* get_cut_edges: over ALL stored edges
CountCut(h, p1, p2) == Len(SelectSeq(Edges(h), LAMBDA e : Touches(e, p1) /\ Touches(e, p2)))
HasEdge(h, v) == \E i \in 1 .. Len(h.edges) : v \in h.edges[i]
EdgesFor(h, v) == SelectSeq(h.edges, LAMBDA e : v \in e)                                    \* None in the code iff ~HasEdge

(* --- operations -------------------------------------------------------- *)
(* insert_edge: new vertices are added first; the edge is pushed unless an EQUAL edge is stored already *)
Insert(h, e) ==
  LET dup == e \in ToSet(h.edges)
  IN [ok |-> ~dup, h |-> [verts |-> h.verts \cup e, edges |-> IF dup THEN h.edges ELSE Append(h.edges, e)]]
(* cut_vertex: as coded the vertex is removed from `vertices` BEFORE the edge index is consulted, and the index lookup is
   unwrapped: a vertex that lies in no edge makes the call panic with the vertex already gone (named deviation). *)
CutPanics(h, v) == v \in h.verts /\ ~HasEdge(h, v)
Cut(h, v) ==
  IF v \notin h.verts THEN [ok |-> FALSE, h |-> h]
  ELSE IF ~HasEdge(h, v) THEN [ok |-> FALSE, h |-> [h EXCEPT !.verts = @ \ {v}]]             \* panic
  ELSE [ok |-> TRUE,
        h |-> [verts |-> h.verts \ {v},
               edges |-> NonEmptySeq(DedupSeq([i \in 1 .. Len(h.edges) |-> h.edges[i] \ {v}]))]]

(* --- edges_to_covers as coded: one pass that merges every cover the new edge overlaps --- *)
RECURSIVE CoverFold(_, _)
CoverFold(es, acc) ==
  IF es = << >> THEN acc
  ELSE LET e == Head(es)
           hit == {i \in 1 .. Len(acc) : acc[i].vs \cap e # {}}
           keep == SelectSeq([i \in 1 .. Len(acc) |-> IF i \in hit THEN [vs |-> {}, es |-> {}] ELSE acc[i]], LAMBDA c : c.vs # {})
           merged == [vs |-> e \cup UNION {acc[i].vs : i \in hit}, es |-> {e} \cup UNION {acc[i].es : i \in hit}]
       IN CoverFold(Tail(es), Append(keep, merged))
CoversAsCoded(h) == ToSet(CoverFold(Edges(h), << >>))

(* --- from_cnf: one vertex per variable that occurs, one edge per distinct clause support (the empty clause gives the empty edge) --- *)
Abs(x) == IF x < 0 THEN 0 - x ELSE x
ClauseSupport(c) == {Abs(c[k]) - 1 : k \in 1 .. Len(c)}
FromCnf(cnf) == [verts |-> UNION {ClauseSupport(cnf[i]) : i \in 1 .. Len(cnf)},
                 edges |-> DedupSeq([i \in 1 .. Len(cnf) |-> ClauseSupport(cnf[i])])]

(* --- the state machine, for model checking ------------------------------ *)
CONSTANTS U, MaxEdges
VARIABLE g
HInit == \E vs \in SUBSET U : \E e1, e2 \in SUBSET vs : \E n \in 0 .. 2 :
            g = [verts |-> vs, edges |-> SubSeq(<<e1, e2>>, 1, n)]
HNext == \/ \E e \in SUBSET U : Len(g.edges) < MaxEdges /\ g' = Insert(g, e).h
         \/ \E v \in U : g' = Cut(g, v).h
HSpec == HInit /\ [][HNext]_g

(* invariants *)
EdgesWithinVerts == \A i \in 1 .. Len(g.edges) : g.edges[i] \subseteq g.verts
CoversPartition ==
  LET cs == Covers(g) IN
  /\ \A c, d \in cs : c # d => c.vs \cap d.vs = {} /\ c.es \cap d.es = {}
  /\ UNION {c.es : c \in cs} = ToSet(Edges(g))
  /\ \A c \in cs : c.vs = UNION c.es /\ c.es # {}
  \* two edges of one cover are linked by a chain of overlapping edges: no proper non-empty subset is closed
  /\ \A c \in cs : \A S \in SUBSET c.es : (S # {} /\ S # c.es) => \E a \in S, b \in c.es \ S : a \cap b # {}
FoldIsDefinition == CoversAsCoded(g) = Covers(g)
(* a successful cut leaves no trace of the vertex, no empty edge and no duplicate *)
CutClean == \A v \in U : LET r == Cut(g, v) IN
              r.ok => /\ v \notin r.h.verts /\ ~HasEdge(r.h, v)
                      /\ \A i \in 1 .. Len(r.h.edges) : r.h.edges[i] # {} /\ Count(r.h.edges, r.h.edges[i]) = 1
InsertIdempotent == \A e \in SUBSET U : LET r == Insert(g, e) IN ~Insert(r.h, e).ok /\ Insert(r.h, e).h = r.h
=============================================================================
