------------------------------- MODULE BTrees -------------------------------
(***************************************************************************)
(* util/btree.rs (beyond the listed properties; the vtree manager's use of *)
(* it is C14).  Labelled binary trees                                      *)
(*     <<"leaf", x>>   /   <<"node", x, l, r>>                             *)
(* with pairwise distinct labels x, so that a traversal is a sequence of   *)
(* labels.  Definitions by paths first (a node is the sequence of 0/1      *)
(* turns that leads to it), then the iterators as coded, then the Euler    *)
(* tour + range-minimum scheme of LeastCommonAncestor as coded.            *)
(***************************************************************************)
EXTENDS Naturals, Sequences, FiniteSets, TLC

IsLeafB(t) == t[1] = "leaf"
Label(t) == t[2]
RECURSIVE Paths(_), At(_, _), SizeB(_), InOrder(_), LeafLabels(_)
Paths(t) == IF IsLeafB(t) THEN {<< >>}
            ELSE {<< >>} \cup {<<0>> \o p : p \in Paths(t[3])} \cup {<<1>> \o p : p \in Paths(t[4])}
At(t, p) == IF p = << >> THEN t ELSE At(IF Head(p) = 0 THEN t[3] ELSE t[4], Tail(p))
SizeB(t) == IF IsLeafB(t) THEN 1 ELSE 1 + SizeB(t[3]) + SizeB(t[4])
LeafLabels(t) == IF IsLeafB(t) THEN <<t[2]>> ELSE LeafLabels(t[3]) \o LeafLabels(t[4])
DistinctLabels(t) == Cardinality({Label(At(t, p)) : p \in Paths(t)}) = SizeB(t)
PathOf(t, x) == CHOOSE p \in Paths(t) : Label(At(t, p)) = x

(* --- definitions of the two orders --- *)
(* in-order: left subtree, node, right subtree *)
InOrder(t) == IF IsLeafB(t) THEN <<t[2]>> ELSE InOrder(t[3]) \o <<t[2]>> \o InOrder(t[4])
(* breadth-first: by depth, and within one depth from left to right (lexicographic order of the paths) *)
RECURSIVE LexLess(_, _)
LexLess(p, q) == IF p = << >> THEN q # << >>
                 ELSE IF q = << >> THEN FALSE
                 ELSE IF Head(p) # Head(q) THEN Head(p) < Head(q) ELSE LexLess(Tail(p), Tail(q))
BfsBefore(p, q) == Len(p) < Len(q) \/ (Len(p) = Len(q) /\ LexLess(p, q))
BfsRank(t, p) == Cardinality({q \in Paths(t) : BfsBefore(q, p)})             \* 0-based
BfsDef(t) == [i \in 1 .. SizeB(t) |-> Label(At(t, CHOOSE p \in Paths(t) : BfsRank(t, p) = i - 1))]

(* --- the iterators as coded --- *)
(* BreadthFirstIter: a queue; popping a node pushes its children *)
RECURSIVE BfsQueue(_, _)
BfsQueue(q, out) == IF q = << >> THEN out
                    ELSE LET v == Head(q)
                         IN IF IsLeafB(v) THEN BfsQueue(Tail(q), Append(out, v[2]))
                            ELSE BfsQueue(Tail(q) \o <<v[3], v[4]>>, Append(out, v[2]))
BfsAsCoded(t) == BfsQueue(<<t>>, << >>)
IndexOf(s, x) == CHOOSE i \in 1 .. Len(s) : s[i] = x
(* dfs_to_bfs_mapping[i] = BFS position of the i-th node in in-order, and conversely *)
DfsToBfs(t) == LET b == BfsAsCoded(t)  d == InOrder(t) IN [i \in 1 .. Len(d) |-> IndexOf(b, d[i]) - 1]
BfsToDfs(t) == LET b == BfsAsCoded(t)  d == InOrder(t) IN [i \in 1 .. Len(b) |-> IndexOf(d, b[i]) - 1]
(* find_leaf_idx(pred): in-order index of the first LEAF whose label satisfies pred *)
FindLeafIdx(t, S) == LET d == InOrder(t)
                         hits == {i \in 1 .. Len(d) : d[i] \in S /\ IsLeafB(At(t, PathOf(t, d[i])))}
                     IN IF hits = {} THEN 0 - 1 ELSE (CHOOSE i \in hits : \A j \in hits : i <= j) - 1
ContainsLeaf(t, S) == \E i \in 1 .. Len(LeafLabels(t)) : LeafLabels(t)[i] \in S

(* --- least common ancestor --- *)
(* definition: the node at the longest common prefix of the two paths *)
RECURSIVE CommonPrefix(_, _)
CommonPrefix(p, q) == IF p = << >> \/ q = << >> \/ Head(p) # Head(q) THEN << >>
                      ELSE <<Head(p)>> \o CommonPrefix(Tail(p), Tail(q))
LcaDef(t, x, y) == Label(At(t, CommonPrefix(PathOf(t, x), PathOf(t, y))))
(* as coded: nodes are named by their BFS position; the Euler tour lists a node before, between and after its subtrees; index_map =
   first occurrence; lca(l, r) = minimum of the tour over the half-open range [first(l), first(r)) after ordering the two *)
RECURSIVE Euler(_, _)
Euler(t, bfs) == LET me == IndexOf(bfs, t[2]) - 1
                 IN IF IsLeafB(t) THEN <<me>> ELSE <<me>> \o Euler(t[3], bfs) \o <<me>> \o Euler(t[4], bfs) \o <<me>>
First(s, x) == CHOOSE i \in 1 .. Len(s) : s[i] = x /\ \A j \in 1 .. (i - 1) : s[j] # x
MinOver(s, lo, hi) == CHOOSE m \in {s[i] : i \in lo .. hi} : \A i \in lo .. hi : m <= s[i]
LcaAsCoded(t, l, r) ==          \* l, r and the result are BFS positions (0-based)
  IF l = r THEN l
  ELSE LET e == Euler(t, BfsAsCoded(t))
           a == First(e, l)  b == First(e, r)
           lo == IF a < b THEN a ELSE b
           hi == IF a < b THEN b ELSE a
       IN MinOver(e, lo, hi - 1)

(* --- design-level checks over all trees of a bounded size --- *)
(* shapes with k nodes, labelled 0.. in pre-order starting at `from` *)
RECURSIVE Shapes(_, _)
Shapes(k, from) ==
  IF k = 1 THEN {<<"leaf", from>>}
  ELSE IF k % 2 = 0 THEN {}
  ELSE UNION {{<<"node", from, l, r>> : l \in Shapes(a, from + 1), r \in Shapes(k - 1 - a, from + 1 + a)} : a \in {x \in 1 .. (k - 2) : x % 2 = 1}}
CONSTANT MaxNodes
AllTrees == UNION {Shapes(k, 0) : k \in {x \in 1 .. MaxNodes : x % 2 = 1}}
BfsAgrees == \A t \in AllTrees : DistinctLabels(t) /\ BfsAsCoded(t) = BfsDef(t)
MappingsInverse == \A t \in AllTrees : \A i \in 1 .. SizeB(t) : BfsToDfs(t)[DfsToBfs(t)[i] + 1] = i - 1
LcaAgrees == \A t \in AllTrees : LET b == BfsAsCoded(t) IN
               \A i, j \in 1 .. Len(b) : b[LcaAsCoded(t, i - 1, j - 1) + 1] = LcaDef(t, b[i], b[j])
=============================================================================
