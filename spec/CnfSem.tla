------------------------------- MODULE CnfSem -------------------------------
(***************************************************************************)
(* L0 vocabulary: propositional semantics of clause lists and partial      *)
(* models, written from the definitions (independent of Cnf::eval etc.).   *)
(* A CNF is a sequence of clauses, a clause a sequence of non-zero         *)
(* integers +(v+1) / -(v+1); a partial model is a sequence indexed by v+1  *)
(* with -1 = unassigned, 0 = false, 1 = true.  NV = number of variables.   *)
(***************************************************************************)
EXTENDS BoolFn

LitVal(pm, l) ==                          \* "T", "F" or "U"
  LET x == pm[LitVar(l) + 1] IN
  IF x = -1 THEN "U" ELSE IF (x = 1) = LitPol(l) THEN "T" ELSE "F"
LitSet(c) == {c[k] : k \in 1 .. Len(c)}
Tautology(c) == \E l \in LitSet(c) : (0 - l) \in LitSet(c)
ClauseSat(pm, c) == \E l \in LitSet(c) : LitVal(pm, l) = "T"
ClauseFalsified(pm, c) == \A l \in LitSet(c) : LitVal(pm, l) = "F"
Unassigned(pm, c) == {l \in LitSet(c) : LitVal(pm, l) = "U"}
(* exactly one unassigned literal and no true literal: a missed unit *)
ClauseUnit(pm, c) == ~ClauseSat(pm, c) /\ Cardinality(Unassigned(pm, c)) = 1

(* total assignments (as integers) extending a partial model / a set of literals *)
Extends(a, pm) == \A v \in 0 .. (Len(pm) - 1) : pm[v + 1] = -1 \/ (Bit(a, v) = (pm[v + 1] = 1))
SatLits(a, lits) == \A l \in lits : LitTrue(a, l)
ModelsOf(cnf) == EvalCnf(cnf)
(* every model of cnf that makes the literals in lits true *)
ModelsWith(cnf, lits) == {a \in ModelsOf(cnf) : SatLits(a, lits)}
(* literal l is entailed by cnf /\ lits *)
Entailed(cnf, lits, l) == \A a \in ModelsWith(cnf, lits) : LitTrue(a, l)
AssignedLits(pm) == {IF pm[v + 1] = 1 THEN v + 1 ELSE 0 - (v + 1) : v \in {u \in 0 .. (Len(pm) - 1) : pm[u + 1] # -1}}

(* the residual formula under pm: the unsatisfied non-tautological clauses restricted to    *)
(* their unassigned literals, as a set of clauses (formula view) or by clause index         *)
ResidualSet(cnf, pm) ==
  {Unassigned(pm, cnf[i]) : i \in {j \in 1 .. Len(cnf) : ~Tautology(cnf[j]) /\ ~ClauseSat(pm, cnf[j])}}
ResidualIdx(cnf, pm, idxs) ==
  [i \in {j \in idxs : ~ClauseSat(pm, cnf[j])} |-> Unassigned(pm, cnf[i])]
AllSatisfied(cnf, pm) == \A i \in 1 .. Len(cnf) : Tautology(cnf[i]) \/ ClauseSat(pm, cnf[i])

(* conditioning a clause list on a literal, from the definition *)
CondClause(c, l) == SelectSeq(c, LAMBDA x : x # (0 - l))
CondCnf(cnf, l) == LET keep == SelectSeq(cnf, LAMBDA c : l \notin LitSet(c))
                   IN [i \in 1 .. Len(keep) |-> CondClause(keep[i], l)]
MaxVar(cnf) == LET vs == UNION {{LitVar(l) : l \in LitSet(cnf[i])} : i \in 1 .. Len(cnf)}
               IN IF vs = {} THEN -1 ELSE CHOOSE m \in vs : \A v \in vs : v <= m
=============================================================================
