----------------------------- MODULE GenWatched -----------------------------
(***************************************************************************)
(* Behaviour generator (spec -> impl) for the SAT state: every decide/pop  *)
(* behaviour of the bounded Watched model up to Depth calls, on every CNF  *)
(* of the family, is printed as one JSON line: the CNF, the calls, and per *)
(* call what the model answers (ok / unsat, the model after the call).     *)
(* The driver replays each line into the real SATSolver and compares       *)
(*   L1 (alarm):  UNSAT answers and models must satisfy UnitProp - here    *)
(*                the model's own answer is a correct instance, and since  *)
(*                propagation to fixpoint is deterministic up to L1 only   *)
(*                when the fixpoint is unique, the driver reports a        *)
(*                difference in ok / model as a mismatch (UP closure is    *)
(*                unique: least fixpoint) and in the watch lists as drift  *)
(***************************************************************************)
EXTENDS Watched, Json
CONSTANTS GDepth
VARIABLES hist
gvars == <<cnf, wp, wn, stack, decs, last, hist>>

GInit == WInit /\ hist = << >>
GDecide(l) ==
  /\ Len(hist) < GDepth /\ Len(stack) >= 1
  /\ WDecide(l)
  /\ hist' = Append(hist, [op |-> "d", lit |-> l, ok |-> last'.op = "ok", m |-> stack'[Len(stack')],
                            wp |-> wp', wn |-> wn'])
GPop ==
  /\ Len(hist) < GDepth
  /\ WPop
  /\ hist' = Append(hist, [op |-> "p", lit |-> 0, ok |-> TRUE, m |-> stack'[Len(stack')], wp |-> wp', wn |-> wn'])
GNext == (\E l \in Lits : GDecide(l)) \/ GPop
GSpec == GInit /\ [][GNext]_gvars
Emit == (Len(hist) = GDepth \/ Len(stack) = 0) =>
          PrintT(ToJson([cnf |-> cnf, nv |-> NVars, newok |-> Len(stack) >= 1 \/ Len(hist) > 0,
                         m0 |-> IF Len(hist) = 0 /\ Len(stack) >= 1 THEN stack[1] ELSE << >>, ops |-> hist]))
=============================================================================
