------------------------------- MODULE SddApi -------------------------------
(***************************************************************************)
(* L1 monitor for the SDD builders (C03, C04, and the SDD parts of C05,    *)
(* C07, C10, C11).  Pointers are 3-tuples <<"t",0,0>>, <<"f",0,0>>,        *)
(* <<"l",var,pol>>, <<"n",id,compl>>; node[id] = <<id, kind, vtree index,  *)
(* <<<<prime, sub>>, ...>>>> (kind "b": a binary node dumped as its two    *)
(* elements (x, high), (~x, low); kind "o": a general decision node).      *)
(* nden[id] caches the recomputed denotation of node id.                   *)
(***************************************************************************)
EXTENDS BoolFn, Counting, Bignum, VTrees, TLC

CONSTANT K, Enforce
Req(p, cond) == IF p \in Enforce THEN cond ELSE TRUE

VARIABLES nvars, vt, flat, compress, semantic, node, nden, root, den, canon, contents, hashes
svars == <<nvars, vt, flat, compress, semantic, node, nden, root, den, canon, contents, hashes>>
Slots == 0 .. (K - 1)

PTrue == <<"t", 0, 0>>
PFalse == <<"f", 0, 0>>
DenPtr(nd, p) ==
  CASE p[1] = "t" -> TrueFn
    [] p[1] = "f" -> FalseFn
    [] p[1] = "l" -> Lit(p[2], p[3] = 1)
    [] p[1] = "n" -> IF p[3] = 1 THEN Neg(nd[p[2]]) ELSE nd[p[2]]
ElemDen(nd, el) == UNION {DenPtr(nd, el[i][1]) \cap DenPtr(nd, el[i][2]) : i \in 1 .. Len(el)}

(* extend the denotation cache with the new nodes, in dump (post-) order *)
RECURSIVE ExtendDen(_, _, _)
ExtendDen(nd, nn, i) == IF i > Len(nn) THEN nd ELSE ExtendDen(Append(nd, ElemDen(nd, nn[i][4])), nn, i + 1)

(* C04: a decision node at vtree position n[3] is normalised, compressed and trimmed *)
WellFormed(nd, n) ==
  LET t == flat[n[3] + 1]
      el == n[4]
      P(i) == DenPtr(nd, el[i][1])
      S(i) == DenPtr(nd, el[i][2])
      I == 1 .. Len(el)
  IN /\ ~IsLeafV(t)
     /\ \A i \in I : P(i) # {}
     /\ \A i \in I, j \in I : i < j => P(i) \cap P(j) = {}
     /\ UNION {P(i) : i \in I} = Assign
     /\ \A i \in I : Support(P(i)) \subseteq VVars(t[2]) /\ Support(S(i)) \subseteq VVars(t[3])
     /\ \A i \in I, j \in I : i < j => S(i) # S(j)
     /\ Len(el) >= 2                                                    \* {(T, s)} trims to s
     /\ ~(Len(el) = 2 /\ {S(1), S(2)} = {TrueFn, FalseFn})              \* {(p,T),(~p,F)} trims to p
Content(n) == <<n[3], {<<n[4][i][1], n[4][i][2]>> : i \in 1 .. Len(n[4])}>>

SResetState(e) ==
  /\ nvars' = e.n0
  /\ vt' = e.vtree
  /\ flat' = Flatten(e.vtree)
  /\ compress' = e.compress /\ semantic' = e.semantic
  /\ node' = << >> /\ nden' = << >>
  /\ root' = [s \in Slots |-> IF s = 1 THEN PFalse ELSE PTrue]
  /\ den' = [s \in Slots |-> IF s = 1 THEN FalseFn ELSE TrueFn]
  /\ canon' = (TrueFn :> PTrue) @@ (FalseFn :> PFalse) @@
              [f \in {Lit(v, b) : v \in 0 .. (e.n0 - 1), b \in BOOLEAN} |->
                   CHOOSE p \in {<<"l", v, c>> : v \in 0 .. (e.n0 - 1), c \in {0, 1}} : Lit(p[2], p[3] = 1) = f]
  /\ contents' = {}
  /\ Req("C14", NoRepeatedLeaf(e.vtree) /\ VVars(e.vtree) \subseteq 0 .. (e.n0 - 1))      \* label gaps are legal

D(e, i) == den[e.a[i]]
SSem(e) ==
  CASE e.ev = "var"     -> Lit(e.a[1], e.a[2] = 1)
    [] e.ev = "neg"     -> Neg(D(e, 1))
    [] e.ev = "and"     -> And(D(e, 1), D(e, 2))
    [] e.ev = "or"      -> Or(D(e, 1), D(e, 2))
    [] e.ev = "xor"     -> Xor(D(e, 1), D(e, 2))
    [] e.ev = "iff"     -> Iff(D(e, 1), D(e, 2))
    [] e.ev = "ite"     -> Ite(D(e, 1), D(e, 2), D(e, 3))
    [] e.ev = "cond"    -> Cond(D(e, 1), e.a[2], e.a[3] = 1)
    [] e.ev = "exists"  -> Exists(D(e, 1), e.a[2])
    [] e.ev = "compose" -> Compose(D(e, 1), e.a[2], D(e, 3))
    [] e.ev = "cnf"     -> EvalCnf(e.cnf)
    [] e.ev = "expr"    -> EvalExpr(e.expr)
    [] e.ev = "plan"    -> EvalExpr(e.expr)

(* semantic builders: the logged hash of every result must be a function of its denotation *)
SemHashOK(e, d) ==
  IF "hash" \in DOMAIN e
  THEN IF <<"sem", d>> \in DOMAIN hashes THEN hashes[<<"sem", d>>] = e.hash ELSE TRUE
  ELSE TRUE
SemHashUpd(e, d) == IF "hash" \in DOMAIN e THEN (<<"sem", d>> :> e.hash) @@ hashes ELSE hashes

SProduce(e) ==
  LET nn  == e.nodes
      nd2 == ExtendDen(nden, nn, 1)
      d   == DenPtr(nd2, e.root)
      strict == compress /\ ~semantic            \* the compressing builder: C04 applies
  IN
  /\ e.res \in 2 .. (K - 1)
  /\ \A i \in 1 .. Len(nn) : nn[i][1] = Len(node) + i
  \* C03 / C05 / C11(semantic builder): the function
  /\ Req(IF semantic THEN "C11" ELSE IF e.ev \in {"cnf", "expr", "plan"} THEN "C05" ELSE "C03", d = SSem(e))
  \* C04: every new node is well formed, unique, and results are canonical
  /\ IF strict
       THEN Req("C04", /\ \A i \in 1 .. Len(nn) : WellFormed(nd2, nn[i]) /\ Content(nn[i]) \notin contents
                       /\ Cardinality({Content(nn[i]) : i \in 1 .. Len(nn)}) = Len(nn)
                       /\ (IF d \in DOMAIN canon THEN canon[d] = e.root ELSE TRUE))
       ELSE TRUE
  /\ canon' = IF strict /\ d \notin DOMAIN canon THEN canon @@ (d :> e.root) ELSE canon
  /\ contents' = contents \cup {Content(nn[i]) : i \in 1 .. Len(nn)}
  /\ Req("C11", SemHashOK(e, d))
  /\ Req("C10", e.dirty = << >>)
  \* C16: the apply / if-then-else caches and tables of a long-lived builder never change a result - the same operation on
  \* structural copies of the operands in a brand-new builder (its node dump is self-contained) denotes the same function
  /\ Req("C16", /\ "cold_panic" \notin DOMAIN e
                /\ ("cold_root" \in DOMAIN e => DenPtr(ExtendDen(<< >>, e.cold_nodes, 1), e.cold_root) = d))
  /\ node' = node \o nn /\ nden' = nd2
  /\ root' = [root EXCEPT ![e.res] = e.root]
  /\ den' = [den EXCEPT ![e.res] = d]
  /\ hashes' = SemHashUpd(e, d)
  /\ UNCHANGED <<nvars, vt, flat, compress, semantic>>

SHashOK(e) ==
  LET f == D(e, 1) IN
  IF e.p = "32749"
  THEN /\ Normalised("ff", 32749, e.w, WX(0, nvars), nvars)
       /\ <<e.val>> = Comps(WMC("ff", 32749, f, e.w, WX(0, nvars), nvars), 0)
  ELSE LET P == PrimeLimbs(e.p)
           s == LAdd(e.limbs, e.nlimbs)
       IN /\ IsLimbs(e.limbs) /\ IsLimbs(e.nlimbs)
          /\ LLess(e.limbs, P) /\ LLess(e.nlimbs, P)
          /\ (s = <<1>> \/ s = LAdd(P, <<1>>))
          /\ (IF <<e.p, f>> \in DOMAIN hashes THEN hashes[<<e.p, f>>] = e.limbs ELSE TRUE)
          /\ (IF <<e.p, Neg(f)>> \in DOMAIN hashes THEN hashes[<<e.p, Neg(f)>>] = e.nlimbs ELSE TRUE)
          /\ (IF "climbs" \in DOMAIN e THEN e.climbs = e.limbs ELSE TRUE)
          /\ (IF "nclimbs" \in DOMAIN e THEN e.nclimbs = e.nlimbs ELSE TRUE)                     \* cached hash of the negation
SHashUpd(e) ==
  IF e.p = "32749" THEN hashes
  ELSE LET f == D(e, 1) IN (<<e.p, f>> :> e.limbs) @@ (<<e.p, Neg(f)>> :> e.nlimbs) @@ hashes

SQueryOK(e) ==
  CASE e.ev = "eq" ->
         IF semantic
         THEN Req("C11", (den[e.a[1]] = den[e.a[2]]) => e.val)          \* equal functions are never judged different
         ELSE IF compress THEN Req("C04", e.val = (den[e.a[1]] = den[e.a[2]])) ELSE TRUE
    [] e.ev = "pred" -> TRUE                                             \* library-side predicates: cross-check only
    [] e.ev = "wmc" -> Req("C07",
         /\ Normalised(e.sr, e.p, e.w, WX(e.wexp, nvars), nvars)
         /\ e.val = Comps(WMC(e.sr, e.p, D(e, 1), e.w, WX(e.wexp, nvars), nvars), nvars * e.wexp)
         /\ (IF "den" \in DOMAIN e THEN e.den = 1 ELSE TRUE)
         /\ (IF "tail0" \in DOMAIN e THEN e.tail0 ELSE TRUE))
    [] e.ev = "semhash" -> Req("C11", SHashOK(e))

SQuery(e) ==
  /\ Req("C07", "inexact" \notin DOMAIN e)
  /\ SQueryOK(e)
  /\ Req("C10", e.dirty = << >>)
  \* C10: the same answer as on a freshly built copy of the diagram (a brand-new builder)
  /\ Req("C10", "fresh" \in DOMAIN e => ("panic" \notin DOMAIN e.fresh /\ e.fresh.val = e.val))
  /\ hashes' = (IF e.ev = "semhash" THEN SHashUpd(e) ELSE hashes)
  /\ UNCHANGED <<nvars, vt, flat, compress, semantic, node, nden, root, den, canon, contents>>
=============================================================================
