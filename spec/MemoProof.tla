----------------------------- MODULE MemoProof -----------------------------
(***************************************************************************)
(* TLAPS proof of the design argument behind C16 ("a builder using the     *)
(* lossy cache at any capacity returns the same results as one that caches *)
(* every application"), for ANY argument space and ANY eviction policy:    *)
(*                                                                         *)
(*   an operation F is computed behind a cache whose key is KeyOf(args);   *)
(*   on a miss the result is stored after the pre-processing Pre (for the  *)
(*   ITE cache: complemented for a complemented standard triple), on a hit *)
(*   the stored value is post-processed by Post (complemented again).      *)
(*   The cache may lose ANY entries at ANY time (LossyMap: a lookup        *)
(*   answers nothing or the value last stored under exactly that key -     *)
(*   Lru.tla is model-checked to refine that).                             *)
(*                                                                         *)
(* Assumption (KeySound, proved for Ite::new in KeySoundProof.tla): there  *)
(* is a value G(k) per key such that storing and retrieving are coherent:  *)
(*   Pre(a, F(a)) = G(KeyOf(a))   and   Post(a, G(KeyOf(a))) = F(a).       *)
(* Theorem: every call returns F(args), whatever happened before.          *)
(***************************************************************************)
EXTENDS TLAPS
CONSTANTS Args, Keys, Vals, F(_), KeyOf(_), Pre(_, _), Post(_, _), G(_)
ASSUME KeyType == \A a \in Args : KeyOf(a) \in Keys
ASSUME KeySound == \A a \in Args : Pre(a, F(a)) = G(KeyOf(a)) /\ Post(a, G(KeyOf(a))) = F(a)

VARIABLES cache,      \* a function whose domain is the set of keys currently held
          last        \* [a |-> arguments of the last call, r |-> what it returned] or "none"

Init == cache = [k \in {} |-> {}] /\ last = "none"
Call(a) ==
  IF KeyOf(a) \in DOMAIN cache
  THEN /\ last' = [a |-> a, r |-> Post(a, cache[KeyOf(a)])]                       \* hit
       /\ cache' = cache
  ELSE /\ last' = [a |-> a, r |-> F(a)]                                            \* miss: compute, store
       /\ cache' = [k \in DOMAIN cache \cup {KeyOf(a)} |-> IF k = KeyOf(a) THEN Pre(a, F(a)) ELSE cache[k]]
Lose == /\ \E S \in SUBSET DOMAIN cache : cache' = [k \in S |-> cache[k]]          \* eviction, overwrite, growth: anything may go
        /\ last' = last
Next == Lose \/ \E a \in Args : Call(a)
vars == <<cache, last>>
Spec == Init /\ [][Next]_vars

Coherent == \A k \in DOMAIN cache : k \in Keys /\ cache[k] = G(k)
Transparent == last # "none" => last.r = F(last.a)
Inv == Coherent /\ (last = "none" \/ (last.a \in Args /\ last.r = F(last.a)))

THEOREM InitOK == Init => Inv
  BY DEF Init, Inv, Coherent

THEOREM StepOK == Inv /\ [Next]_vars => Inv'
<1> SUFFICES ASSUME Inv, [Next]_vars PROVE Inv'
    OBVIOUS
<1>1. CASE Lose
    BY <1>1 DEF Lose, Inv, Coherent
<1>2. ASSUME NEW a \in Args, Call(a) PROVE Inv'
  <2>1. CASE KeyOf(a) \in DOMAIN cache
      BY <1>2, <2>1, KeySound, KeyType DEF Call, Inv, Coherent
  <2>2. CASE KeyOf(a) \notin DOMAIN cache
      BY <1>2, <2>2, KeySound, KeyType DEF Call, Inv, Coherent
  <2> QED BY <2>1, <2>2
<1>3. CASE UNCHANGED vars
    BY <1>3 DEF vars, Inv, Coherent
<1> QED BY <1>1, <1>2, <1>3 DEF Next

THEOREM Spec => []Transparent
<1>1. Spec => []Inv
    BY InitOK, StepOK, PTL DEF Spec
<1>2. Inv => Transparent
    BY DEF Inv, Transparent
<1> QED BY <1>1, <1>2, PTL
=============================================================================
