SPECIFICATION Spec
CONSTANTS
  NV = 4
  Ord <- Ord4321
  AsCoded = FALSE
INVARIANT SmoothSound
CHECK_DEADLOCK FALSE
