SPECIFICATION GSpec
CONSTANTS
  Keys = {1, 2, 3}
  H = 2
  MaxCap = 64
  GrowAsCoded = FALSE
  ByHash = FALSE
  Depth = 6
  Caps = {1, 2}
INVARIANT Emit
CHECK_DEADLOCK FALSE
