SPECIFICATION FSpec
CONSTANTS
  NN = 3
  NL = 3
  SkipMarkOnDontCare = FALSE
INVARIANT Pure
INVARIANT ScratchEmpty
CHECK_DEADLOCK FALSE
