---------------------------- MODULE MC_OrderAlgo ----------------------------
(* min_fill_order and force_order as transcribed, over every CNF of a positional family (walked prefix by prefix) *)
EXTENDS OrderAlgo
CONSTANTS NVars, Family
VARIABLE cnf
Lits == {x \in (0 - NVars) .. NVars : x # 0}
(* clauses as Cnf::new stores them: sorted by label, x and -x may both occur *)
Cl(w) == {c \in [1 .. w -> Lits] : \A i, j \in 1 .. w : i < j => (AbsL(c[i]) < AbsL(c[j]) \/ (AbsL(c[i]) = AbsL(c[j]) /\ c[i] < c[j]))}
Strict(w) == {c \in [1 .. w -> Lits] : \A i, j \in 1 .. w : i < j => AbsL(c[i]) < AbsL(c[j])}
PosCl(w) == {c \in Strict(w) : \A i \in 1 .. w : c[i] > 0}        \* one polarity: the graph / the centres ignore signs
F4 == << PosCl(1) \cup PosCl(2) \cup PosCl(3), PosCl(2) \cup PosCl(3), PosCl(2) \cup PosCl(3), PosCl(2) >>
F5 == << PosCl(2) \cup PosCl(3), PosCl(2), PosCl(2), PosCl(2) \cup PosCl(3), PosCl(2) >>
F3q == << Cl(1) \cup Cl(2) \cup Cl(3), Cl(2), PosCl(2) >>
F4q == << PosCl(2) \cup PosCl(3), PosCl(2), PosCl(2) \cup PosCl(3) >>
F3t == << Cl(1) \cup Cl(2) \cup Cl(3), Cl(2), Strict(2) >>
Init == cnf \in {<<c>> : c \in Family[1]}
Next == /\ Len(cnf) < Len(Family)
        /\ \E c \in Family[Len(cnf) + 1] : cnf' = Append(cnf, c)
Spec == Init /\ [][Next]_cnf
Sound == MinFillSoundFor(cnf, NVars) /\ ForceSoundFor(cnf, NVars)
=============================================================================
