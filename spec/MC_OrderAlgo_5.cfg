SPECIFICATION Spec
CONSTANTS
  NVars = 5
  Family <- F5
INVARIANT Sound
CHECK_DEADLOCK FALSE
