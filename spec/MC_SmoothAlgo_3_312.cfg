SPECIFICATION Spec
CONSTANTS
  NV = 3
  Ord <- Ord312
  AsCoded = FALSE
INVARIANT SmoothSound
CHECK_DEADLOCK FALSE
