SPECIFICATION SSpec
CONSTANTS
  NV = 3
  LV = {0, 2}
  RV = {1}
INVARIANT SkipTrimOK
CHECK_DEADLOCK FALSE
