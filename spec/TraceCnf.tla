------------------------------ MODULE TraceCnf ------------------------------
(***************************************************************************)
(* L1 + L3 for C15: CNF-side utilities against the set-theoretic           *)
(* definitions of CnfSem, and the incremental residual hasher as "some     *)
(* function of the residual": across any push / decide / pop history, two  *)
(* partial assignments that falsify no clause must get equal hashes if     *)
(* their unsatisfied non-unit clauses restricted to unassigned literals    *)
(* coincide (clause by clause), and - the prime product fitting 128 bits   *)
(* by construction of the inputs - equal hashes only for equal residuals.  *)
(***************************************************************************)
EXTENDS Json, IOUtils, TLC
Rec == ndJsonDeserialize(IOEnv.TRACE)
NV == Rec[1].nmax
PD == 6
INSTANCE CnfAll
VARIABLES l, hcnf, byRes, byHash, pmA, pmB
vars == <<l, hcnf, byRes, byHash, pmA, pmB>>

SetsOf(cnf) == [i \in 1 .. Len(cnf) |-> LitSet(cnf[i])]
ToSet(s) == {s[i] : i \in 1 .. Len(s)}
NonUnit(cnf) == {i \in 1 .. Len(cnf) : Len(cnf[i]) > 1}
PmSet(pm, v, b) == [pm EXCEPT ![v + 1] = b]
Lits2Big(e) == TRUE

Init == l = 2 /\ hcnf = << >> /\ byRes = << >> /\ byHash = << >> /\ pmA = << >> /\ pmB = << >>

FalsifiesNone(cnf, pm) == \A i \in 1 .. Len(cnf) : ~ClauseFalsified(pm, cnf[i])

EventOK(e) ==
  CASE e.ev = "cnf_new" ->
         /\ Len(e.out) = Len(e.in)
         /\ \A i \in 1 .. Len(e.in) : LitSet(e.out[i]) = LitSet(e.in[i])
         /\ e.nv = MaxVar(e.in) + 1
         \* the DIMACS constructor on the same clause list: the same clause sets
         /\ "via_dimacs_panic" \notin DOMAIN e
         /\ (IF "via_dimacs" \in DOMAIN e THEN SetsOf(e.via_dimacs) = SetsOf(e.out) ELSE TRUE)
    [] e.ev = "cnf_eval" -> e.val = (\A i \in 1 .. Len(e.cnf) : ClauseTrue(e.asg, e.cnf[i]))
    [] e.ev = "cnf_satp" -> e.val = (\A i \in 1 .. Len(e.cnf) : ClauseSat(e.pm, e.cnf[i]))
    [] e.ev = "cnf_cond" ->
         /\ SetsOf(e.out) = SetsOf(CondCnf(e.cnf, e.lit))
         /\ e.nv = MaxVar(e.out) + 1
    [] e.ev = "cnf_misc" ->
         LET cvars(c) == {LitVar(x) : x \in LitSet(c)}
             allv == UNION {cvars(e.cnf[i]) : i \in 1 .. Len(e.cnf)}
             \* one vertex per variable 0 .. nv-1; a clique (with its loops, as coded: j runs from i) per clause
             E == UNION {{<<IF a < b THEN a ELSE b, IF a < b THEN b ELSE a>> : a \in cvars(e.cnf[i]), b \in cvars(e.cnf[i])} : i \in 1 .. Len(e.cnf)}
         IN /\ \A v \in 0 .. (Len(e.in) - 1) : e.in[v + 1] = (v \in allv)
            /\ e.nodes = e.nv
            /\ {<<e.edges[i][1], e.edges[i][2]>> : i \in 1 .. Len(e.edges)} = E /\ Len(e.edges) = Cardinality(E)
    [] e.ev = "cnf_wmc" ->
         /\ e.val = Comps(WMC(e.sr, e.p, EvalCnf(e.cnf), e.w, WX(e.wexp, e.nv), e.nv), e.nv * e.wexp)
         /\ (IF "den" \in DOMAIN e THEN e.den = 1 ELSE TRUE)
    [] e.ev = "pm_new" -> e.a = [i \in 1 .. Len(e.a_in) |-> e.a_in[i]] /\ e.b = [i \in 1 .. Len(e.b_in) |-> e.b_in[i]]
    [] e.ev = "pm_set" -> e.a = PmSet(pmA, e.v, IF e.b THEN 1 ELSE 0)
    [] e.ev = "pm_unset" -> e.a = PmSet(pmA, e.v, -1)
    [] e.ev = "pm_q" ->
         /\ e.get = pmA[LitVar(e.lit) + 1]
         /\ e.implied = (LitVal(pmA, e.lit) = "T")
         /\ e.negimplied = (LitVal(pmA, e.lit) = "F")
         /\ e.isset = (pmA[LitVar(e.lit) + 1] # -1)
    [] e.ev = "pm_iter" ->
         /\ ToSet(e.lits) = AssignedLits(pmA) /\ Len(e.lits) = Cardinality(AssignedLits(pmA))
         /\ ToSet(e.diff) = AssignedLits(pmA) \ AssignedLits(pmB) /\ Len(e.diff) = Cardinality(ToSet(e.diff))
    [] e.ev = "pm_litvec" ->
         \* later literals override earlier ones on the same variable
         /\ Len(e.m) = e.n
         /\ \A v \in 0 .. (e.n - 1) :
              LET occ == {i \in 1 .. Len(e.lits) : LitVar(e.lits[i]) = v} IN
              IF occ = {} THEN e.m[v + 1] = -1
              ELSE LET last == CHOOSE i \in occ : \A j \in occ : j <= i IN
                   e.m[v + 1] = (IF LitPol(e.lits[last]) THEN 1 ELSE 0)
    [] e.ev = "lit" ->
         /\ e.rlabel = e.label /\ e.rpol = e.pol
         /\ e.nlabel = e.label /\ e.npol = ~e.pol
         /\ e.imp_t = (e.pol = e.opol) /\ e.imp_f = (e.pol # e.opol)
    [] e.ev = "varset" ->
         LET RECURSIVE Apply(_, _, _)
             Apply(ops, i, acc) == IF i > Len(ops) THEN acc
                                   ELSE Apply(ops, i + 1, IF ops[i] >= 1000 THEN acc \ {ops[i] - 1000} ELSE acc \cup {ops[i]})
             S == Apply(e.sops, 1, {})
             T == Apply(e.tops, 1, {})
         IN /\ ToSet(e.s) = S /\ ToSet(e.t) = T /\ Len(e.s) = Cardinality(S)
            /\ ToSet(e.union) = S \cup T /\ ToSet(e.minus) = S \ T /\ ToSet(e.inter) = S \cap T /\ ToSet(e.diff) = S \ T
            /\ e.contains = (e.q \in S) /\ e.len = Cardinality(S) /\ e.empty = (S = {})
            /\ ToSet(e.union_with) = S \cup T /\ ToSet(e.intersect) = S \cap T /\ Len(e.intersect) = Cardinality(S \cap T)
    \* equality (and hashing) of variable sets and partial models is equality of their contents, whatever constructor, declared size
    \* or insert / remove history produced them
    [] e.ev = "vs_eq" ->
         /\ \A i, j \in 1 .. Len(e.s) : /\ e.eq[i][j] = (ToSet(e.s[i]) = ToSet(e.s[j]))
                                         /\ (ToSet(e.s[i]) = ToSet(e.s[j]) => e.heq[i][j])
         /\ e.distinct = Cardinality({ToSet(e.s[i]) : i \in 1 .. Len(e.s)})
    [] e.ev = "pm_eq" -> \A i, j \in 1 .. Len(e.m) : e.eq[i][j] = (e.m[i] = e.m[j])
    [] e.ev = "pm_total" -> e.m = [i \in 1 .. Len(e.in) |-> IF e.in[i] THEN 1 ELSE 0]
    [] e.ev \in {"h_new", "h_push", "h_pop", "h_decide", "h_burst"} -> TRUE     \* h_burst: n rounds of push / decide / pop back to the same state
    [] e.ev = "h_hash" ->
         /\ e.h1 = e.h2
         /\ IF FalsifiesNone(hcnf, e.pm)
              THEN LET ri == ResidualIdx(hcnf, e.pm, NonUnit(hcnf))
                       rs == {ri[i] : i \in DOMAIN ri}
                   IN /\ (IF ri \in DOMAIN byRes THEN byRes[ri] = e.h1 ELSE TRUE)        \* same residual => same hash
                      /\ (IF e.h1 \in DOMAIN byHash THEN byHash[e.h1] = rs ELSE TRUE)    \* same hash => same residual
              ELSE TRUE

(* L2 (MODEL-DRIFT only): the numeric value HasherAlgo predicts - the k-th literal occurrence of the clause list owns *)
(* the k-th prime, and the hash is the product of the primes of the occurrences kept (clauses of >= 2 literals without *)
(* an implied literal; literals that are not neg-implied), computed here on base-10^4 limbs                            *)
FirstPrimes == <<2, 3, 5, 7, 11, 13, 17, 19, 23, 29, 31, 37, 41, 43, 47, 53, 59, 61, 67, 71, 73, 79, 83, 89, 97, 101, 103, 107, 109, 113,
                 127, 131, 137, 139, 149, 151, 157, 163, 167, 173, 179, 181, 191, 193, 197, 199, 211, 223, 227, 229>>
RECURSIVE OccBase(_, _)
OccBase(cnf, i) == IF i <= 1 THEN 0 ELSE Len(cnf[i - 1]) + OccBase(cnf, i - 1)
KeptPrimes(cnf, pm) ==
  UNION {{FirstPrimes[OccBase(cnf, i) + j] : j \in {k \in 1 .. Len(cnf[i]) : LitVal(pm, cnf[i][k]) # "F"}} :
           i \in {k \in NonUnit(cnf) : ~ClauseSat(pm, cnf[k])}}
RECURSIVE ProdLimbs(_)
ProdLimbs(S) == IF S = {} THEN <<1>> ELSE LET x == CHOOSE y \in S : TRUE IN LMul(<<x>>, ProdLimbs(S \ {x}))
TotalOcc(cnf) == OccBase(cnf, Len(cnf) + 1)
HashDrift(e) == TotalOcc(hcnf) <= Len(FirstPrimes) /\ e.h1 # ProdLimbs(KeptPrimes(hcnf, e.pm))

Step ==
  /\ l <= Len(Rec)
  /\ l' = l + 1
  /\ LET e == Rec[l] IN
     /\ "panic" \notin DOMAIN e /\ "inexact" \notin DOMAIN e
     /\ EventOK(e)
     /\ (IF e.ev = "h_hash" /\ "nol2" \notin DOMAIN e /\ HashDrift(e) THEN PrintT(<<"DRIFT", l>>) ELSE TRUE)
     /\ hcnf' = IF e.ev = "h_new" THEN e.cnf ELSE hcnf
     /\ pmA' = IF e.ev \in {"pm_new", "pm_set", "pm_unset"} THEN e.a ELSE pmA
     /\ pmB' = IF e.ev = "pm_new" THEN e.b ELSE pmB
     /\ IF e.ev = "h_new" THEN byRes' = << >> /\ byHash' = << >>
        ELSE IF e.ev = "h_hash" /\ FalsifiesNone(hcnf, e.pm)
        THEN LET ri == ResidualIdx(hcnf, e.pm, NonUnit(hcnf))
                 rs == {ri[i] : i \in DOMAIN ri}
             IN /\ byRes' = IF ri \in DOMAIN byRes THEN byRes ELSE byRes @@ (ri :> e.h1)
                /\ byHash' = IF e.h1 \in DOMAIN byHash THEN byHash ELSE byHash @@ (e.h1 :> rs)
        ELSE UNCHANGED <<byRes, byHash>>

Spec == Init /\ [][Step]_vars
Accepted ==
  LET d == TLCGet("stats").diameter IN
  IF d = Len(Rec) THEN TRUE ELSE PrintT(<<"REJECT", d + 1>>) /\ FALSE
=============================================================================
