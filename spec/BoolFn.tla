------------------------------- MODULE BoolFn -------------------------------
(***************************************************************************)
(* L0 vocabulary: Boolean functions over the variables 0 .. NV-1.          *)
(* An assignment is an integer 0 .. 2^NV - 1 (bit v = value of variable v) *)
(* and a Boolean function is the SET of its satisfying assignments.  This  *)
(* is the denotational oracle of every trace specification: nothing here   *)
(* mentions nodes, orders, caches or tables.                               *)
(***************************************************************************)
EXTENDS Naturals, Integers, Sequences, FiniteSets

CONSTANT NV                       \* size of the variable universe

P2 == <<1, 2, 4, 8, 16, 32, 64, 128, 256, 512, 1024>>
Pow2(v) == P2[v + 1]
Assign == 0 .. (Pow2(NV) - 1)
Vars == 0 .. (NV - 1)

Bit(a, v) == (a \div Pow2(v)) % 2 = 1
SetBit(a, v, b) == IF Bit(a, v) = b THEN a ELSE IF b THEN a + Pow2(v) ELSE a - Pow2(v)

TrueFn == Assign
FalseFn == {}
Lit(v, b) == {a \in Assign : Bit(a, v) = b}
Neg(f) == Assign \ f
And(f, g) == f \cap g
Or(f, g) == f \cup g
Ite(f, g, h) == (f \cap g) \cup ((Assign \ f) \cap h)
Iff(f, g) == Ite(f, g, Neg(g))
Xor(f, g) == Ite(f, Neg(g), g)
Cond(f, v, b) == {a \in Assign : SetBit(a, v, b) \in f}
Exists(f, v) == Cond(f, v, TRUE) \cup Cond(f, v, FALSE)
(* the definition documented in builder/mod.rs: exists v. (v <=> g) /\ f *)
Compose(f, v, g) == Exists(And(Iff(Lit(v, TRUE), g), f), v)
DependsOn(f, v) == Cond(f, v, TRUE) # Cond(f, v, FALSE)
Support(f) == {v \in Vars : DependsOn(f, v)}

(* partial models are tuples indexed by variable+1 with -1 unset, 0 false, 1 true *)
RECURSIVE CondModelFrom(_, _, _)
CondModelFrom(f, pm, i) ==
  IF i > Len(pm) THEN f
  ELSE CondModelFrom(IF pm[i] = -1 THEN f ELSE Cond(f, i - 1, pm[i] = 1), pm, i + 1)
CondModel(f, pm) == CondModelFrom(f, pm, 1)
AgreesWith(a, pm) == \A i \in 1 .. Len(pm) : pm[i] = -1 \/ (Bit(a, i - 1) = (pm[i] = 1))

(* literals of clauses are non-zero integers: +(v+1) / -(v+1) *)
LitVar(l) == IF l > 0 THEN l - 1 ELSE (0 - l) - 1
LitPol(l) == l > 0
LitTrue(a, l) == Bit(a, LitVar(l)) = LitPol(l)
ClauseTrue(a, c) == \E j \in 1 .. Len(c) : LitTrue(a, c[j])
EvalCnf(cnf) == {a \in Assign : \A i \in 1 .. Len(cnf) : ClauseTrue(a, cnf[i])}

(* expression / plan trees: <<"lit", v, pol>>, <<"t">>, <<"f">>, <<"not", e>>,        *)
(* <<"and"|"or"|"iff"|"xor", e1, e2>>, <<"ite", g, t, e>>                              *)
RECURSIVE EvalExpr(_)
EvalExpr(e) ==
  CASE e[1] = "lit" -> Lit(e[2], e[3])
    [] e[1] = "t"   -> TrueFn
    [] e[1] = "f"   -> FalseFn
    [] e[1] = "not" -> Neg(EvalExpr(e[2]))
    [] e[1] = "and" -> And(EvalExpr(e[2]), EvalExpr(e[3]))
    [] e[1] = "or"  -> Or(EvalExpr(e[2]), EvalExpr(e[3]))
    [] e[1] = "iff" -> Iff(EvalExpr(e[2]), EvalExpr(e[3]))
    [] e[1] = "xor" -> Xor(EvalExpr(e[2]), EvalExpr(e[3]))
    [] e[1] = "ite" -> Ite(EvalExpr(e[2]), EvalExpr(e[3]), EvalExpr(e[4]))

RECURSIVE AndAll(_, _), OrAll(_, _)
AndAll(fs, i) == IF i > Len(fs) THEN TrueFn ELSE And(fs[i], AndAll(fs, i + 1))
OrAll(fs, i) == IF i > Len(fs) THEN FalseFn ELSE Or(fs[i], OrAll(fs, i + 1))

=============================================================================
