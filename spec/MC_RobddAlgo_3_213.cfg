SPECIFICATION Spec
CONSTANTS
  NV = 3
  Ord <- Ord213
INVARIANT KeySound
INVARIANT CondSound
CHECK_DEADLOCK FALSE
