SPECIFICATION Spec
CONSTANTS
  NN = 3
  NL = 3
  FreezeFirst = TRUE
INVARIANT Faithful
CHECK_DEADLOCK FALSE
