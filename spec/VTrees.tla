------------------------------- MODULE VTrees -------------------------------
(***************************************************************************)
(* L0 vocabulary: vtrees as nested tuples <<"leaf", v>> / <<"node", l, r>>. *)
(* The in-order numbering (0-based) is the index scheme of VTreeManager:   *)
(* SubAt(t, i) is the subtree whose root has in-order index i.             *)
(***************************************************************************)
EXTENDS Naturals, Integers, Sequences, FiniteSets

IsLeafV(t) == t[1] = "leaf"
RECURSIVE VVars(_), Flatten(_), NumLeaves(_), LeafSeq(_)
VVars(t) == IF IsLeafV(t) THEN {t[2]} ELSE VVars(t[2]) \cup VVars(t[3])
Flatten(t) == IF IsLeafV(t) THEN <<t>> ELSE Flatten(t[2]) \o <<t>> \o Flatten(t[3])
NumLeaves(t) == IF IsLeafV(t) THEN 1 ELSE NumLeaves(t[2]) + NumLeaves(t[3])
LeafSeq(t) == IF IsLeafV(t) THEN <<t[2]>> ELSE LeafSeq(t[2]) \o LeafSeq(t[3])
NumNodes(t) == Len(Flatten(t))
SubAt(t, i) == Flatten(t)[i + 1]
(* in-order index of the root of t when t starts at offset off *)
RootIndex(t, off) == IF IsLeafV(t) THEN off ELSE off + Len(Flatten(t[2]))
(* the index range [lo, hi] covered by the subtree whose root has index i *)
RECURSIVE SpanOf(_, _, _)
SpanOf(t, off, i) ==
  LET r == RootIndex(t, off) IN
  IF i = r THEN <<off, off + Len(Flatten(t)) - 1>>
  ELSE IF i < r THEN SpanOf(t[2], off, i) ELSE SpanOf(t[3], r + 1, i)
IsAncestorOrSelf(t, a, d) == LET s == SpanOf(t, 0, a) IN s[1] <= d /\ d <= s[2]
(* least common ancestor: the deepest (smallest span) index covering both *)
Lca(t, a, b) ==
  CHOOSE c \in 0 .. (NumNodes(t) - 1) :
    /\ IsAncestorOrSelf(t, c, a) /\ IsAncestorOrSelf(t, c, b)
    /\ \A c2 \in 0 .. (NumNodes(t) - 1) :
          (IsAncestorOrSelf(t, c2, a) /\ IsAncestorOrSelf(t, c2, b)) => IsAncestorOrSelf(t, c2, c)
(* the same tables computed in one pass (deep trees: the recursive SpanOf / Flatten above are cubic on a 90-leaf spine):
   SpanSeq(t, off)[i + 1] = <<lo, hi>> of the subtree whose root has in-order index off + i *)
RECURSIVE SpanSeq(_, _)
SpanSeq(t, off) ==
  IF IsLeafV(t) THEN << <<off, off>> >>
  ELSE LET L == SpanSeq(t[2], off)
           r == off + Len(L)
           R == SpanSeq(t[3], r + 1)
       IN L \o << <<off, r + Len(R)>> >> \o R
LcaS(spans, a, b) ==
  LET S == {c \in 1 .. Len(spans) : spans[c][1] <= a /\ a <= spans[c][2] /\ spans[c][1] <= b /\ b <= spans[c][2]}
      w(c) == spans[c][2] - spans[c][1]
  IN (CHOOSE c \in S : \A d \in S : w(c) <= w(d)) - 1
VarIndex(t, v) == CHOOSE i \in 0 .. (NumNodes(t) - 1) : SubAt(t, i) = <<"leaf", v>>
NoRepeatedLeaf(t) == Cardinality(VVars(t)) = NumLeaves(t)
=============================================================================
