SPECIFICATION Spec
CONSTANTS
  NV = 3
  Ord <- Ord321
INVARIANT KeySound
INVARIANT CondSound
CHECK_DEADLOCK FALSE
