SPECIFICATION HSpec
CONSTANTS
  HCnf <- Chain
  HNV = 4
  MaxPush = 2
  PerOccurrence = TRUE
INVARIANT Incremental
INVARIANT DenotationalOnce
CHECK_DEADLOCK FALSE
