------------------------------ MODULE OrderAlgo ------------------------------
(***************************************************************************)
(* L2 for C14 (orders): the two heuristic variable orders of               *)
(* src/repr/cnf.rs transcribed as coded.                                   *)
(*                                                                         *)
(*  min_fill_order   interaction graph (a clique per clause), repeatedly   *)
(*                   eliminate the FIRST node (in the graph library's      *)
(*                   index order) with the fewest fill edges; petgraph's   *)
(*                   remove_node moves the LAST node into the freed index  *)
(*                   (swap-remove), which decides later ties.              *)
(*  force_order      FORCE: centres of gravity of the clauses, average per *)
(*                   variable (0 for a variable in no clause), stable sort *)
(*                   by that average, repeat while the average clause span *)
(*                   improves by at least 1; the table handed to           *)
(*                   VarOrder::new is label -> position (named deviation   *)
(*                   ForceInverse: VarOrder::new reads its argument as     *)
(*                   position -> label, so the resulting order is the      *)
(*                   INVERSE of the permutation FORCE computed - still a    *)
(*                   permutation, which is all C14 asks for).              *)
(* The code computes centres in f64; here they are exact rationals scaled  *)
(* by D = 840 (clause widths 1..8). Two different rationals of this shape  *)
(* differ by far more than f64 rounding, so the model can disagree with    *)
(* the code only on EXACT ties between quantities that f64 does not        *)
(* represent exactly: Fragile() names those inputs and the trace           *)
(* specification abstains on them.                                         *)
(* Literals are +-(v+1); a CNF is a sequence of clauses (sequences) as     *)
(* stored by Cnf::new (sorted by label, exact repetitions removed).        *)
(***************************************************************************)
EXTENDS Integers, Sequences, FiniteSets

AbsL(x) == IF x < 0 THEN 0 - x ELSE x
LV(x) == AbsL(x) - 1
ClVars(c) == {LV(c[i]) : i \in 1 .. Len(c)}
RECURSIVE SumSeq(_)
SumSeq(s) == IF s = << >> THEN 0 ELSE Head(s) + SumSeq(Tail(s))
Pairs(S) == {p \in SUBSET S : Cardinality(p) = 2}
IsPerm(s, n) == Len(s) = n /\ {s[i] : i \in 1 .. n} = 0 .. (n - 1)

(* ------------------------------ min-fill ------------------------------ *)
(* self loops (the code adds a-a edges) never change a fill count and are left out *)
IGraph(cnf) == UNION {Pairs(ClVars(cnf[i])) : i \in 1 .. Len(cnf)}
Nbrs(E, v) == {u \in UNION E : u # v /\ {u, v} \in E}
NumFill(E, v) == Cardinality({p \in Pairs(Nbrs(E, v)) : p \notin E})
Eliminate(E, v) == {e \in E : v \notin e} \cup Pairs(Nbrs(E, v))
SwapRemove(s, i) ==
  LET n == Len(s) IN
  IF i = n THEN SubSeq(s, 1, n - 1) ELSE [SubSeq(s, 1, n - 1) EXCEPT ![i] = s[n]]
(* Iterator::min_by returns the FIRST minimum *)
FirstMin(nodes, E) ==
  CHOOSE i \in 1 .. Len(nodes) :
    \A j \in 1 .. Len(nodes) :
      \/ NumFill(E, nodes[i]) < NumFill(E, nodes[j])
      \/ NumFill(E, nodes[i]) = NumFill(E, nodes[j]) /\ i <= j
RECURSIVE MinFillRec(_, _, _)
MinFillRec(nodes, E, acc) ==
  IF nodes = << >> THEN acc
  ELSE LET i == FirstMin(nodes, E)
       IN MinFillRec(SwapRemove(nodes, i), Eliminate(E, nodes[i]), Append(acc, nodes[i]))
MinFill(cnf, nv) == MinFillRec([i \in 1 .. nv |-> i - 1], IGraph(cnf), << >>)

(* total number of fill edges of an elimination order *)
RECURSIVE FillOf(_, _)
FillOf(E, ord) == IF ord = << >> THEN 0 ELSE NumFill(E, Head(ord)) + FillOf(Eliminate(E, Head(ord)), Tail(ord))
PermsOf(n) == {p \in [1 .. n -> 0 .. (n - 1)] : \A i, j \in 1 .. n : i # j => p[i] # p[j]}
(* design-level facts TLC checks for every graph of a family:                                              *)
(*   the result is a permutation; every step takes a node of least fill (by construction of FirstMin);     *)
(*   a graph that has ANY elimination order without fill edges (a chordal graph) is eliminated without     *)
(*   fill edges - the greedy choice never leaves the perfect orders                                        *)
MinFillSoundFor(cnf, nv) ==
  LET o == MinFill(cnf, nv)
      E == IGraph(cnf)
  IN /\ IsPerm(o, nv)
     /\ ((\E p \in PermsOf(nv) : FillOf(E, p) = 0) => FillOf(E, o) = 0)

(* -------------------------------- FORCE -------------------------------- *)
D == 840
Pos(l2p, x) == l2p[LV(x) + 1]
RECURSIVE MinPos(_, _, _), MaxPos(_, _, _)
MinPos(c, l2p, acc) == IF c = << >> THEN acc ELSE MinPos(Tail(c), l2p, IF Pos(l2p, Head(c)) < acc THEN Pos(l2p, Head(c)) ELSE acc)
MaxPos(c, l2p, acc) == IF c = << >> THEN acc ELSE MaxPos(Tail(c), l2p, IF Pos(l2p, Head(c)) > acc THEN Pos(l2p, Head(c)) ELSE acc)
(* average_span * number of clauses (min starts at the number of variables, max at 0, as coded; clauses are non-empty) *)
SpanTotal(cnf, l2p) == SumSeq([i \in 1 .. Len(cnf) |-> MaxPos(cnf[i], l2p, 0) - MinPos(cnf[i], l2p, Len(l2p))])
(* centre of gravity of a clause, scaled by D: every literal OCCURRENCE counts *)
Cog(c, l2p) == SumSeq([i \in 1 .. Len(c) |-> Pos(l2p, c[i])]) * (D \div Len(c))
Occ(c, v) == Cardinality({i \in 1 .. Len(c) : LV(c[i]) = v})
Tot(cnf, l2p, v) == SumSeq([i \in 1 .. Len(cnf) |-> Occ(cnf[i], v) * Cog(cnf[i], l2p)])
Cnt(cnf, v) == SumSeq([i \in 1 .. Len(cnf) |-> Occ(cnf[i], v)])
(* avg(u) < avg(v), avg = Tot / Cnt, 0 when the variable occurs nowhere *)
AvgLess(cnf, l2p, u, v) ==
  LET cu == Cnt(cnf, u)  cv == Cnt(cnf, v)
      tu == IF cu = 0 THEN 0 ELSE Tot(cnf, l2p, u)
      tv == IF cv = 0 THEN 0 ELSE Tot(cnf, l2p, v)
      du == IF cu = 0 THEN 1 ELSE cu
      dv == IF cv = 0 THEN 1 ELSE cv
  IN tu * dv < tv * du
AvgEq(cnf, l2p, u, v) == ~AvgLess(cnf, l2p, u, v) /\ ~AvgLess(cnf, l2p, v, u)
(* stable sort of the labels 0 .. n-1 by average: rank = number of labels that go before *)
Before(cnf, l2p, u, v) == AvgLess(cnf, l2p, u, v) \/ (AvgEq(cnf, l2p, u, v) /\ u < v)
ForceStep(cnf, l2p) ==
  LET n == Len(l2p) IN [i \in 1 .. n |-> Cardinality({u \in 0 .. (n - 1) : Before(cnf, l2p, u, i - 1)})]
RECURSIVE ForceRec(_, _, _)
ForceRec(cnf, l2p, iter) ==
  LET prev == SpanTotal(cnf, l2p)
      nxt == ForceStep(cnf, l2p)
      cur == SpanTotal(cnf, nxt)
  IN IF prev - cur < Len(cnf) THEN [l2p |-> nxt, iters |-> iter] ELSE ForceRec(cnf, nxt, iter + 1)
ForceRun(cnf, nv) == ForceRec(cnf, [i \in 1 .. nv |-> i - 1], 1)
(* what VarOrder::new makes of it: pos_to_var = the table it was given (ForceInverse) *)
Force(cnf, nv) == ForceRun(cnf, nv).l2p

PowerOfTwo(k) == k \in {1, 2, 4, 8, 16, 32, 64}
(* inputs on which the f64 computation may order an exact tie either way (or stop one iteration earlier / later) *)
RECURSIVE FragileRec(_, _)
ExactCnf(cnf) == /\ \A i \in 1 .. Len(cnf) : PowerOfTwo(Len(cnf[i]))
                 /\ \A v \in UNION {ClVars(cnf[i]) : i \in 1 .. Len(cnf)} : PowerOfTwo(Cnt(cnf, v))
FragileRec(cnf, l2p) ==
  LET n == Len(l2p)
      prev == SpanTotal(cnf, l2p)
      nxt == ForceStep(cnf, l2p)
      cur == SpanTotal(cnf, nxt)
      tie == \E u, v \in 0 .. (n - 1) : u # v /\ Cnt(cnf, u) > 0 /\ Cnt(cnf, v) > 0 /\ AvgEq(cnf, l2p, u, v)
      edge == prev - cur = Len(cnf) /\ ~PowerOfTwo(Len(cnf))
  IN tie \/ edge \/ (IF prev - cur < Len(cnf) THEN FALSE ELSE FragileRec(cnf, nxt))
Fragile(cnf, nv) == ~ExactCnf(cnf) /\ FragileRec(cnf, [i \in 1 .. nv |-> i - 1])
Applicable(cnf) == cnf # << >> /\ \A i \in 1 .. Len(cnf) : Len(cnf[i]) \in 1 .. 8

(* design-level facts: a permutation comes out; the loop runs at most (initial span total / number of clauses) + 1 times *)
ForceSoundFor(cnf, nv) ==
  Applicable(cnf) =>
    LET r == ForceRun(cnf, nv)
    IN /\ IsPerm(r.l2p, nv)
       /\ r.iters * Len(cnf) <= SpanTotal(cnf, [i \in 1 .. nv |-> i - 1]) + Len(cnf)
=============================================================================
