----------------------------- MODULE MC_RobddAlgo -----------------------------
(* Exhaustive check of the RobddAlgo lemmas over all functions of NV variables and every order. *)
EXTENDS RobddAlgo, Json
VARIABLE f
Ord12 == <<0, 1>>
Ord21 == <<1, 0>>
Ord123 == <<0, 1, 2>>
Ord132 == <<0, 2, 1>>
Ord213 == <<1, 0, 2>>
Ord231 == <<1, 2, 0>>
Ord312 == <<2, 0, 1>>
Ord321 == <<2, 1, 0>>
AllF == SUBSET Assign
Perms == {p \in [1 .. NV -> Vars] : \A i, j \in 1 .. NV : i # j => p[i] # p[j]}
(* the lattice of subsets is walked one element at a time so that TLC's workers share the invariant evaluations *)
Init == f = {}
Next == \E a \in Assign : f' = f \cup {a}
Spec == Init /\ [][Next]_f
(* one initial state per f: the quantification over (g, h) is evaluated inside the invariant *)
KeySound == \A g \in AllF, h \in AllF : KeySoundFor(f, g, h) /\ KeyStandardFor(f, g, h)
IteSound == \A g \in AllF, h \in AllF : IteRecSoundFor(f, g, h)
CondSound == \A v \in Vars, b \in BOOLEAN : CondRecSoundFor(f, v, b)
=============================================================================
