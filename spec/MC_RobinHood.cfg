SPECIFICATION Spec
CONSTANTS
  Keys = {1, 2, 3, 4, 5}
  H = 4
  Cap0 = 2
  MaxCap = 8
  GrowAsCoded = FALSE
  ByHash = FALSE
INVARIANT Canonical
INVARIANT NoDup
INVARIANT LenOK
INVARIANT Findable
INVARIANT PslOK
CHECK_DEADLOCK FALSE
