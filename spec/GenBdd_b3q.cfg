SPECIFICATION Spec
CONSTANTS
  NV = 3
  Mode = "binary"
  Sample = 4
  Seed = 0
CHECK_DEADLOCK FALSE
