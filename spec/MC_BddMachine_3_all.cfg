SPECIFICATION Spec
CONSTANTS
  NV = 3
  Ord <- O201
  Slots = 0
  MaxNodes = 4
  MaxCache = 2
  Ops <- BinOps
  GetIgnoresCompl = FALSE
  GetIgnoresKey = FALSE
INVARIANTS ResultOK ShapeOK Canonical CacheSound CacheShape CacheStandard
CHECK_DEADLOCK FALSE
