SPECIFICATION GSpec
CONSTANTS
  NV = 3
  PickAsCoded = FALSE
  MaxDepth = 9
  GDepth = 4
  Family <- Fam3
INVARIANT Emit
CHECK_DEADLOCK FALSE
