------------------------------- MODULE GenMeu -------------------------------
(***************************************************************************)
(* Behaviour generator (spec -> impl) for maximum expected utility: for    *)
(* every function f of NV variables (thinned by Sample), the order Ord,    *)
(* every list of decision variables among the first NV-1 variables of the  *)
(* order (every listing order), the last variable of the order bearing the *)
(* reward, and K weight vectors, TLC prints the expected utility of EVERY  *)
(* assignment of the decision variables (the definition: the utility       *)
(* component of the expected-utility count of f conditioned on the         *)
(* assignment) and their maximum.  Domain as stated in the property:       *)
(* decision variables weigh (1, 0) on both branches, chance variables      *)
(* (k/8, 0) and (1 - k/8, 0), the reward variable (1, 0) / (1, r).         *)
(***************************************************************************)
EXTENDS Counting, Json, TLC, FiniteSets, Sequences
CONSTANTS Ord, Sample, Seed, K
VARIABLE f
Ord123 == <<0, 1, 2>>
Ord132 == <<0, 2, 1>>
Ord213 == <<1, 0, 2>>
Ord231 == <<1, 2, 0>>
Ord312 == <<2, 0, 1>>
Ord321 == <<2, 1, 0>>
Ord1234 == <<0, 1, 2, 3>>
Ord3142 == <<2, 0, 3, 1>>
Ord4321 == <<3, 2, 1, 0>>
(* sampling by the rank of the function among all functions (its truth table read as a binary number): every residue class *)
(* modulo Sample is inhabited, whatever the seed                                                                         *)
Tag(g) == LET RECURSIVE Rank(_)
              Rank(h) == IF h = {} THEN 0 ELSE LET a == CHOOSE x \in h : TRUE IN 2 ^ a + Rank(h \ {a})
          IN ((Rank(g) % 251) * 13 + (Rank(g) \div 251) + Seed) % Sample
Reward == Ord[NV]
Cands == {Ord[i] : i \in 1 .. (NV - 1)}
QLists == UNION {{s \in [1 .. n -> Cands] : \A i, j \in 1 .. n : i # j => s[i] # s[j]} : n \in 1 .. (NV - 1)}
Rnd(a, b, c, m) == (a * 31 + b * 17 + c * 7 + Seed * 11 + (a * b + c) * 5) % m
QIdx(q) == LET RECURSIVE H(_) H(i) == IF i > Len(q) THEN 0 ELSE (q[i] + 1) * i * i + H(i + 1) IN H(1)
InQ(q, v) == \E i \in 1 .. Len(q) : q[i] = v
Wt(g, q, j) == [v \in 1 .. NV |->
                  IF InQ(q, v - 1) THEN << <<8, 0>>, <<8, 0>> >>
                  ELSE IF v - 1 = Reward THEN << <<8, 0>>, <<8, 8 * Rnd(Cardinality(g), j, v, 5)>> >>
                  ELSE LET a == Rnd(j, v + QIdx(q), Cardinality(g), 9) IN << <<a, 0>>, <<8 - a, 0>> >>]
RECURSIVE CondAll(_, _, _, _)
CondAll(g, q, b, i) == IF i > Len(q) THEN g ELSE CondAll(Cond(g, q[i], (b \div Pow2(i - 1)) % 2 = 1), q, b, i + 1)
Score(g, q, w, b) == Comps(UWmc("eu", 0, CondAll(g, q, b, 1), Ord, w, WX(1, NV)), NV)[2]
MaxOf(S) == CHOOSE m \in S : \A x \in S : x <= m
Emit(g) ==
  \A q \in QLists : \A j \in 1 .. K :
    LET w == Wt(g, q, j)
        sc == [b \in 1 .. Pow2(Len(q)) |-> Score(g, q, w, b - 1)]
    IN PrintT(ToJson([op |-> "meu", f |-> g, order |-> Ord, q |-> q, w |-> w, scores |-> sc, opt |-> MaxOf({sc[b] : b \in DOMAIN sc})]))
Init == f \in {g \in SUBSET Assign : Tag(g) = 0}
Next == f' = f /\ Emit(f)
Spec == Init /\ [][Next]_f
=============================================================================
