SPECIFICATION Spec
CONSTANTS
  NVars = 3
  Family <- F3t
INVARIANT Sound
CHECK_DEADLOCK FALSE
