------------------------------ MODULE SmoothAlgo ------------------------------
(***************************************************************************)
(* L2: RobddBuilder::smooth / smooth_helper (src/builder/bdd/robdd.rs).    *)
(*                                                                         *)
(* The argument is a reduced ordered BDD, i.e. a function (as in           *)
(* RobddAlgo); the result is deliberately NOT reduced, so it is modelled   *)
(* as a tree: <<v, lo, hi>> for a decision on variable v, <<-1, f>> for    *)
(* the untouched canonical sub-diagram of f reached below level `total`.   *)
(* Complement edges need no case of their own at this level: the code      *)
(* smooths the regular node and complements the result, and complementing  *)
(* a tree complements its leaves, which is what recursing on Neg(f) gives. *)
(*                                                                         *)
(* AsCoded = TRUE is the helper as originally written (defect D2): a       *)
(* decision node is rebuilt on ITS OWN variable whatever the current level *)
(* is, and only constants receive don't-care nodes.  The model check of    *)
(* that variant must FAIL (regression check of the specification).         *)
(***************************************************************************)
EXTENDS RobddAlgo, Naturals, Sequences

CONSTANT AsCoded

Leaf(f) == <<-1, f>>
Node(v, lo, hi) == <<v, lo, hi>>

RECURSIVE SmoothRec(_, _, _)
SmoothRec(f, cur, total) ==                      \* cur, total: 1-based levels; smooth(f, n) = SmoothRec(f, 1, n)
  IF cur > total THEN Leaf(f)
  ELSE LET var == Ord[cur] IN
       IF ~IsConstF(f) /\ (AsCoded \/ Top(f) = var)
       THEN LET v == Top(f) IN
            Node(v, SmoothRec(Cond(f, v, FALSE), cur + 1, total), SmoothRec(Cond(f, v, TRUE), cur + 1, total))
       ELSE Node(var, SmoothRec(f, cur + 1, total), SmoothRec(f, cur + 1, total))     \* don't-care node

RECURSIVE DenTree(_)
DenTree(t) == IF t[1] = -1 THEN t[2] ELSE Ite(Lit(t[1], TRUE), DenTree(t[3]), DenTree(t[2]))

(* every path tests Ord[1], ..., Ord[n] exactly once and in this order; what hangs below does not mention them *)
RECURSIVE TestsTree(_, _, _)
TestsTree(t, lvl, n) ==
  IF lvl > n THEN t[1] = -1 /\ \A i \in 1 .. n : ~DependsOn(t[2], Ord[i])
  ELSE t[1] = Ord[lvl] /\ TestsTree(t[2], lvl + 1, n) /\ TestsTree(t[3], lvl + 1, n)

(* counting with arbitrary (non-normalised) natural weights: the tree is evaluated bottom-up, paying a weight per *)
(* tested variable; a leaf is the count of its function over the variables below level n                          *)
WLo(v) == <<2, 5, 11, 17>>[v + 1]
WHi(v) == <<3, 7, 13, 19>>[v + 1]
RECURSIVE ProdW(_, _)
ProdW(a, vs) == IF vs = {} THEN 1 ELSE LET v == CHOOSE x \in vs : TRUE IN (IF Bit(a, v) THEN WHi(v) ELSE WLo(v)) * ProdW(a, vs \ {v})
RECURSIVE SumOver(_, _)
SumOver(S, vs) == IF S = {} THEN 0 ELSE LET a == CHOOSE x \in S : TRUE IN ProdW(a, vs) + SumOver(S \ {a}, vs)
Below(n) == {Ord[i] : i \in (n + 1) .. NV}
LeafCount(f, n) == SumOver({a \in f : \A i \in 1 .. n : ~Bit(a, Ord[i])}, Below(n))
RECURSIVE CountTree(_, _)
CountTree(t, n) == IF t[1] = -1 THEN LeafCount(t[2], n)
                   ELSE WLo(t[1]) * CountTree(t[2], n) + WHi(t[1]) * CountTree(t[3], n)
BruteForce(f) == SumOver(f, Vars)

SmoothSoundFor(f, n) ==
  LET t == SmoothRec(f, 1, n) IN
  /\ DenTree(t) = f                                 \* same function
  /\ TestsTree(t, 1, n)                             \* every path tests the first n variables once, in order
  /\ (Support(f) \subseteq {Ord[i] : i \in 1 .. NV} => CountTree(t, n) = BruteForce(f))   \* hence the count is exact
=============================================================================
