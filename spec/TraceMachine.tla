---------------------------- MODULE TraceMachine ----------------------------
(***************************************************************************)
(* L3 for BddMachine: sessions of a real RobddBuilder<AllIteTable> under   *)
(* one variable order (rv record machine), every public call logged with   *)
(* its arguments and its result as STRUCTURAL pointers (nested arrays      *)
(* [compl, var, low, high], [0] = true, [1] = false) and the builder's     *)
(* public recursion counter after the call.                                *)
(*   L1 (alarm, C01): the result denotes what the operation names.         *)
(*   L2 (MODEL-DRIFT): the machine, run on the same arguments from its own *)
(*   store and its own persistent cache, returns the very same diagram     *)
(*   AND has made exactly as many recursive calls - which holds only if    *)
(*   every cache hit and miss of the code is a hit / miss of the model.    *)
(***************************************************************************)
EXTENDS Json, IOUtils, TLC, Naturals, Sequences, FiniteSets
Rec == ndJsonDeserialize(IOEnv.TRACE)
VARIABLES l, tbl, cache, ok, calls
BM == INSTANCE BddMachine WITH NV <- Rec[1].nv, Ord <- Rec[1].ord, Slots <- 0, MaxNodes <- 0, MaxCache <- 0, Ops <- {}, Cnfs <- {},
                               GetIgnoresCompl <- FALSE, GetIgnoresKey <- FALSE

Run(e, m) ==
  LET a == e.args IN
  CASE e.op = "ite" -> BM!IteH(m, a[1], a[2], a[3])
    [] e.op = "and" -> BM!AndM(m, a[1], a[2])
    [] e.op = "or" -> BM!OrM(m, a[1], a[2])
    [] e.op = "xor" -> BM!XorM(m, a[1], a[2])
    [] e.op = "iff" -> BM!IffM(m, a[1], a[2])
    [] e.op = "cond" -> BM!Condition(m, a[1], e.v, e.b)
    [] e.op = "exists" -> BM!ExistsM(m, a[1], e.v)
    [] e.op = "compose" -> BM!ComposeM(m, a[1], e.v, a[2])
    [] e.op = "cnf" -> BM!CompileCnfM(m, e.cnf)
    [] e.op = "and_lst" -> BM!AndLstM(m, BM!T, a)
    [] e.op = "or_lst" -> BM!OrLstM(m, BM!F, a)
    [] e.op = "cond_model" -> BM!CondModelM(m, a[1], {e.lits[i] : i \in 1 .. Len(e.lits)})
Expected(e) ==
  LET a == e.args
      D(i) == BM!Den(a[i]) IN
  CASE e.op = "ite" -> BM!SIte(D(1), D(2), D(3))
    [] e.op = "and" -> D(1) \cap D(2)
    [] e.op = "or" -> D(1) \cup D(2)
    [] e.op = "xor" -> BM!Assign \ BM!SIff(D(1), D(2))
    [] e.op = "iff" -> BM!SIff(D(1), D(2))
    [] e.op = "cond" -> BM!SCond(D(1), e.v, e.b)
    [] e.op = "exists" -> BM!SExists(D(1), e.v)
    [] e.op = "compose" -> BM!SExists(BM!SIff(BM!SLit(e.v), D(2)) \cap D(1), e.v)
    [] e.op = "cnf" -> BM!SCnf(e.cnf)
    [] e.op = "and_lst" -> {x \in BM!Assign : \A i \in 1 .. Len(a) : x \in D(i)}
    [] e.op = "or_lst" -> {x \in BM!Assign : \E i \in 1 .. Len(a) : x \in D(i)}
    [] e.op = "cond_model" -> BM!SCondLits(D(1), e.lits)

Init == l = 2 /\ tbl = {} /\ cache = {} /\ ok = TRUE /\ calls = 0
Reset(e) == /\ tbl' = {<<0, v, BM!F, BM!T>> : v \in 0 .. (Rec[1].nv - 1)}
            /\ cache' = {} /\ calls' = e.calls /\ ok' = TRUE
Op(e) ==
  LET res == Run(e, [t |-> tbl, c |-> cache, n |-> calls]) IN
  /\ "panic" \notin DOMAIN e
  /\ BM!Den(e.res) = Expected(e)                                       \* L1 (C01)
  /\ tbl' = res.m.t /\ cache' = res.m.c /\ calls' = res.m.n /\ ok' = TRUE
  /\ (IF res.r # e.res \/ res.m.n # e.calls THEN PrintT(<<"DRIFT", l>>) ELSE TRUE)
Step == /\ l <= Len(Rec) /\ l' = l + 1
        /\ (IF Rec[l].ev = "reset" THEN Reset(Rec[l]) ELSE Op(Rec[l]))
Spec == Init /\ [][Step]_<<l, tbl, cache, ok, calls>>
Accepted ==
  LET d == TLCGet("stats").diameter IN
  IF d = Len(Rec) THEN TRUE ELSE PrintT(<<"REJECT", d + 1>>) /\ FALSE
=============================================================================
