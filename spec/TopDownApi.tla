----------------------------- MODULE TopDownApi -----------------------------
(***************************************************************************)
(* L1 monitor for the top-down compilers (C06; counting/evaluation of      *)
(* their results is C07).  Diagrams are BDD-shaped node tables (Diagrams). *)
(***************************************************************************)
EXTENDS Diagrams, Counting, TLC
CONSTANT Enforce
Req(p, cond) == IF p \in Enforce THEN cond ELSE TRUE

VARIABLES nv, cnf, node, root, den, store
tdvars == <<nv, cnf, node, root, den, store>>
(* C06 speaks about both node stores; C11 about the hash-identified (semantic) one only *)
Req06(cond) == IF "C06" \in Enforce \/ ("C11" \in Enforce /\ store = "sem") THEN cond ELSE TRUE
TSlots == 0 .. 15

TDReset(e) ==
  /\ nv' = e.nv /\ cnf' = << >> /\ node' = << >> /\ store' = e.store
  /\ root' = [s \in TSlots |-> IF s = 1 THEN 1 ELSE 0]
  /\ den' = [s \in TSlots |-> IF s = 1 THEN FalseFn ELSE TrueFn]
  \* domain: the decision order is a permutation of the CNF's variables
  /\ {e.order[i] : i \in 1 .. Len(e.order)} = 0 .. (e.nv - 1) /\ Len(e.order) = e.nv

TDProduce(e) ==
  LET nn  == e.nodes
      nd2 == node \o nn
      d   == DenBdd(nd2, e.root)
  IN
  /\ \A i \in 1 .. Len(nn) : nn[i][1] = Len(node) + i /\ NodeOf(nn[i][3]) < nn[i][1] /\ NodeOf(nn[i][4]) < nn[i][1]
  /\ CASE e.ev = "compile" ->
            Req06( /\ d = EvalCnf(e.cnf)                                \* exactly the CNF's models
                       /\ (e.root = 1) = (EvalCnf(e.cnf) = {})              \* the false constant exactly when unsatisfiable
                       /\ NoRepeat(nd2, e.root, {}))                        \* no path decides a variable twice
       [] e.ev = "tneg" -> d = Neg(den[e.a[1]])
       [] e.ev = "tcond" -> Req06(d = Cond(den[e.a[1]], e.a[2], e.a[3] = 1))
  /\ (IF "dirty" \in DOMAIN e THEN Req("C10", e.dirty = << >>) ELSE TRUE)
  /\ node' = nd2
  /\ root' = [root EXCEPT ![e.res] = e.root]
  /\ den' = [den EXCEPT ![e.res] = d]
  /\ UNCHANGED <<nv, cnf, store>>

TDQuery(e) ==
  /\ Req("C07", "inexact" \notin DOMAIN e)
  /\ (IF "dirty" \in DOMAIN e THEN Req("C10", e.dirty = << >>) ELSE TRUE)
  /\ CASE e.ev = "eval" -> Req("C07", e.val = (e.a[2] \in den[e.a[1]]))
       [] e.ev = "count" -> Req("C10", e.val = Cardinality(Reach(node, root[e.a[1]])))          \* structure only
       [] e.ev = "wmc" -> Req("C07",
            /\ Normalised(e.sr, e.p, e.w, WX(e.wexp, nv), nv)
            /\ e.val = Comps(WMC(e.sr, e.p, den[e.a[1]], e.w, WX(e.wexp, nv), nv), nv * e.wexp)
            /\ (IF "den" \in DOMAIN e THEN e.den = 1 ELSE TRUE)
            /\ (IF "tail0" \in DOMAIN e THEN e.tail0 ELSE TRUE))
  /\ UNCHANGED tdvars
=============================================================================
