----------------------------- MODULE MC_HasherAlgo -----------------------------
EXTENDS HasherAlgo
(* the regrouping CNF: x = F leaves (a|b)&(c|d), x = T leaves (a|c)&(b|d); x = 5, a..d = 1..4 *)
Regroup == << <<1, 2, 5>>, <<3, 4, 5>>, <<1, 3, -5>>, <<2, 4, -5>> >>
Mixed == << <<1, -2>>, <<2, 3>>, <<-1, 2, -3>>, <<3>>, <<1, -1, 2>>, <<1, -2>> >>
Chain == << <<1, 2>>, <<-2, 3>>, <<-3, 4>>, <<-4, -1>>, <<2, 4>> >>
DenotationalOnce == TLCGet("level") > 1 \/ Denotational      \* a static statement: evaluated in the initial state only
=============================================================================
