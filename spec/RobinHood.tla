------------------------------ MODULE RobinHood ------------------------------
(***************************************************************************)
(* L2: implementation-shaped model of src/backing_store/bump_table.rs, the *)
(* unique table behind every builder (robin-hood open addressing over a    *)
(* bump arena).  One operator per function of the code, transcribed branch *)
(* by branch:                                                              *)
(*   Propagate   = fn propagate          Grown    = BackedRobinhoodTable::grow *)
(*   Probe       = get_or_insert_by_hash GetByHash = get_by_hash            *)
(* GrowAsCoded = TRUE reproduces the defect repaired by the fix commit      *)
(* "unique table growth re-inserted empty slots ..." (every old slot is     *)
(* re-inserted, with its stale psl); TLC then finds a duplicate in 3 steps. *)
(*                                                                         *)
(* The model is checked against the abstract SetTable (L1): a key keeps    *)
(* one identity forever (invariants Canonical, NoDup, LenOK, Findable).    *)
(***************************************************************************)
EXTENDS Naturals, Integers, Sequences, FiniteSets, TLC

Empty == [occ |-> FALSE, key |-> 0, hash |-> 0, psl |-> 0, id |-> 0]
Slot(k, h, psl, id) == [occ |-> TRUE, key |-> k, hash |-> h, psl |-> psl, id |-> id]
EmptyTable(c) == [i \in 0 .. (c - 1) |-> Empty]

(* fn propagate: slots are 0-based, t is a function 0..c-1 -> slot *)
RECURSIVE Propagate(_, _, _, _)
Propagate(t, c, searcher, pos) ==
  IF t[pos].occ
  THEN LET cur  == t[pos]
           swap == cur.psl < searcher.psl
           t2   == IF swap THEN [t EXCEPT ![pos] = searcher] ELSE t
           s2   == IF swap THEN cur ELSE searcher
       IN Propagate(t2, c, [s2 EXCEPT !.psl = s2.psl + 1], (pos + 1) % c)
  ELSE [t EXCEPT ![pos] = searcher]

(* fn grow: (cap+1).next_power_of_two(), re-insert the old slots in index order *)
RECURSIVE NextPow2From(_, _)
NextPow2From(x, p) == IF p >= x THEN p ELSE NextPow2From(x, 2 * p)
NextPow2(x) == NextPow2From(x, 1)

RECURSIVE GrowFold(_, _, _, _, _)
GrowFold(asCoded, old, i, n, acc) ==
  IF i = n THEN acc
  ELSE LET e    == old[i]
           e2   == IF asCoded THEN e ELSE [e EXCEPT !.psl = 0]
           skip == ~asCoded /\ ~e.occ
       IN GrowFold(asCoded, old, i + 1, n,
             IF skip THEN acc ELSE [acc EXCEPT !.t = Propagate(acc.t, acc.c, e2, e.hash % acc.c)])
Grown(asCoded, t, c) ==
  LET nc == NextPow2(c + 1) IN GrowFold(asCoded, t, 0, c, [t |-> EmptyTable(nc), c |-> nc])

(* (len + 1) as f64 > cap as f64 * 0.7  <=>  10 * (len + 1) > 7 * cap *)
NeedGrow(l, c) == 10 * (l + 1) > 7 * c

(* the probe loop of get_or_insert_by_hash; byHash = equality_by_hash.        *)
(* returns [t, id, ins]: new table, returned identity, whether it allocated   *)
RECURSIVE Probe(_, _, _, _, _, _, _, _)
Probe(t, c, byHash, h, k, pos, psl, nid) ==
  IF t[pos].occ
  THEN LET cur == t[pos] IN
       IF cur.hash = h /\ (byHash \/ cur.key = k) THEN [t |-> t, id |-> cur.id, ins |-> FALSE]
       ELSE IF cur.psl < psl
            THEN [t |-> [Propagate(t, c, cur, pos) EXCEPT ![pos] = Slot(k, h, psl, nid)], id |-> nid, ins |-> TRUE]
            ELSE Probe(t, c, byHash, h, k, (pos + 1) % c, psl + 1, nid)
  ELSE [t |-> [t EXCEPT ![pos] = Slot(k, h, psl, nid)], id |-> nid, ins |-> TRUE]

(* one call of get_or_insert_by_hash on state [t, c, len]; nid = identity of a fresh allocation *)
GetOrInsertStep(asCoded, st, byHash, h, k, nid) ==
  LET g == IF NeedGrow(st.len, st.c) THEN Grown(asCoded, st.t, st.c) ELSE [t |-> st.t, c |-> st.c]
      r == Probe(g.t, g.c, byHash, h, k, h % g.c, 0, nid)
  IN [t |-> r.t, c |-> g.c, len |-> IF r.ins THEN st.len + 1 ELSE st.len, id |-> r.id, ins |-> r.ins]

(* get_by_hash: 0 = None *)
RECURSIVE GetByHashFrom(_, _, _, _, _)
GetByHashFrom(t, c, h, pos, psl) ==
  IF t[pos].occ
  THEN IF t[pos].hash = h THEN t[pos].id
       ELSE IF t[pos].psl < psl THEN 0
       ELSE GetByHashFrom(t, c, h, (pos + 1) % c, psl + 1)
  ELSE 0
GetByHash(st, h) == GetByHashFrom(st.t, st.c, h, h % st.c, 0)

-----------------------------------------------------------------------------
(* Bounded model for TLC *)
CONSTANTS Keys, H, Cap0, MaxCap, GrowAsCoded, ByHash

VARIABLES st,       \* [t, c, len]
          hashOf,   \* the hash is a function of the key (chosen when the key first appears)
          idOf,     \* abstract SetTable: identity of each abstract key
          nextId
vars == <<st, hashOf, idOf, nextId>>

AbsKey(k, h) == IF ByHash THEN h ELSE k          \* what identifies an element in each mode

Init == /\ st = [t |-> EmptyTable(Cap0), c |-> Cap0, len |-> 0]
        /\ hashOf = << >> /\ idOf = << >> /\ nextId = 1

GetOrInsert(k) ==
  \E h \in 0 .. (H - 1) :
    /\ (k \in DOMAIN hashOf => h = hashOf[k])
    /\ hashOf' = IF k \in DOMAIN hashOf THEN hashOf ELSE hashOf @@ (k :> h)
    /\ LET r == GetOrInsertStep(GrowAsCoded, st, ByHash, h, k, nextId) IN
         /\ r.c <= MaxCap
         /\ st' = [t |-> r.t, c |-> r.c, len |-> r.len]
         /\ nextId' = IF r.ins THEN nextId + 1 ELSE nextId
         \* refinement of SetTable.GetOrInsert: known key -> its identity, unknown key -> fresh identity
         /\ idOf' = IF AbsKey(k, h) \in DOMAIN idOf THEN idOf ELSE idOf @@ (AbsKey(k, h) :> r.id)

Next == \E k \in Keys : GetOrInsert(k)
Spec == Init /\ [][Next]_vars

Occupied == {i \in 0 .. (st.c - 1) : st.t[i].occ}
AbsOf(i) == AbsKey(st.t[i].key, st.t[i].hash)
(* C02 / C04 at table level: one identity per key, for ever *)
Canonical == \A i \in Occupied : AbsOf(i) \in DOMAIN idOf /\ st.t[i].id = idOf[AbsOf(i)]
NoDup == \A i, j \in Occupied : i # j => AbsOf(i) # AbsOf(j)
LenOK == st.len = Cardinality(Occupied)
(* every known key is still found by a lookup (no hole in its probe sequence) *)
Findable == \A kk \in DOMAIN idOf :
   \E i \in Occupied : AbsOf(i) = kk /\
      (ByHash => GetByHash(st, st.t[i].hash) = idOf[kk])
(* robin-hood invariant: the recorded psl is the distance from the home slot *)
PslOK == \A i \in Occupied : (((st.t[i].hash % st.c) + st.t[i].psl) % st.c) = i
=============================================================================
