------------------------------ MODULE GenSmooth ------------------------------
(***************************************************************************)
(* Behaviour generator (spec -> impl) for smoothing: for every function f  *)
(* of NV variables (thinned by Sample) and every prefix length n, TLC      *)
(* prints the tree that SmoothAlgo!SmoothRec (the repaired helper) yields  *)
(* under the order Ord.  The driver builds the canonical diagram of f in a *)
(* real RobddBuilder with that order, calls smooth(f, n), unfolds the      *)
(* result (complement edges pushed down) for n levels and compares: same   *)
(* decision variable at every position, and below level n exactly the      *)
(* function the model leaves there.                                        *)
(***************************************************************************)
EXTENDS SmoothAlgo, Json, TLC
CONSTANTS Sample, Seed
VARIABLE f
(* sampling by the rank of the function among all functions (its truth table read as a binary number): every residue class *)
(* modulo Sample is inhabited, whatever the seed                                                                         *)
Tag(g) == LET RECURSIVE Rank(_)
              Rank(h) == IF h = {} THEN 0 ELSE LET a == CHOOSE x \in h : TRUE IN 2 ^ a + Rank(h \ {a})
          IN ((Rank(g) % 251) * 13 + (Rank(g) \div 251) + Seed) % Sample
Ord123 == <<0, 1, 2>>
Ord132 == <<0, 2, 1>>
Ord213 == <<1, 0, 2>>
Ord231 == <<1, 2, 0>>
Ord312 == <<2, 0, 1>>
Ord321 == <<2, 1, 0>>
Ord1234 == <<0, 1, 2, 3>>
Ord3142 == <<2, 0, 3, 1>>
Ord4321 == <<3, 2, 1, 0>>
Ord2413 == <<1, 3, 0, 2>>
Init == f \in {g \in SUBSET Assign : Tag(g) = 0}
Next == /\ f' = f
        /\ \A n \in 0 .. NV : PrintT(ToJson([op |-> "smooth", f |-> f, n |-> n, order |-> Ord, tree |-> SmoothRec(f, 1, n)]))
Spec == Init /\ [][Next]_f
=============================================================================
