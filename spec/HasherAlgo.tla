------------------------------ MODULE HasherAlgo ------------------------------
(***************************************************************************)
(* L2: the incremental residual-formula hasher (CnfHasher, src/repr/cnf.rs)*)
(* as a state machine driven by its caller:                                *)
(*   st    the hasher's stack of "clauses not yet known to be satisfied"   *)
(*         (indices of the non-unit clauses; push clones the top, pop      *)
(*         drops it, decide(l) removes the clauses that contain l)         *)
(*   pm    the caller's partial model, saved / restored around push / pop; *)
(*         it contains every decided literal and possibly more (literals   *)
(*         found by propagation: action Imply - the hasher is not told)    *)
(* Every literal OCCURRENCE <<clause, position>> owns a distinct prime and *)
(* hash(pm) is the product of the primes of the occurrences it keeps, so - *)
(* by unique factorisation, while the product fits the 128 bits - a hash   *)
(* value IS the set of kept occurrences (Occ).  Checked over all histories:*)
(*   Incremental   the stack-based computation = the computation from      *)
(*                 scratch over all non-unit clauses                       *)
(*   Denotational  (static) for partial models falsifying no clause:       *)
(*                 same Occ  <=>  same residual clause by clause           *)
(* PerOccurrence = FALSE gives every LITERAL one prime (all its            *)
(* occurrences share it): the hash is then a bag of literals, clause       *)
(* boundaries are lost, and Denotational must FAIL on a CNF whose residuals*)
(* regroup the same literals (regression check of the specification).      *)
(***************************************************************************)
EXTENDS Naturals, Integers, Sequences, FiniteSets, TLC

CONSTANTS HCnf,            \* the clause list as stored (sequence of sequences of non-zero integers)
          HNV,             \* number of variables
          MaxPush,
          PerOccurrence

VARIABLES st, pm, saved
hvars == <<st, pm, saved>>

AbsL(x) == IF x < 0 THEN 0 - x ELSE x
Implied(m, x) == m[AbsL(x)] = (IF x > 0 THEN 1 ELSE 0)
NegImplied(m, x) == m[AbsL(x)] = (IF x > 0 THEN 0 ELSE 1)
NonUnitIdx == {i \in 1 .. Len(HCnf) : Len(HCnf[i]) > 1}
With(x) == {i \in 1 .. Len(HCnf) : \E j \in 1 .. Len(HCnf[i]) : HCnf[i][j] = x}

(* hash(): clauses of S with an implied literal are skipped, neg-implied literals are dropped *)
Kept(S, m) == {i \in S : ~\E j \in 1 .. Len(HCnf[i]) : Implied(m, HCnf[i][j])}
Occ(S, m) == {<<i, j>> \in UNION {{<<i, j>> : j \in 1 .. Len(HCnf[i])} : i \in Kept(S, m)} : ~NegImplied(m, HCnf[i][j])}
(* what the hash value determines: with one prime per occurrence the set Occ itself; with one prime per literal only *)
(* the bag of literals (here: literal |-> number of kept occurrences)                                                *)
HashVal(S, m) ==
  IF PerOccurrence THEN Occ(S, m)
  ELSE LET o == Occ(S, m)
           ls == {HCnf[p[1]][p[2]] : p \in o}
       IN [x \in ls |-> Cardinality({p \in o : HCnf[p[1]][p[2]] = x})]

Unset == [v \in 1 .. HNV |-> -1]
HInit == st = <<NonUnitIdx>> /\ pm = Unset /\ saved = << >>
Push == /\ Len(st) <= MaxPush
        /\ st' = Append(st, st[Len(st)]) /\ saved' = Append(saved, pm) /\ pm' = pm
Pop == /\ saved # << >>
       /\ st' = SubSeq(st, 1, Len(st) - 1) /\ pm' = saved[Len(saved)] /\ saved' = SubSeq(saved, 1, Len(saved) - 1)
Decide(x) == /\ pm[AbsL(x)] = -1
             /\ st' = [st EXCEPT ![Len(st)] = @ \ With(x)]
             /\ pm' = [pm EXCEPT ![AbsL(x)] = IF x > 0 THEN 1 ELSE 0] /\ saved' = saved
Imply(x) == /\ pm[AbsL(x)] = -1
            /\ pm' = [pm EXCEPT ![AbsL(x)] = IF x > 0 THEN 1 ELSE 0] /\ UNCHANGED <<st, saved>>
Lits == {x \in (0 - HNV) .. HNV : x # 0}
HNext == Push \/ Pop \/ \E x \in Lits : Decide(x) \/ Imply(x)
HSpec == HInit /\ [][HNext]_hvars

Incremental == HashVal(st[Len(st)], pm) = HashVal(NonUnitIdx, pm)

(* the residual, clause by clause: unsatisfied non-unit clauses restricted to their unassigned literals *)
LitsOf(i) == {HCnf[i][j] : j \in 1 .. Len(HCnf[i])}
Sat(m, i) == \E x \in LitsOf(i) : Implied(m, x)
Falsified(m, i) == \A x \in LitsOf(i) : NegImplied(m, x)
Residual(m) == [i \in {k \in NonUnitIdx : ~Sat(m, k)} |-> {x \in LitsOf(i) : m[AbsL(x)] = -1}]
AllPm == [1 .. HNV -> {-1, 0, 1}]
Clean == {m \in AllPm : \A i \in 1 .. Len(HCnf) : ~Falsified(m, i)}
Denotational ==
  \A m1 \in Clean, m2 \in Clean :
    (HashVal(NonUnitIdx, m1) = HashVal(NonUnitIdx, m2)) <=> (Residual(m1) = Residual(m2))
=============================================================================
