SPECIFICATION Spec
CONSTANTS
  NV = 4
  Ord <- Ord1234
  AsCoded = FALSE
INVARIANT SmoothSound
CHECK_DEADLOCK FALSE
