------------------------------ MODULE DTreeAlgo ------------------------------
(***************************************************************************)
(* L2: DTree::from_cnf (Darwiche's eo2dtree, src/repr/dtree.rs) and        *)
(* VTree::from_dtree (src/repr/vtree.rs), transcribed step by step.        *)
(*                                                                         *)
(*   dtree  <<"l", clause, cutset, vars>> | <<"n", left, right, cutset,    *)
(*          vars>>       (cutset, vars: sets of variables, 0-based)        *)
(*   vtree  <<"leaf", v>> | <<"node", left, right>>;  <<"none">> = None    *)
(*                                                                         *)
(* from_cnf: one leaf per clause (vars initialised); for every variable o  *)
(* of the elimination order the subtrees that mention o are removed from   *)
(* the work list (order preserved), composed into a balanced tree, its     *)
(* variable sets initialised, and the result is pushed at the END of the   *)
(* list; what is left is composed, initialised, and the cutsets are        *)
(* generated top-down.  InitFinal = FALSE is the code as originally        *)
(* written (defect D9): the nodes created by the last composition keep     *)
(* empty variable sets when the cutsets are generated - the model check    *)
(* of that variant must FAIL.                                              *)
(***************************************************************************)
EXTENDS Naturals, Integers, Sequences, FiniteSets, SequencesExt, TLC

CONSTANT InitFinal

AbsLit(x) == IF x < 0 THEN 0 - x ELSE x
VarOfLit(x) == AbsLit(x) - 1
ClVars(c) == {VarOfLit(c[i]) : i \in 1 .. Len(c)}

IsLeaf(t) == t[1] = "l"
MkLeaf(c) == <<"l", c, {}, ClVars(c)>>                       \* init_vars on a fresh leaf
MkNode(a, b) == <<"n", a, b, {}, {}>>                         \* balanced(): cutset and vars start empty
VarsOf(t) == IF IsLeaf(t) THEN t[4] ELSE t[5]
CutOf(t) == IF IsLeaf(t) THEN t[3] ELSE t[4]

RECURSIVE Balanced(_)
Balanced(ts) ==
  IF Len(ts) = 1 THEN ts[1]
  ELSE LET h == Len(ts) \div 2 IN MkNode(Balanced(SubSeq(ts, 1, h)), Balanced(SubSeq(ts, h + 1, Len(ts))))

RECURSIVE InitVars(_)
InitVars(t) ==
  IF IsLeaf(t) THEN <<"l", t[2], t[3], t[4] \cup ClVars(t[2])>>
  ELSE LET a == InitVars(t[2])  b == InitVars(t[3]) IN <<"n", a, b, t[4], VarsOf(a) \cup VarsOf(b)>>

RECURSIVE GenCutset(_, _)
GenCutset(t, anc) ==
  IF IsLeaf(t) THEN <<"l", t[2], t[4] \ anc, t[4]>>
  ELSE LET mine == (VarsOf(t[2]) \cap VarsOf(t[3])) \ anc
           below == anc \cup mine
       IN <<"n", GenCutset(t[2], below), GenCutset(t[3], below), mine, t[5]>>

(* the elimination loop: elim = sequence of variables, k = next position *)
RECURSIVE Eliminate(_, _, _)
Eliminate(subs, elim, k) ==
  IF k > Len(elim) THEN subs
  ELSE LET o == elim[k]
           with == SelectSeq(subs, LAMBDA t : o \in VarsOf(t))
           rest == SelectSeq(subs, LAMBDA t : o \notin VarsOf(t))
       IN IF with = << >> THEN Eliminate(subs, elim, k + 1)
          ELSE Eliminate(Append(rest, InitVars(Balanced(with))), elim, k + 1)

FromCnf(cnf, elim) ==                                          \* cnf non-empty (balanced() asserts it)
  LET leaves == [i \in 1 .. Len(cnf) |-> MkLeaf(cnf[i])]
      top == Balanced(Eliminate(leaves, elim, 1))
  IN GenCutset(IF InitFinal THEN InitVars(top) ELSE top, {})

(* --- VTree::from_dtree --- *)
None == <<"none">>
VLeaf(v) == <<"leaf", v>>
VNode(a, b) == <<"node", a, b>>
Sorted(S) == SetToSortSeq(S, LAMBDA a, b : a < b)             \* VarSet::iter is in increasing label order
RECURSIVE RightLinearC(_, _)
RightLinearC(vs, cont) ==                                      \* never called with (<<>>, None)
  IF vs = << >> THEN cont
  ELSE IF Len(vs) = 1 THEN (IF cont = None THEN VLeaf(vs[1]) ELSE VNode(VLeaf(vs[1]), cont))
  ELSE VNode(VLeaf(vs[1]), RightLinearC(Tail(vs), cont))
RECURSIVE FromDtree(_)
FromDtree(t) ==
  LET cs == Sorted(CutOf(t)) IN
  IF IsLeaf(t) THEN (IF cs = << >> THEN None ELSE RightLinearC(cs, None))
  ELSE LET a == FromDtree(t[2])  b == FromDtree(t[3]) IN
       IF a = None /\ b = None THEN (IF cs = << >> THEN None ELSE RightLinearC(cs, None))
       ELSE IF b = None THEN RightLinearC(cs, a)
       ELSE IF a = None THEN RightLinearC(cs, b)
       ELSE RightLinearC(cs, VNode(a, b))

(* --- what the property demands (the L1 statement, on this module's trees) --- *)
RECURSIVE LeavesOf(_), WellFormed(_, _), VLeaves(_)
LeavesOf(t) == IF IsLeaf(t) THEN <<t[2]>> ELSE LeavesOf(t[2]) \o LeavesOf(t[3])
WellFormed(t, anc) ==
  IF IsLeaf(t) THEN VarsOf(t) = ClVars(t[2]) /\ CutOf(t) = ClVars(t[2]) \ anc
  ELSE /\ VarsOf(t) = VarsOf(t[2]) \cup VarsOf(t[3])
       /\ CutOf(t) = (VarsOf(t[2]) \cap VarsOf(t[3])) \ anc
       /\ WellFormed(t[2], anc \cup CutOf(t)) /\ WellFormed(t[3], anc \cup CutOf(t))
SameBag(a, b) ==
  /\ Len(a) = Len(b)
  /\ \A x \in Range(a) \cup Range(b) : Cardinality({i \in 1 .. Len(a) : a[i] = x}) = Cardinality({i \in 1 .. Len(b) : b[i] = x})
VLeaves(v) == IF v = None THEN << >> ELSE IF v[1] = "leaf" THEN <<v[2]>> ELSE VLeaves(v[2]) \o VLeaves(v[3])
CnfVarsOf(cnf) == UNION {ClVars(cnf[i]) : i \in 1 .. Len(cnf)}

DTreeSoundFor(cnf, elim) ==
  LET t == FromCnf(cnf, elim)
      v == FromDtree(t)
  IN /\ SameBag(LeavesOf(t), cnf)                               \* exactly the CNF's clauses as leaves
     /\ WellFormed(t, {})                                       \* vars = union of the children's; cutsets as defined
     /\ Range(VLeaves(v)) = CnfVarsOf(cnf)                      \* the derived vtree has every CNF variable ...
     /\ Len(VLeaves(v)) = Cardinality(CnfVarsOf(cnf))           \* ... as exactly one leaf
=============================================================================
