import json, os, sys
sys.path.insert(0, os.path.dirname(os.path.abspath(__file__)))
import vlib
pid, path = sys.argv[1], os.path.abspath(sys.argv[2])
first = json.loads(open(path).readline())
kind = first.get("kind", "bdd") if isinstance(first, dict) else "vector"
spec = {"bdd": ("TraceBdd", "TraceBdd_%s.cfg" % pid), "table": ("TraceTable", "TraceTable.cfg"), "lru": ("TraceLru", "TraceLru.cfg")}.get(kind)
if spec is None:
    print("replay files of kind %r are JSON vector lists: re-run `harness/target/debug/rv replay <family> --in <file>`" % kind)
    sys.exit(2)
ctx = vlib.Ctx(pid + "_replay", "quick", 0)
rej, gen, dist, out = vlib.validate_trace(ctx, spec[0], spec[1], path)
print("accepted" if rej is None else "rejected at line %d: %s" % (rej[0], open(path).readlines()[rej[0] - 1][:400]))
sys.exit(0 if rej is None else 1)
