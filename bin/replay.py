"""bin/replay <property> <replay file>

Re-validates a saved trace prefix (the file named in a VIOLATION line) with the trace specification of the
property: exit 1 and the rejected line if TLC still rejects it, exit 0 if it is accepted. Replay files that are
lists of TLC-generated vectors the code did not reproduce (vec_*.json) or abort notes (*.abort.json) are
printed: they are re-run by the check itself (`bin/check <property> quick`)."""
import json
import os
import sys

sys.path.insert(0, os.path.dirname(os.path.abspath(__file__)))
import vlib

pid, path = sys.argv[1], os.path.abspath(sys.argv[2])
text = open(path).read()
try:
    first = json.loads(text.splitlines()[0])
except Exception:
    first = None
if not isinstance(first, dict) or first.get("ev") != "init":
    # a list of vectors (expected behaviour printed by TLC + what the code did) or an abort note
    try:
        doc = json.loads(text)
    except Exception:
        doc = text[:2000]
    print("not a recorded trace; content (first entry):")
    print(json.dumps(doc[0] if isinstance(doc, list) and doc else doc, indent=1)[:3000])
    print("re-run the generating check: bin/check %s quick" % pid)
    sys.exit(2)
last = json.loads(text.splitlines()[-1])
if isinstance(last, dict) and last.get("ev") == "hang":
    # the recorded prefix is accepted by construction; the violation is the call after it, which did not return: re-run the recorder
    print("a call of the library did not return after event %d; re-running the recorder (watchdog 60 s): %s" % (last["after_event"], last["rerun"]))
    args = last["rerun"].split()[1:]
    if "--out" in args:
        i = args.index("--out")
        del args[i:i + 2]
    out = os.path.join(vlib.VERIF, "work", "replay_hang.ndjson")
    os.makedirs(os.path.dirname(out), exist_ok=True)
    vlib.build_harness()
    rc, _ = vlib.sh([vlib.RV] + args + ["--out", out, "--hang", "60"], timeout=900)
    print("still hangs (recorder status 3)" if rc == 3 else "the recorder finished with status %d" % rc)
    sys.exit(1 if rc == 3 else 0)
kind = first.get("kind", "bdd")
per_prop = {"bdd": "TraceBdd", "sdd": "TraceSdd", "topdown": "TraceTopDown"}
single = {"table": "TraceTable", "lru": "TraceLru", "sat": "TraceUnitProp", "cnf": "TraceCnf", "orders": "TraceOrders",
          "semiring": "TraceSemiring", "ser": "TraceSer"}
if kind in per_prop:
    module = per_prop[kind]
    cfg = "%s_%s.cfg" % (module, pid)
    if not os.path.exists(os.path.join(vlib.SPEC, cfg)):
        cfg = "%s_All.cfg" % module
elif kind in single:
    module = single[kind]
    cfg = module + ".cfg"
else:
    print("unknown trace kind %r" % kind)
    sys.exit(2)
ctx = vlib.Ctx(pid + "_replay", "quick", 0)
rej, gen, dist, out = vlib.validate_trace(ctx, module, cfg, path)
lines = text.splitlines()
print("accepted by %s / %s" % (module, cfg) if rej is None else "rejected by %s / %s at line %d: %s" % (module, cfg, rej[0], lines[rej[0] - 1][:400]))
sys.exit(0 if rej is None else 1)
