"""Per-property verification plans: which models TLC explores, which traces are recorded from the
real code and validated, which TLC-generated vectors are replayed. See DESIGN.md section 6."""
from vlib import model_check, record_and_validate


def bdd_jobs(ctx, mode, n, segments, length, nmax):
    return [("%s_%d" % (mode, i),
             ["record", "bdd", "--mode", mode, "--seed", ctx.seed * 1000 + i, "--segments", segments,
              "--len", length, "--nmax", nmax]) for i in range(n)]


def C01(ctx):
    ctx.assumptions += [
        "denotational oracle = spec/BoolFn.tla, cross-checked against algebraic laws by TLC (MC_BoolFn)",
        "recorder only dumps raw nodes (harness/src/bdd_rec.rs); TLC recomputes every denotation",
        "universe bounded: at most NV<=6 variables per builder; pool of 12 live diagrams",
    ]
    model_check(ctx, "MC_BoolFn", "MC_BoolFn.cfg", "vocabulary laws (oracle self-check)", workers=1, timeout=300)
    if ctx.quick:
        jobs = bdd_jobs(ctx, "c01", 8, 4, 200, 5)
    else:
        jobs = bdd_jobs(ctx, "c01", 48, 5, 300, 5) + [
            ("c01_n6_%d" % i, ["record", "bdd", "--mode", "c01", "--seed", ctx.seed * 1000 + 500 + i,
                               "--segments", 3, "--len", 250, "--nmax", 6]) for i in range(16)]
    record_and_validate(ctx, jobs, "TraceBdd", "TraceBdd_C01.cfg")


def C02(ctx):
    ctx.assumptions += [
        "canonicity is judged on truth tables recomputed by TLC from raw node dumps",
        "table growth is forced by the rsdd_verif capacity hook (initial capacity 1..16)",
    ]
    if ctx.quick:
        jobs = bdd_jobs(ctx, "c02", 8, 4, 200, 5)
    else:
        jobs = bdd_jobs(ctx, "c02", 48, 5, 300, 5)
    record_and_validate(ctx, jobs, "TraceBdd", "TraceBdd_C02.cfg")
