"""Per-property verification plans: which models TLC explores, which traces are recorded from the
real code and validated, which TLC-generated vectors are replayed. See DESIGN.md section 6."""
import os

from vlib import model_check, record_and_validate, gen_and_replay, mkcfg, build_cli, gen_record_validate, proof_check, ToolError


TH = int(os.environ.get("VERIF_THOROUGH_SCALE", "5"))     # thorough tier: this many times the base number of recorded traces


def bdd_jobs(ctx, mode, n, segments, length, nmax):
    return [("%s_%d" % (mode, i),
             ["record", "bdd", "--mode", mode, "--seed", ctx.seed * 1000 + i, "--segments", segments,
              "--len", length, "--nmax", nmax]) for i in range(n)]


def genbdd_cfg(ctx, name, nv, mode, sample):
    return mkcfg(ctx, name + ".cfg", "SPECIFICATION Spec\nCONSTANTS\n  NV = %d\n  Mode = \"%s\"\n  Sample = %d\n  Seed = %d\nCHECK_DEADLOCK FALSE\n"
                 % (nv, mode, sample, ctx.seed % max(sample, 1)))


def function_level_vectors(ctx, family, extra=None):
    """spec -> impl: every transition of the function-level model (GenBdd.tla) replayed into real builders"""
    plan = [("u3", 3, "unary", 1), ("t2", 2, "ternary", 1)]
    if ctx.quick:
        plan += [("b3", 3, "binary", 4), ("u4", 4, "unary", 16)]
    else:
        plan += [("b3", 3, "binary", 1), ("u4", 4, "unary", 1), ("t3", 3, "ternary", 64)]
    for name, nv, mode, sample in plan:
        gen_and_replay(ctx, "GenBdd", genbdd_cfg(ctx, "GenBdd_" + name, nv, mode, sample), family,
                       "%s operations on %s functions of %d variables" % (mode, "all" if sample == 1 else "1/%d of the" % sample, nv),
                       extra_replay=["--nv", nv, "--seed", ctx.seed] + (extra or []), timeout=1500)


def cnf_vectors(ctx, targets):
    """spec -> impl: every CNF of a positional family with its models (GenCnf.tla) compiled by the real compilers: bottom-up BDD
    (every order, both caches; every 4th CNF also under EVERY partial assignment: with_assignments = compile + condition_model, same
    diagram), bottom-up SDD (right-/left-linear and split vtrees, compression on/off; "sdd-dtree": one builder per CNF over the vtree
    derived from the CNF's own dtree, 3 elimination orders), top-down (every order, both node stores)."""
    fams = [("Pos3", 3, 8 if ctx.quick else 1, "<= 3 clauses of width <= 3 over 3 variables"),
            ("PosT", 3, 16 if ctx.quick else 2, "<= 3 clauses with repeated / complementary literals and an empty clause")]
    if not ctx.quick:
        fams.append(("Pos4", 4, 32, "<= 4 clauses of width <= 2 over 4 variables"))
    elif "bdd" in targets:
        # a sample of the 4-variable family in the quick tier too: conditioning slips that need a complemented node shared by two parents
        # above the conditioned variable only exist from 4 variables on
        fams.append(("Pos4", 4, 160, "<= 4 clauses of width <= 2 over 4 variables (sample)"))
    if targets == ["topdown"]:
        fams = [(f, nv, s * (2 if ctx.quick else 1), w) for f, nv, s, w in fams]
    for fam, nv, sample, what in fams:
        cfg = mkcfg(ctx, "GenCnf_%s_%s.cfg" % (fam, targets[0]), "SPECIFICATION Spec\nCONSTANTS\n  NV = %d\n  Family <- %s\n  Sample = %d\n  Seed = %d\nINVARIANT Emit\nCHECK_DEADLOCK FALSE\n"
                    % (nv, fam, sample, ctx.seed))
        gen_and_replay(ctx, "GenCnf", cfg, "cnfvec", "%s compilation of %s CNFs: %s" % ("/".join(targets), "all" if sample == 1 else "1/%d of the" % sample, what),
                       extra_replay=[["--nv", nv, "--which", t, "--seed", ctx.seed] for t in targets], timeout=2400)


ORDERS3 = ["123", "132", "213", "231", "312", "321"]


def ite_key_checks(ctx, mc3=True):
    """RobddAlgo: the standard-triple normalisation (Ite::new) is key-sound (design level) and the real Ite::new
    yields a sound key - in fact the model's key - on every triple (conformance)."""
    # proof (TLAPS, any number of variables, any order / complement predicates): the transcribed Ite::new is key-sound
    proof_check(ctx, "KeySoundProof", "Ite::new as transcribed in RobddAlgo preserves Ite(f,g,h) for functions over any universe")
    for o in ("12", "21"):
        model_check(ctx, "MC_RobddAlgo", "MC_RobddAlgo_2_%s.cfg" % o, "KeySound / IteRec / CondRec for all 4096 triples of 2-variable functions, order %s" % o,
                    workers=2, timeout=600)
        cfg = mkcfg(ctx, "GenIte_2_%s.cfg" % o, "SPECIFICATION Spec\nCONSTANTS\n  NV = 2\n  Ord <- Ord%s\n  Sample = 1\n  Seed = 0\nCHECK_DEADLOCK FALSE\n" % o)
        gen_and_replay(ctx, "GenIte", cfg, "itevec", "Ite::new on all triples of 2-variable functions, order %s" % o, extra_replay=["--nv", 2])
    orders = ORDERS3 if not ctx.quick else [ORDERS3[ctx.seed % 6], ORDERS3[(ctx.seed + 3) % 6]]
    for o in orders:
        if not ctx.quick or (mc3 and o == orders[0]):
            model_check(ctx, "MC_RobddAlgo", "MC_RobddAlgo_3_%s.cfg" % o, "KeySound / IteRec / CondRec for all 16.7M triples of 3-variable functions, order %s" % o,
                        workers=12, timeout=3000, xmx="8g")
        cfg = mkcfg(ctx, "GenIte_3_%s.cfg" % o, "SPECIFICATION Spec\nCONSTANTS\n  NV = 3\n  Ord <- Ord%s\n  Sample = %d\n  Seed = %d\nCHECK_DEADLOCK FALSE\n"
                    % (o, 64 if ctx.quick else 8, ctx.seed % (64 if ctx.quick else 8)))
        gen_and_replay(ctx, "GenIte", cfg, "itevec", "Ite::new on sampled triples of 3-variable functions, order %s" % o, extra_replay=["--nv", 3], timeout=1500)


def bdd_machine(ctx, prop):
    """BddMachine: node store + persistent apply cache + ite_helper / cond_with_alloc on pointers with complement edges, every history
    of public calls: results right (C01), store ordered / reduced / canonical (C02), every cache cell holds the value of its key (C16)."""
    if prop in ("C01", "C02"):
        model_check(ctx, "MC_BddMachine", "MC_BddMachine_2_all.cfg", "BddMachine: every history of ite / and / or / xor / iff / cond / exists / compose calls on 2 variables, "
                    "cache-everything table persisting across calls (calls issued while <= 4 nodes, <= 2 cache entries)", workers=6, timeout=900)
    if prop in ("C16", "C02"):
        model_check(ctx, "MC_BddMachine", "MC_BddMachine_q_lru1.cfg", "BddMachine: every history of ite / cond / exists calls on 2 variables (order 1,0) with a ONE-cell "
                    "direct-mapped apply cache (every insertion evicts)", workers=6, timeout=900)
    if prop == "C01":
        model_check(ctx, "MC_BddMachine", "MC_BddMachine_nocompl.cfg", "regression: a cache hit on a complemented standard triple returned un-negated gives wrong results",
                    workers=2, expect_violation=True)
    if prop == "C16":
        model_check(ctx, "MC_BddMachine", "MC_BddMachine_nokey.cfg", "regression: a cache that answers from the cell without comparing the key is not transparent",
                    workers=2, expect_violation=True)
    if prop == "C05":
        model_check(ctx, "MC_BddMachine", "MC_BddMachine_cnf2.cfg", "BddMachine: compile_cnf as coded (insertion sort on the last literal's level, or-fold, balanced collapse) on the "
                    "machine's store and persistent cache-everything table: every history of compilations of the 111 CNFs of <= 2 clauses (units, binary, complementary / "
                    "repeated variables, an empty clause, the empty formula) over 2 variables, interleaved with conditioning", workers=6, timeout=900)
        model_check(ctx, "MC_BddMachine", "MC_BddMachine_cnf2l.cfg", "BddMachine: the same compilations with a ONE-cell apply cache", workers=6, timeout=900)
        if not ctx.quick:
            model_check(ctx, "MC_BddMachine", "MC_BddMachine_cnf3.cfg", "BddMachine: compilations of all 1 000 three-clause CNFs over 2 variables, one-cell cache", workers=12, timeout=3000, xmx="8g")
        return
    if not ctx.quick:
        for cfg, what in (("2_lru1", "all operations, one-cell cache, order 1,0, until the store is complete (7 nodes)"),
                          ("2_lru2", "all operations, two-cell cache"),
                          ("3_lru", "and / xor / cond / exists on 3 variables (order 1,2,0), two-cell cache, calls issued while <= 5 nodes"),
                          ("3_all", "and / xor / cond / exists on 3 variables (order 2,0,1), cache-everything")):
            model_check(ctx, "MC_BddMachine", "MC_BddMachine_%s.cfg" % cfg, "BddMachine: " + what, workers=12, timeout=3000, xmx="8g")


def C01(ctx):
    ctx.assumptions += [
        "denotational oracle = spec/BoolFn.tla, cross-checked against algebraic laws by TLC (MC_BoolFn)",
        "recorder only dumps raw nodes (harness/src/bdd_rec.rs); TLC recomputes every denotation",
        "universe bounded: at most NV<=6 variables per builder; pool of 12 live diagrams",
    ]
    model_check(ctx, "MC_BoolFn", "MC_BoolFn.cfg", "vocabulary laws (oracle self-check)", workers=1, timeout=300)
    ite_key_checks(ctx)
    bdd_machine(ctx, "C01")
    function_level_vectors(ctx, "bddvec")
    if ctx.quick:
        jobs = bdd_jobs(ctx, "c01", 8, 4, 200, 5)
    else:
        jobs = bdd_jobs(ctx, "c01", 48 * TH, 5, 300, 5) + [
            ("c01_n6_%d" % i, ["record", "bdd", "--mode", "c01", "--seed", ctx.seed * 1000 + 500 + i,
                               "--segments", 3, "--len", 250, "--nmax", 6]) for i in range(16 * TH)]
    record_and_validate(ctx, jobs, "TraceBdd", "TraceBdd_C01.cfg")
    # binding of BddMachine: sessions of a real cache-everything builder under one order per trace; TLC runs the machine on the logged
    # arguments from ITS OWN store and persistent cache: right function (L1), same diagram and the same number of recursive calls
    # as the builder's public counter reports, i.e. the same cache hits and misses (L2, MODEL-DRIFT)
    record_and_validate(ctx, [("machine_%d" % i, ["record", "machine", "--seed", ctx.seed * 1000 + 700 + i, "--segments", 6 if ctx.quick else 12,
                                                  "--len", 40 if ctx.quick else 60, "--nmax", 3 + (i % 2)])
                              for i in range(4 if ctx.quick else 16 * TH)], "TraceMachine", "TraceMachine.cfg")
    # spec -> impl for BddMachine: every 2-call history of the machine (first call from a sampled class of ite triples, then any of ite /
    # cond / exists / xor over the store's pointers) replayed into a FRESH real builder: printed truth table (L1), printed diagram and
    # recursion counter after every call (drift)
    for o in (["O10"] if ctx.quick else ["O10", "O01"]):
        cfg = mkcfg(ctx, "GenMachine_%s.cfg" % o, "SPECIFICATION GSpec\nCONSTANTS\n  NV = 2\n  Ord <- %s\n  Slots = 0\n  MaxNodes = 9\n  MaxCache = 9\n  Cnfs <- NoCnfs\n"
                    "  Ops <- AllOps\n  GetIgnoresCompl = FALSE\n  GetIgnoresKey = FALSE\n  Depth = 2\n  Sample = %d\n  Seed = %d\nCHECK_DEADLOCK FALSE\n"
                    % (o, 4 if ctx.quick else 1, ctx.seed % 4 if ctx.quick else 0))
        gen_and_replay(ctx, "GenMachine", cfg, "machine", "every 2-call history of BddMachine (2 variables, order %s) in a fresh cache-everything builder" % o, timeout=900)
    for o in (["O201"] if ctx.quick else ["O201", "O120", "O012"]):
        cfg = mkcfg(ctx, "GenMachine_%s.cfg" % o, "SPECIFICATION GSpec\nCONSTANTS\n  NV = 3\n  Ord <- %s\n  Slots = 0\n  MaxNodes = 9\n  MaxCache = 9\n  Cnfs <- NoCnfs\n"
                    "  Ops <- AllOps\n  GetIgnoresCompl = FALSE\n  GetIgnoresKey = FALSE\n  Depth = 2\n  Sample = %d\n  Seed = %d\nCHECK_DEADLOCK FALSE\n"
                    % (o, 16 if ctx.quick else 2, ctx.seed % (16 if ctx.quick else 2)))
        gen_and_replay(ctx, "GenMachine", cfg, "machine", "2-call histories of BddMachine on 3 variables (order %s; first call from 1/%d of the ite triples)" % (o, 16 if ctx.quick else 2), timeout=1800)
    stress_canonical(ctx, "bdd", check="fn")


def stress_canonical(ctx, which, check="canon"):
    """long histories at REAL table sizes: N pseudo-random 6-variable functions printed by TLC (GenStress) with their conjunctions /
    disjunctions / negations (/ xors) built in ONE canonical builder with default capacities (the unique table grows at 91 751, 183 501, ...
    nodes): right functions, and same function <=> same pointer."""
    n = 20000 if ctx.quick else 60000
    cfg = mkcfg(ctx, "GenStress_%s_%s.cfg" % (which, check), "SPECIFICATION Spec\nCONSTANTS\n  NV = 6\n  N = %d\n  Seed = %d\nCHECK_DEADLOCK FALSE\n" % (n, ctx.seed + 3))
    what = {"canon": "same function <=> same pointer", "fn": "every result denotes what TLC printed",
            "twin": "the lossy-cache builder and the cache-everything builder return the same functions"}[check]
    gen_and_replay(ctx, "GenStress", cfg, "stressvec", "%d pseudo-random 6-variable functions + and / or / neg / xor in one %s builder at default table sizes: %s" % (n, which, what),
                   extra_replay=["--nv", 6, "--which", which, "--seed", ctx.seed, "--check", check], timeout=2400)


def C02(ctx):
    ctx.assumptions += [
        "canonicity is judged on truth tables recomputed by TLC from raw node dumps",
        "table growth is forced by the rsdd_verif capacity hook (initial capacity 1..16); the real "
        "BackedRobinhoodTable<u64> is driven directly through the hook's re-export",
    ]
    # design level: the implementation-shaped unique table refines the abstract set with identities
    model_check(ctx, "RobinHood", "MC_RobinHood.cfg", "RobinHood (as repaired) refines SetTable: 5 keys, 4 hashes, cap 2->8", workers=6)
    model_check(ctx, "RobinHood", "MC_RobinHood_ascoded.cfg", "regression: grow() as originally coded loses the robin-hood invariant",
                workers=2, expect_violation=True)
    if not ctx.quick:
        model_check(ctx, "RobinHood", "MC_RobinHood_big.cfg", "6 keys, cap 2->16", workers=16, timeout=3000, xmx="8g")
    bdd_machine(ctx, "C02")
    # spec -> impl: every behaviour of the bounded model replayed into the real table
    gen_and_replay(ctx, "GenTable", "GenTable.cfg" if ctx.quick else "GenTable_big.cfg", "table",
                   "all get_or_insert sequences of the bounded RobinHood model")
    # impl -> spec: random table histories with colliding hashes and tiny capacities
    n = 4 if ctx.quick else 24 * TH
    record_and_validate(ctx, [("table_%d" % i, ["record", "table", "--byhash", "never", "--seed", ctx.seed * 1000 + i, "--segments", 25, "--len", 60])
                              for i in range(n)], "TraceTable", "TraceTable.cfg")
    # builder level: random programs with tiny unique tables
    if ctx.quick:
        jobs = bdd_jobs(ctx, "c02", 8, 4, 200, 5)
    else:
        jobs = bdd_jobs(ctx, "c02", 48, 5, 300, 5)
    record_and_validate(ctx, jobs, "TraceBdd", "TraceBdd_C02.cfg")
    stress_canonical(ctx, "bdd")


def C16(ctx):
    ctx.assumptions += [
        "domain: the hash passed to the cache is a function of the key (different keys may collide)",
        "cache eviction and growth are forced by the rsdd_verif initial-capacity hook (2^0 .. 2^4 slots)",
    ]
    model_check(ctx, "Lru", "MC_Lru.cfg", "Lru (as coded) refines LossyMap, every entry in the slot of its own hash (OwnSlot): 3 keys, 4 hashes, cap 2^0->2^2", workers=6)
    # a memo in front of a deterministic function is transparent iff its key determines the answer: KeySound (the 16.7M-triple model
    # check of 3-variable functions is part of C01's quick tier and of this property's thorough tier; here the proof, the 2-variable
    # model checks and the replays of every printed triple)
    ite_key_checks(ctx, mc3=False)
    bdd_machine(ctx, "C16")
    # proof (TLAPS, any key set, any table sizes, any slot function): a direct-mapped cache with full-key comparison whose growth puts
    # every surviving entry into its own slot (invariant OwnSlot of Lru.tla, model-checked above) answers nothing or the last value stored
    proof_check(ctx, "LruProof", "a direct-mapped cache with full-key comparison is a LossyMap for any keys, sizes and slot function")
    # proof (TLAPS, any argument space, any eviction policy): given KeySound, a cache that may lose any entry at any time never changes a result
    proof_check(ctx, "MemoProof", "an operation behind a lossy cache keyed by a sound key returns F(args) on every call, whatever was evicted before")
    gen_and_replay(ctx, "GenLru", "GenLru.cfg" if ctx.quick else "GenLru_big.cfg", "lru",
                   "all insert/get sequences of the bounded Lru model")
    n = 4 if ctx.quick else 24 * TH
    record_and_validate(ctx, [("lru_%d" % i, ["record", "lru", "--seed", ctx.seed * 1000 + i, "--segments", 30, "--len", 80])
                              for i in range(n)], "TraceLru", "TraceLru.cfg")
    # big tables (2^9 .. 2^11 slots) filled across their growth, with re-insertions of resident keys under new values, colliders in the
    # grown table and read-backs right around the growth
    record_and_validate(ctx, [("lru_big_%d" % i, ["record", "lru", "--seed", ctx.seed * 1000 + 300 + i, "--segments", 3, "--big", 1])
                              for i in range(2 if ctx.quick else 4 * TH)], "TraceLru", "TraceLru.cfg")
    # at scale: 20 000-function histories in one builder per cache kind at default sizes; the two builders must return the same functions
    stress_canonical(ctx, "bdd", check="twin")
    # builder level: the same random programs under every cache configuration; every trace must be a
    # behaviour of BddApi with canonicity enforced, hence all caches return the same canonical diagrams
    if ctx.quick:
        jobs = bdd_jobs(ctx, "c16", 8, 4, 200, 5)
    else:
        jobs = bdd_jobs(ctx, "c16", 48 * TH, 5, 300, 5)
    record_and_validate(ctx, jobs, "TraceBdd", "TraceBdd_C16.cfg")
    # SDD apply / if-then-else caches: every operation of a long-lived builder is repeated on structural copies of its operands in a
    # brand-new builder (cold caches, empty tables); both results are dumped and TLC compares their denotations
    sj = sdd_jobs(ctx, "c16", 5, 5, 120, 5) if ctx.quick else sdd_jobs(ctx, "c16", 24 * TH, 6, 160, 5)
    record_and_validate(ctx, sj, "TraceSdd", "TraceSdd_C16.cfg")


def _bdd_family(ctx, mode, cfg, nq=6, nt=40, segs=4, length=160, nmax=5):
    if ctx.quick:
        jobs = bdd_jobs(ctx, mode, nq, segs, length, nmax)
    else:
        jobs = bdd_jobs(ctx, mode, nt * TH, segs + 1, length + 80, nmax)
    record_and_validate(ctx, jobs, "TraceBdd", cfg)


def sdd_jobs(ctx, mode, n, segments, length, nmax):
    return [("sdd_%s_%d" % (mode, i),
             ["record", "sdd", "--mode", mode, "--seed", ctx.seed * 1000 + i, "--segments", segments,
              "--len", length, "--nmax", nmax]) for i in range(n)]


def _sdd_family(ctx, mode, cfg, nq=6, nt=40, segs=5, length=120, nmax=5):
    if ctx.quick:
        jobs = sdd_jobs(ctx, mode, nq, segs, length, nmax)
    else:
        jobs = sdd_jobs(ctx, mode, nt * TH, segs + 2, length + 60, nmax)
    record_and_validate(ctx, jobs, "TraceSdd", cfg)


def sdd_apply_model(ctx):
    """SddApply: the four apply cases with their shortcuts yield the conjunction, keep the primes a partition and,
    after compress + trimming, the canonical element list - for all pairs of functions"""
    model_check(ctx, "SddApply", "MC_SddApply_q.cfg", "all 256 pairs of 2-variable functions, vtree (x0 | x1); condition on every (variable, value)", workers=2)
    model_check(ctx, "SddApply", "MC_SddApply_skiptrim.cfg", "regression: condition that skips trimming allocates a trimmable node", workers=2, expect_violation=True)
    if not ctx.quick:
        model_check(ctx, "SddApply", "MC_SddApply_1_2.cfg", "all 65 536 pairs of 3-variable functions, left {x0} right {x1,x2}", workers=16, timeout=3000, xmx="8g")
        model_check(ctx, "SddApply", "MC_SddApply_2_1.cfg", "all 65 536 pairs of 3-variable functions, left {x0,x2} right {x1}", workers=16, timeout=3000, xmx="8g")


def C03(ctx):
    ctx.assumptions += ["SDD denotations are recomputed by TLC from raw element lists (prime/sub pointers, complement bits)",
                        "vtrees: right-linear, left-linear, even-split, dtree-derived and random shapes with random leaf labellings, <= 5 variables",
                        "uncompressed segments are kept short (<= 30 operations): uncompressed random programs blow up in the library itself"]
    sdd_apply_model(ctx)
    function_level_vectors(ctx, "sddvec")
    _sdd_family(ctx, "c03", "TraceSdd_C03.cfg", nq=8)


def C04(ctx):
    ctx.assumptions += ["well-formedness is evaluated on truth tables of every prime and sub of every new node (partition, vtree sides, distinct subs, untrimmable)",
                        "unique-table growth forced by the capacity hook (both SDD tables use BackedRobinhoodTable)"]
    sdd_apply_model(ctx)
    # both SDD unique tables are BackedRobinhoodTable in structural-equality mode: the design-level check and the
    # table-level conformance checks of C02 apply to C04's "pointer-equal iff same function" as well
    model_check(ctx, "RobinHood", "MC_RobinHood.cfg", "RobinHood (as repaired) refines SetTable: 5 keys, 4 hashes, cap 2->8", workers=6)
    gen_and_replay(ctx, "GenTable", "GenTable.cfg", "table", "all get_or_insert sequences of the bounded RobinHood model")
    record_and_validate(ctx, [("table_%d" % i, ["record", "table", "--byhash", "never", "--seed", ctx.seed * 1000 + 50 + i, "--segments", 25, "--len", 60])
                              for i in range(3 if ctx.quick else 16 * TH)], "TraceTable", "TraceTable.cfg")
    _sdd_family(ctx, "c04", "TraceSdd_C04.cfg", nq=10)
    # wide decision nodes: 6 variables under the left child, 3 under the right; conjunction of two fine partitions (a node of ~50
    # elements after compression), the same result along two routes (9 variables: TLC works on sets of 512 assignments)
    record_and_validate(ctx, [("sdd_wide_%d" % i, ["record", "sdd", "--mode", "wide", "--seed", ctx.seed * 1000 + i, "--segments", 1 if ctx.quick else 2,
                                                   "--nmax", 9]) for i in range(1 if ctx.quick else 6)], "TraceSdd", "TraceSdd_C04.cfg")
    stress_canonical(ctx, "sdd")
    # spec -> impl, canonicity verdict only: among the results of the TLC-generated operations in one compressing builder (all vtrees of 3
    # variables, wide vtrees over 70 / 160 labels, lifted 128-element nodes) the same function is the same pointer
    function_level_vectors(ctx, "sddvec", extra=["--check", "canon"])


def C05(ctx):
    ctx.assumptions += ["CNF / expression / plan semantics = EvalCnf / EvalExpr of spec/BoolFn.tla evaluated by TLC",
                        "plans derived from DTree::from_cnf are logged as trees: TLC evaluates the plan itself"]
    # design level: compile_cnf as coded on the stateful builder machine (store + persistent apply cache), every history of compilations
    bdd_machine(ctx, "C05")
    cnf_vectors(ctx, ["bdd", "sdd", "sdd-dtree"])
    # binding of that model: consecutive compilations in one real cache-everything builder; right models (L1); same diagram after the
    # same number of recursive calls as the machine makes from its own store and cache (MODEL-DRIFT)
    record_and_validate(ctx, [("machine_c05_%d" % i, ["record", "machine", "--mode", "c05", "--seed", ctx.seed * 1000 + 750 + i,
                                                      "--segments", 5 if ctx.quick else 10, "--len", 30, "--nmax", 3 + (i % 2)])
                              for i in range(3 if ctx.quick else 12 * TH)], "TraceMachine", "TraceMachine.cfg")
    _bdd_family(ctx, "c05", "TraceBdd_C05.cfg")
    _sdd_family(ctx, "c05", "TraceSdd_C05.cfg", nq=4, nt=24)


def C07(ctx):
    ctx.assumptions += ["weights are dyadic rationals k/8 or small integers: every f64 operation of the code is exact",
                        "RationalSemiring has no public constructor: only naturals built from one/zero/+/* are reachable"]
    folds_model(ctx)
    # spec -> impl: for every function of 3 variables x 6 semirings x K weight vectors TLC prints the count from the definition
    # (normalised weights) and the unsmoothed count of the ROBDD under EVERY order (arbitrary weights); compared with the library
    # on BDDs (all orders), SDDs (3 vtree shapes) and top-down d-DNNFs (both stores)
    cfg = mkcfg(ctx, "GenWmc_3.cfg", "SPECIFICATION Spec\nCONSTANTS\n  NV = 3\n  PD = 6\n  Sample = 1\n  Seed = %d\n  K = %d\nCHECK_DEADLOCK FALSE\n" % (ctx.seed, 1 if ctx.quick else 8))
    gen_and_replay(ctx, "GenWmc", cfg, "wmcvec", "weighted counts of all 256 functions of 3 variables x 6 semirings x %d weight vectors x all 6 orders" % (1 if ctx.quick else 8),
                   extra_replay=["--nv", 3], timeout=2400)
    if not ctx.quick:
        cfg = mkcfg(ctx, "GenWmc_4.cfg", "SPECIFICATION Spec\nCONSTANTS\n  NV = 4\n  PD = 6\n  Sample = 64\n  Seed = %d\n  K = 2\nCHECK_DEADLOCK FALSE\n" % (ctx.seed % 64))
        gen_and_replay(ctx, "GenWmc", cfg, "wmcvec", "weighted counts of 1/64 of the functions of 4 variables x 6 semirings x all 24 orders", extra_replay=["--nv", 4], timeout=2400)
    _bdd_family(ctx, "c07", "TraceBdd_C07.cfg")
    _sdd_family(ctx, "c07", "TraceSdd_C07.cfg", nq=4, nt=24)
    record_and_validate(ctx, td_jobs(ctx, 3 if ctx.quick else 16 * TH, 120), "TraceTopDown", "TraceTopDown_C07.cfg")


ORDERS4 = ["1234", "3142", "4321", "2413"]


def smooth_model(ctx):
    """SmoothAlgo: smooth_helper (as repaired) keeps the function, tests the first n levels once and in order on every
    path and therefore counts exactly under arbitrary weights - all functions x all n, per order; the helper as originally
    coded (D2) must fail; and every (f, n, order) behaviour of the model is reproduced by the real smooth()."""
    o3 = ORDERS3 if not ctx.quick else [ORDERS3[ctx.seed % 6], ORDERS3[(ctx.seed + 2) % 6], ORDERS3[(ctx.seed + 4) % 6]]
    for o in o3:
        model_check(ctx, "MC_SmoothAlgo", "MC_SmoothAlgo_3_%s.cfg" % o, "smooth_helper: all 256 functions of 3 variables x n = 0..3, order %s" % o, workers=2)
        cfg = mkcfg(ctx, "GenSmooth_3_%s.cfg" % o, "SPECIFICATION Spec\nCONSTANTS\n  NV = 3\n  Ord <- Ord%s\n  AsCoded = FALSE\n  Sample = 1\n  Seed = 0\nCHECK_DEADLOCK FALSE\n" % o)
        gen_and_replay(ctx, "GenSmooth", cfg, "smoothvec", "smooth(f, n) for all functions of 3 variables, n = 0..3, order %s" % o, extra_replay=["--nv", 3])
    model_check(ctx, "MC_SmoothAlgo", "MC_SmoothAlgo_ascoded.cfg", "regression: smooth_helper as originally coded (D2) skips levels", workers=2, expect_violation=True)
    for o in (ORDERS4 if not ctx.quick else [ORDERS4[ctx.seed % 4]]):
        if not ctx.quick:
            model_check(ctx, "MC_SmoothAlgo", "MC_SmoothAlgo_4_%s.cfg" % o, "smooth_helper: all 65 536 functions of 4 variables x n = 0..4, order %s" % o, workers=8, timeout=1800)
        cfg = mkcfg(ctx, "GenSmooth_4_%s.cfg" % o, "SPECIFICATION Spec\nCONSTANTS\n  NV = 4\n  Ord <- Ord%s\n  AsCoded = FALSE\n  Sample = %d\n  Seed = %d\nCHECK_DEADLOCK FALSE\n"
                    % (o, 64 if ctx.quick else 4, ctx.seed))
        gen_and_replay(ctx, "GenSmooth", cfg, "smoothvec", "smooth(f, n) for 1/%d of the functions of 4 variables, n = 0..4, order %s" % (64 if ctx.quick else 4, o),
                       extra_replay=["--nv", 4], timeout=1500)


def C08(ctx):
    smooth_model(ctx)
    _bdd_family(ctx, "c08", "TraceBdd_C08.cfg")


def folds_model(ctx):
    model_check(ctx, "ScratchFolds", "MC_ScratchFolds.cfg", "fold / count_nodes / clear_scratch as coded: pure and scratch-empty for all 1424 DAGs (3 nodes, 3 levels, "
                "complement edges, don't-care nodes) x all sequences of 3 queries", workers=6, timeout=900)
    model_check(ctx, "ScratchFolds", "MC_ScratchFolds_skip.cfg", "regression: not memoising don't-care nodes leaves scratch behind", workers=2, expect_violation=True)


def C10(ctx):
    folds_model(ctx)
    _bdd_family(ctx, "c10", "TraceBdd_C10.cfg")
    _sdd_family(ctx, "c10", "TraceSdd_C10.cfg", nq=4, nt=24)
    # top-down diagrams: conditioning, node counting and counting interleaved; scratch empty on every known node after every call
    record_and_validate(ctx, td_jobs(ctx, 3 if ctx.quick else 16 * TH, 150), "TraceTopDown", "TraceTopDown_C10.cfg")


def C11(ctx):
    ctx.assumptions += ["a collision of two different functions under a 32/64-bit prime would be reported as a violation; "
                        "probability < 1e-9 per run for the 64-bit prime, seeds are fixed"]
    _bdd_family(ctx, "c11", "TraceBdd_C11.cfg")
    _sdd_family(ctx, "c11", "TraceSdd_C11.cfg", nq=3, nt=16)
    _sdd_family(ctx, "sem", "TraceSdd_C11.cfg", nq=4, nt=24)
    record_and_validate(ctx, td_jobs(ctx, 3 if ctx.quick else 16 * TH, 150), "TraceTopDown", "TraceTopDown_C11.cfg")
    # one trace across representations: the same functions as BDDs (2 orders), SDDs (2 vtrees) and top-down d-DNNFs
    # (both stores), their negations included: the hash must be a function of the denotation, and 1 - hash for the negation
    record_and_validate(ctx, [("hashx_%d" % i, ["record", "hashx", "--seed", ctx.seed * 1000 + i, "--segments", 40 if ctx.quick else 100,
                                                "--nmax", 4 + (i % 2)]) for i in range(3 if ctx.quick else 16 * TH)], "TraceSer", "TraceSer.cfg")
    # the hash-identified builders drive the unique table in equality-by-hash mode: the table must then be a set
    # keyed by the FULL 64-bit hash (RobinHood refines SetTable with ByHash = TRUE; wide hashes agreeing on 32 bits)
    model_check(ctx, "RobinHood", "MC_RobinHood_byhash.cfg", "RobinHood in equality-by-hash mode refines SetTable keyed by hash", workers=6)
    # "a negation hashes to one minus the hash" rests on FiniteField::negate (an anchor of this property): its residues at the
    # boundaries 0, 1, P-1 for every exported prime, as logged by the semiring recorder and checked on limbs
    record_and_validate(ctx, [("sr_ff_%d" % i, ["record", "semiring", "--seed", ctx.seed * 1000 + 700 + i, "--segments", 20])
                              for i in range(1 if ctx.quick else 4)], "TraceSemiring", "TraceSemiring.cfg")
    # long histories of ONE hash-identified builder: N pseudo-random 6-variable functions with their conjunctions / disjunctions as
    # printed by TLC, all built in a single semantic SDD builder (tens of thousands of live nodes): every diagram must denote its set.
    # An identity narrower than the 64-bit field (truncated or re-mixed table hash) merges different functions in this regime.
    for k in range(1 if ctx.quick else 3):
        cfg = mkcfg(ctx, "GenStress_%d.cfg" % k, "SPECIFICATION Spec\nCONSTANTS\n  NV = 6\n  N = %d\n  Seed = %d\nCHECK_DEADLOCK FALSE\n" % (20000 if ctx.quick else 60000, ctx.seed + 10 * k))
        gen_and_replay(ctx, "GenStress", cfg, "stressvec", "%d pseudo-random 6-variable functions + and / or / neg in one semantic SDD builder per vtree" % (20000 if ctx.quick else 60000),
                       extra_replay=["--nv", 6], timeout=2400)
    # very wide decision nodes (512 elements, lifted from 1 024 pairwise different TLC-printed 4-variable functions): cached SDD hash =
    # fold-based SDD hash = hash of the same function built as a BDD, hash + hash of the negation = 1 (32-bit field twice, 64-bit field once;
    # one field per builder)
    gen_and_replay(ctx, "GenBdd", genbdd_cfg(ctx, "GenBdd_u4h", 4, "unary", 16), "sddvec", "hashes of lifted 512-element SDD nodes against the same functions as BDDs",
                   extra_replay=["--nv", 4, "--seed", ctx.seed, "--check", "hash"], timeout=1500)
    n = 3 if ctx.quick else 16 * TH
    record_and_validate(ctx, [("table_bh_%d" % i, ["record", "table", "--byhash", "only", "--seed", ctx.seed * 1000 + i, "--segments", 25, "--len", 60])
                              for i in range(n)], "TraceTable", "TraceTable.cfg")


def C12(ctx):
    model_check(ctx, "MC_BranchBound", "MC_BranchBound_2.cfg", "marginal MAP branch and bound: bound is an upper bound and the search returns the optimum, "
                "all 2-variable functions x query lists x weight grid (3600 configurations)", workers=4, timeout=900)
    if not ctx.quick:
        model_check(ctx, "MC_BranchBound", "MC_BranchBound_3.cfg", "the same for all 256 3-variable functions x 16 query lists x weight grids (1.56M states), order x1 < x2 < x0",
                    workers=12, timeout=3400, xmx="8g")
    # spec -> impl: for every function of 3 variables, every query list of >= 2 variables in every listing order and K grid
    # weight vectors, TLC prints the score of every query assignment (the definition); marginal_map and bb must return the maximum
    cfg = mkcfg(ctx, "GenMmap_3.cfg", "SPECIFICATION Spec\nCONSTANTS\n  NV = 3\n  PD = 1\n  Sample = 1\n  Seed = %d\n  K = %d\nCHECK_DEADLOCK FALSE\n" % (ctx.seed, 4 if ctx.quick else 48))
    gen_and_replay(ctx, "GenMmap", cfg, "mmapvec", "marginal_map / bb on all 256 functions of 3 variables x 12 query lists x %d weight vectors" % (4 if ctx.quick else 48),
                   extra_replay=["--nv", 3, "--seed", ctx.seed], timeout=1800)
    cfg = mkcfg(ctx, "GenMmap_4.cfg", "SPECIFICATION Spec\nCONSTANTS\n  NV = 4\n  PD = 1\n  Sample = %d\n  Seed = %d\n  K = %d\nCHECK_DEADLOCK FALSE\n"
                % (64 if ctx.quick else 32, ctx.seed % 32, 1 if ctx.quick else 3))
    gen_and_replay(ctx, "GenMmap", cfg, "mmapvec", "marginal_map / bb on 1/%d of the functions of 4 variables x 48 query lists" % (64 if ctx.quick else 32),
                   extra_replay=["--nv", 4, "--seed", ctx.seed], timeout=2400)
    # the same for maximum expected utility: the utility of EVERY assignment of every list of decision variables, per variable order
    for o in (ORDERS3 if not ctx.quick else [ORDERS3[ctx.seed % 6], ORDERS3[(ctx.seed + 3) % 6]]):
        cfg = mkcfg(ctx, "GenMeu_3_%s.cfg" % o, "SPECIFICATION Spec\nCONSTANTS\n  NV = 3\n  PD = 1\n  Ord <- Ord%s\n  Sample = 1\n  Seed = %d\n  K = %d\nCHECK_DEADLOCK FALSE\n"
                    % (o, ctx.seed, 1 if ctx.quick else 6))
        gen_and_replay(ctx, "GenMeu", cfg, "meuvec", "meu / bb(EU) on all 256 functions of 3 variables x 4 decision lists x %d weight vectors, order %s" % (1 if ctx.quick else 6, o),
                       extra_replay=["--nv", 3], timeout=1800)
    if not ctx.quick:
        for o in ("1234", "3142", "4321"):
            cfg = mkcfg(ctx, "GenMeu_4_%s.cfg" % o, "SPECIFICATION Spec\nCONSTANTS\n  NV = 4\n  PD = 1\n  Ord <- Ord%s\n  Sample = 16\n  Seed = %d\n  K = 2\nCHECK_DEADLOCK FALSE\n"
                        % (o, ctx.seed % 16))
            gen_and_replay(ctx, "GenMeu", cfg, "meuvec", "meu / bb(EU) on 1/16 of the functions of 4 variables x 15 decision lists, order %s" % o, extra_replay=["--nv", 4], timeout=2400)
    ctx.assumptions += ["domain as stated in the property: probabilities k/8 summing to one off the query variables; MEU: "
                        "decision variables weigh (1,0), rewards >= 0 on the last variables of the order"]
    _bdd_family(ctx, "c12", "TraceBdd_C12.cfg")


def C09(ctx):
    ctx.assumptions += [
        "entailment and unsatisfiability are decided by TLC by enumerating all assignments (<= 6 variables)",
        "CNFs keep <= 25 literal occurrences so that the prime-product residual hash cannot wrap 128 bits",
        "domain: pops never exceed successful decides; decision labels < num_vars",
    ]
    model_check(ctx, "MC_Watched", "MC_Watched.cfg", "Watched (as repaired) refines UnitProp and keeps the two-watched-literal invariant (TwoWatch) over all decide/pop interleavings, 8 CNF shapes", workers=6)
    # proof (TLAPS, any clause, any assignment): TwoWatch implies that the clause is neither falsified nor unit (the fixpoint clause of C09)
    proof_check(ctx, "WatchLemma", "a clause watched by two distinct non-false literals of its own (or satisfied) is neither falsified nor unit")
    model_check(ctx, "MC_Watched", "MC_Watched_all2.cfg", "all 400 two-clause CNFs over 3 variables, depth 4", workers=8, timeout=1200)
    model_check(ctx, "MC_Watched", "MC_Watched_ascoded.cfg", "regression: the replacement-watch choice as originally coded misses a unit",
                workers=2, expect_violation=True)
    # spec -> impl -> spec: every decide/pop behaviour (depth 4) of the bounded model replayed into the real SATSolver
    fam = "Fam3" if ctx.quick else "FamAll2"
    cfg = mkcfg(ctx, "GenWatched_%s.cfg" % fam, "SPECIFICATION GSpec\nCONSTANTS\n  NV = 3\n  PickAsCoded = FALSE\n  MaxDepth = 9\n  GDepth = %d\n  Family <- %s\n"
                "INVARIANT Emit\nCHECK_DEADLOCK FALSE\n" % (4 if ctx.quick else 3, fam))
    gen_record_validate(ctx, "MC_GenWatched", cfg, "satvec", "all decide/pop behaviours of the bounded Watched model (%s)" % fam,
                        "TraceUnitProp", "TraceUnitProp.cfg", chunks=6 if ctx.quick else 16, extra=["--nv", 3], timeout=2400)
    n = 6 if ctx.quick else 40 * TH
    segs = 40 if ctx.quick else 60
    # odd-numbered traces: clauses of 3..5 distinct variables and an adversarial driver that falsifies the open literals of
    # not-yet-satisfied clauses one by one (every clause is driven to unit through watched and unwatched literals alike)
    record_and_validate(ctx, [("sat_%d" % i, ["record", "sat", "--seed", ctx.seed * 1000 + i, "--segments", segs, "--len", 40,
                                              "--nmax", 5 + (i % 2)] + (["--attack", 1, "--wide", 1, "--nmax", 6] if i % 2 else [])
                                             # every third trace: the solver works over 70 / 130 labels, the CNF's variables sit on scattered labels
                                             # (two congruent modulo 64); the record is in the compact numbering (monotone embedding)
                                             + (["--labels", 70 if i % 2 else 130] if i % 3 == 2 else []))
                              for i in range(n)]
                        # bulk-padded solvers: thousands of satisfied clauses over two fresh variables put the recorded clauses at literal
                        # occurrences around number 55 / 6 543 (the first primes that do not fit 8 / 16 bits): equal hashes must still
                        # mean equal residuals (the record shows the recorded clauses only; adversarial driver)
                        + [("sat_long_%d" % i, ["record", "sat", "--seed", ctx.seed * 1000 + 900 + i, "--segments", 12, "--len", 30, "--nmax", 10])
                           for i in range(1 if ctx.quick else 3 * TH)]     # 10 variables, a clause of 9+ literals
                        + [("sat_bulk_%d" % i, ["record", "sat", "--seed", ctx.seed * 1000 + 800 + i, "--segments", segs, "--len", 40, "--nmax", 6,
                                                "--attack", 1, "--wide", 1, "--bulk", 1]) for i in range(2 if ctx.quick else 8 * TH)],
                        "TraceUnitProp", "TraceUnitProp.cfg")


def td_jobs(ctx, n, segs, nmax=5):
    # every third trace: builders over up to 90 labels, the CNFs' variables on scattered labels (recorded in the compact numbering)
    return [("td_%d" % i, ["record", "topdown", "--seed", ctx.seed * 1000 + i, "--segments", segs, "--nmax", nmax + (i % 2)]
             + (["--labels", 90] if i % 3 == 2 else []))
            for i in range(n)]


def C06(ctx):
    ctx.assumptions += ["CNFs <= 6 variables, <= 9 clauses; every permutation of the variables may be the decision order (random)",
                        "both node stores (standard, semantic-hash over the 64-bit prime); conditioning on every (variable, value) of results and their negations",
                        "engineered family: unit clauses + a two-variable core whose (un)satisfiability is only found by search"]
    # design level: topdown_h + compile_cnf_topdown over the Watched SAT model compute exactly EvalCnf, and the
    # component cache (keyed by the residual) never changes the result - all CNFs of the family x all 6 orders
    model_check(ctx, "MC_TopDown", "MC_TopDown.cfg", "TopDownAlgo exact + cache-transparent: 10 hand-picked CNFs x 6 orders", workers=4)
    cnf_vectors(ctx, ["topdown"])
    model_check(ctx, "MC_TopDown", "MC_TopDown_all2.cfg", "all 676 two-clause CNFs over 3 variables x 6 orders", workers=8, timeout=1200)
    if not ctx.quick:
        model_check(ctx, "MC_TopDown", "MC_TopDown_all3.cfg", "all 10 400 three-clause CNFs over 3 variables x 6 orders", workers=16, timeout=3000, xmx="8g")
    # + CNFs over 10 variables with a clause of 9 or more literals of mixed polarity (TLC's universe: 1024 assignments)
    record_and_validate(ctx, td_jobs(ctx, 8 if ctx.quick else 40 * TH, 300 if ctx.quick else 500)
                        + [("td_long_%d" % i, ["record", "topdown", "--seed", ctx.seed * 1000 + 600 + i, "--segments", 12, "--nmax", 10])
                           for i in range(1 if ctx.quick else 3 * TH)], "TraceTopDown", "TraceTopDown_C06.cfg")


def C15(ctx):
    ctx.assumptions += ["CNFs keep <= 25 literal occurrences: the hasher's prime product fits 128 bits, so 'equal hash only if equal residual' applies",
                        "hasher domain: the partial model is kept in sync with the decide calls (decide(l) together with m.set(l)); variables < num_vars"]
    # design level: the incremental hasher (stack of unsatisfied-clause sets, decide / push / pop, caller's model possibly ahead of
    # the decisions) computes what a from-scratch pass computes, and the kept-occurrence set is in bijection with the residual
    for fam, what in (("Mixed", "6 clauses incl. unit, tautology, duplicate; 3 variables"), ("Chain", "5 binary clauses in a cycle; 4 variables")) + \
            ((("Regroup", "regrouping CNF; 5 variables"),) if not ctx.quick else ()):
        model_check(ctx, "MC_HasherAlgo", "MC_HasherAlgo_%s.cfg" % fam, "HasherAlgo: every push/decide/imply/pop history (<= 2 pushes), %s" % what, workers=6, timeout=900)
    # proof (TLAPS, any clause set, any literals, histories of any depth): the clauses kept by the stack-based computation for the
    # caller's model are those a from-scratch pass keeps (inductive invariant: every frame has only lost clauses its model satisfies)
    proof_check(ctx, "HasherProof", "the incremental hasher keeps exactly the clauses a from-scratch pass keeps, for any CNF and any push/decide/imply/pop history")
    model_check(ctx, "MC_HasherAlgo", "MC_HasherAlgo_perliteral.cfg", "regression: one prime per literal (not per occurrence) confuses regrouped residuals",
                workers=2, expect_violation=True)
    n = 4 if ctx.quick else 30 * TH
    record_and_validate(ctx, [("cnf_%d" % i, ["record", "cnf", "--seed", ctx.seed * 1000 + i, "--segments", 60 if ctx.quick else 120,
                                              "--nmax", 6 + (i % 3)]) for i in range(n)], "TraceCnf", "TraceCnf.cfg")


def C14(ctx):
    ctx.assumptions += ["CNFs without empty clauses and with at least one clause (FORCE divides by the clause length / count)",
                        "vtree manager: random vtrees with 1..6 leaves, labels not necessarily dense; all pairs of node indices"]
    # design level: eo2dtree + from_dtree as transcribed (DTreeAlgo) are well formed for every CNF of a family x EVERY elimination order
    model_check(ctx, "MC_DTreeAlgo", "MC_DTreeAlgo_2.cfg", "DTreeAlgo: all CNFs of <= 2 clauses (width <= 3, repeated / complementary literals) over 3 variables x 6 orders", workers=4)
    model_check(ctx, "MC_DTreeAlgo", "MC_DTreeAlgo_3.cfg", "DTreeAlgo: 5 850 CNFs of <= 3 clauses over 3 variables x 6 orders", workers=6)
    model_check(ctx, "MC_DTreeAlgo", "MC_DTreeAlgo_ascoded.cfg", "regression: from_cnf as originally coded (D9, no init_vars before gen_cutset) is not well formed",
                workers=2, expect_violation=True)
    if not ctx.quick:
        model_check(ctx, "MC_DTreeAlgo", "MC_DTreeAlgo_4.cfg", "DTreeAlgo: 19 032 CNFs of <= 3 clauses over 4 variables x 24 orders", workers=12, timeout=1800)
        model_check(ctx, "MC_DTreeAlgo", "MC_DTreeAlgo_5.cfg", "DTreeAlgo: CNFs of <= 5 clauses (binary clauses, units, an empty clause) over 3 variables x 6 orders", workers=12, timeout=1800)
    # design level: min_fill_order / force_order as transcribed (OrderAlgo): a permutation comes out for every CNF of a family, the greedy
    # choice eliminates chordal graphs without fill edges, FORCE stops within (initial span / #clauses) + 1 rounds
    model_check(ctx, "MC_OrderAlgo", "MC_OrderAlgo_3q.cfg", "OrderAlgo: min-fill + FORCE as coded on 2 500 CNFs of <= 3 clauses over 3 variables (repeated variables, both polarities)", workers=6, timeout=900)
    if not ctx.quick:
        model_check(ctx, "MC_OrderAlgo", "MC_OrderAlgo_4q.cfg", "OrderAlgo: 700 CNFs of <= 3 positive clauses over 4 variables", workers=8, timeout=1800)
        model_check(ctx, "MC_OrderAlgo", "MC_OrderAlgo_4.cfg", "OrderAlgo: 9 954 CNFs of <= 4 positive clauses over 4 variables", workers=12, timeout=3000)
    # proof (TLAPS, any number of variables and extensions): the two tables of a VarOrder (new + new_last as coded) stay mutually inverse
    proof_check(ctx, "VarOrderProof", "VarOrder::new / new_last keep var_to_pos and pos_to_var mutually inverse bijections, fresh label last")
    n = 4 if ctx.quick else 30 * TH
    record_and_validate(ctx, [("orders_%d" % i, ["record", "orders", "--seed", ctx.seed * 1000 + i, "--segments", 80 if ctx.quick else 150,
                                                 "--nmax", 4 + (i % 3)]) for i in range(n)], "TraceOrders", "TraceOrders.cfg")
    beyond_structures(ctx)


def beyond_structures(ctx):
    """Specification coverage beyond the listed properties (never an alarm, never a tool error of the owning check): util/hypergraph.rs
    as a state machine (Hypergraph.tla: insert_edge / cut_vertex / covers / widths / cut edges; the one-pass cover fold as coded equals the
    connected components), util/btree.rs (BTrees.tla: in-order / breadth-first iterators, index maps, Euler-tour LCA as coded = deepest
    common ancestor), VarOrder's read-only queries and WmcParams; recorded from the real code and validated against TraceExtras.tla."""
    try:
        model_check(ctx, "MC_Hypergraph", "MC_Hypergraph.cfg" if ctx.quick else "MC_Hypergraph_5.cfg",
                    "Hypergraph: every insert_edge / cut_vertex history over 4 vertices: covers partition the edges, fold as coded = components",
                    workers=4, timeout=900, beyond=True)
        model_check(ctx, "MC_BTrees", "MC_BTrees.cfg" if ctx.quick else "MC_BTrees_15.cfg",
                    "BTrees: queue-based BFS = order by depth then left-to-right; index maps inverse; Euler-tour range-minimum LCA = deepest common ancestor, all trees",
                    workers=1, timeout=900, beyond=True)
        n = 2 if ctx.quick else 6 * TH
        record_and_validate(ctx, [("extras_%d" % i, ["record", "extras", "--seed", ctx.seed * 1000 + i, "--segments", 40 if ctx.quick else 120,
                                                     "--nmax", 5 + (i % 3)]) for i in range(n)], "TraceExtras", "TraceExtras.cfg", beyond=True)
    except ToolError as ex:
        ctx.deviations.append("beyond-list machinery did not complete: %s" % str(ex)[:300])


def C13(ctx):
    ctx.assumptions += ["real / complex / expected-utility components are dyadic rationals k/8 (every f64 operation exact); polynomial coefficients small integers",
                        "finite-field products of the 64/96-bit primes are certified (a*b = q*P + r with r < P, checked by limb arithmetic in Bignum.tla), not recomputed",
                        "RationalSemiring: only naturals are reachable through the public API"]
    model_check(ctx, "MC_Semirings", "MC_Semirings.cfg", "the reference carriers obey the semiring / ring / lattice laws (exhaustive small grids)", workers=1, timeout=900)
    n = 3 if ctx.quick else 12 * TH
    jobs = [("sr_%d" % i, ["record", "semiring", "--seed", ctx.seed * 1000 + i, "--segments", 300 if ctx.quick else 1200] + ([] if ctx.quick else ["--thorough"]))
            for i in range(n)]
    record_and_validate(ctx, jobs, "TraceSemiring", "TraceSemiring.cfg")


def C17(ctx):
    ctx.assumptions += ["free text is produced by the driver's printers (harness/src/ser_rec.rs, ~40 lines) from the structured input that TLC sees; "
                        "the serde JSON of the BDD/SDD/vtree serialisers is read by TLC itself",
                        "s-expression variable names come from a fixed list whose byte order is a constant of the specification; no True/False constants (todo!() in the parser's consumer)",
                        "DIMACS inputs have at least one variable and one clause and no empty clause for the expression parser (the code unwraps)"]
    # design level: the BDD serialiser's walk (memo: node -> index, complement bit taken from the edge) is faithful for every DAG with
    # complement edges and every root; the variant that replays the first-seen pointer must fail
    model_check(ctx, "SerAlgo", "MC_SerAlgo.cfg", "SerAlgo: all 1 503 DAGs of <= 3 nodes over 3 levels x every root pointer x all assignments", workers=4)
    model_check(ctx, "SerAlgo", "MC_SerAlgo_freeze.cfg", "regression: a memo that freezes the first-seen complement bit is not faithful", workers=2, expect_violation=True)
    if not ctx.quick:
        model_check(ctx, "SerAlgo", "MC_SerAlgo_4.cfg", "SerAlgo: all 42 687 DAGs of <= 4 nodes over 3 levels", workers=8)
    n = 4 if ctx.quick else 30 * TH
    record_and_validate(ctx, [("ser_%d" % i, ["record", "ser", "--seed", ctx.seed * 1000 + i, "--segments", 50 if ctx.quick else 120,
                                              "--nmax", 4 + (i % 2)]) for i in range(n)], "TraceSer", "TraceSer.cfg")


def C18(ctx):
    ctx.assumptions += ["the extern \"C\" symbols are linked from the rlib built with --features ffi and called with the C calling convention from the harness",
                        "domain: bdd_topvar / bdd_low / bdd_high on non-constant diagrams only (documented TODO in the code)",
                        "native reference for robdd_model_count = the composition it is documented to wrap (smooth over all variables + unit-weight count in the 64-bit field)"]
    n = 6 if ctx.quick else 40 * TH
    record_and_validate(ctx, [("ffi_%d" % i, ["record", "ffi", "--seed", ctx.seed * 1000 + i, "--segments", 5, "--len", 150 if ctx.quick else 300,
                                              "--nmax", 4 + (i % 3)]) for i in range(n)], "TraceBdd", "TraceBdd_C18.cfg")


def C19(ctx):
    ctx.assumptions += ["the binaries are built from /repo's working tree with --features cli into harness/target-cli and run on generated files",
                        "weights are k/8 (k <= 16): the printed shortest-round-trip decimal parses back to the exact f64; a configured order lists every variable",
                        "formula variables from a fixed name list whose byte order is a constant of the specification; single-count mode (no partial assignments)"]
    bindir = build_cli()
    n = 4 if ctx.quick else 24 * TH
    record_and_validate(ctx, [("cli_%d" % i, ["record", "cli", "--seed", ctx.seed * 1000 + i, "--segments", 60 if ctx.quick else 120,
                                              "--bindir", bindir, "--work", ctx.work]) for i in range(n)], "TraceSer", "TraceSer.cfg")
