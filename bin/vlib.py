"""Shared runner machinery for /verif/bin/check: build the harness, run TLC as a
model checker / trace validator / vector generator, collect evidence."""
import concurrent.futures as cf
import json
import os
import re
import shutil
import subprocess
import sys
import time

VERIF = os.path.dirname(os.path.dirname(os.path.abspath(__file__)))
SPEC = os.path.join(VERIF, "spec")
HARNESS = os.path.join(VERIF, "harness")
RV = os.path.join(HARNESS, "target", "debug", "rv")
JAVA_CP = "/opt/veriftools/tla/tla2tools.jar:/opt/veriftools/tla/CommunityModules-deps.jar"


class ToolError(Exception):
    pass


class Ctx:
    def __init__(self, pid, tier, seed):
        self.pid = pid
        self.tier = tier
        # VERIF_SEED may be any integer: it is folded into a small range (recorders multiply it by 1000, TLC integers are 32-bit
        # and the generators multiply their Seed constant); 1, 2, 3, ... are kept as they are
        self.seed = abs(int(seed)) % 9973
        self.t0 = time.time()
        self.work = os.path.join(VERIF, "work", pid)
        shutil.rmtree(self.work, ignore_errors=True)
        os.makedirs(self.work, exist_ok=True)
        self.replays = os.path.join(VERIF, "replays", pid)
        os.makedirs(self.replays, exist_ok=True)
        self.states = 0
        self.transitions = 0
        self.traces = 0
        self.events = 0
        self.vectors = 0
        self.samples = []
        self.notes = []
        self.mc_runs = []
        self.violations = []          # (what, replay path)
        self.drift = []
        self.deviations = []          # behaviour beyond the listed properties that differs from its specification: never an alarm
        self.beyond = []              # what was covered beyond the listed property
        self.assumptions = []
        self.extra = {}
        self.exhaustive = False

    @property
    def quick(self):
        return self.tier == "quick"

    def sample(self, s, cap=6):
        if len(self.samples) < cap:
            self.samples.append(s)

    def violation(self, what, replay):
        self.violations.append((what, replay))


def sh(cmd, timeout=None, env=None, cwd=None):
    e = dict(os.environ)
    if env:
        e.update(env)
    try:
        p = subprocess.run(cmd, stdout=subprocess.PIPE, stderr=subprocess.STDOUT, timeout=timeout,
                           env=e, cwd=cwd, text=True, errors="replace")
        return p.returncode, p.stdout
    except subprocess.TimeoutExpired as ex:
        out = ex.stdout if isinstance(ex.stdout, str) else (ex.stdout or b"").decode(errors="replace")
        return 124, out


_built = False


def build_harness():
    """(Re)build the recorder against /repo's current working tree, hooks on."""
    global _built
    if _built:
        return
    lock = os.path.join(HARNESS, "Cargo.lock")
    if not os.path.exists(lock):
        shutil.copy("/repo/Cargo.lock", lock)
    rc, out = sh(["cargo", "build", "--offline"], timeout=1500, cwd=HARNESS,
                 env={"CARGO_NET_OFFLINE": "true"})
    if rc != 0:
        sys.stdout.write(out[-4000:])
        raise ToolError("harness build failed (does /repo still compile with --cfg rsdd_verif?)")
    _built = True


CLI_TARGET = os.path.join(HARNESS, "target-cli")


def build_cli():
    """build the command-line tools of /repo's current working tree (feature `cli`) into harness/target-cli"""
    rc, out = sh(["cargo", "build", "--offline", "--manifest-path", "/repo/Cargo.toml", "--features", "cli", "--bins",
                  "--target-dir", CLI_TARGET], timeout=1500, env={"CARGO_NET_OFFLINE": "true"})
    if rc != 0:
        sys.stdout.write(out[-3000:])
        raise ToolError("building the CLI binaries failed")
    return os.path.join(CLI_TARGET, "debug")


class Crashed(ToolError):
    """the driver process was killed by SIGSEGV / SIGABRT / SIGBUS / SIGILL: a stack overflow or abort inside the code under test
    (the driver's own recursion is shallow and runs clean on the unchanged tree). Data, like a panic - not SIGKILL / SIGTERM, which
    are the environment's doing."""


def rv(args, timeout=600):
    rc, out = sh([RV] + [str(a) for a in args], timeout=timeout)
    if rc in (-11, -6, -7, -4, 139, 134, 135, 132):
        raise Crashed("driver killed by signal (rc=%s): rv %s\n%s" % (rc, " ".join(map(str, args)), out[-1500:]))
    if rc != 0:
        raise ToolError("recorder failed rc=%s: %s\n%s" % (rc, " ".join(map(str, args)), out[-2000:]))
    return out


def tlc(module, cfg, workdir, env=None, workers=1, timeout=900, xmx="3g", extra=None, deque=False):
    """Run TLC on spec/<module>.tla with spec/<cfg>; returns (rc, output)."""
    # unique per call: several validations of one configuration run side by side
    meta = os.path.join(workdir, "md_%s_%d_%d_%s" % (os.path.basename(cfg), os.getpid(), int(time.time() * 1000) % 10 ** 9, os.urandom(3).hex()))
    jopts = "-Xss1g"
    if deque:
        jopts += " -Dtlc2.tool.queue.IStateQueue=StateDeque"
    cmd = ["timeout", str(timeout), "java", "-XX:+UseParallelGC", "-Xmx" + xmx, "-cp", JAVA_CP, "tlc2.TLC",
           "-workers", str(workers), "-metadir", meta, "-cleanup", "-noGenerateSpecTE",
           "-config", cfg if os.path.isabs(cfg) else os.path.join(SPEC, cfg)] + (extra or []) + [os.path.join(SPEC, module + ".tla")]
    e = {"JAVA_TOOL_OPTIONS": jopts}
    if env:
        e.update(env)
    rc, out = sh(cmd, env=e, cwd=SPEC, timeout=timeout + 30)
    shutil.rmtree(meta, ignore_errors=True)
    return rc, out


STAT_RE = re.compile(r"(\d+) states generated, (\d+) distinct states found")


def tlc_stats(out):
    m = None
    for m in STAT_RE.finditer(out):
        pass
    if m:
        return int(m.group(1)), int(m.group(2))
    return 0, 0


def model_check(ctx, module, cfg, what, workers=4, timeout=900, expect_violation=False, xmx="4g", extra=None, beyond=False):
    """Exhaustive TLC run of a bounded model. A violated invariant/assumption is a
    design-level violation of the property (unless expect_violation: an as-coded regression config)."""
    t = time.time()
    rc, out = tlc(module, cfg, ctx.work, workers=workers, timeout=timeout, xmx=xmx, extra=extra)
    gen, dist = tlc_stats(out)
    bad = ("is violated" in out) or ("Assumption" in out and "is false" in out) or ("Error:" in out and rc not in (0,))
    finished = "Model checking completed. No error has been found." in out
    ctx.mc_runs.append({"module": module, "cfg": cfg, "what": what, "generated": gen, "distinct": dist,
                        "ok": finished, "wall_s": round(time.time() - t, 1)})
    if expect_violation:
        if not (("is violated" in out) or ("is false" in out)):
            raise ToolError("%s/%s: expected the as-coded configuration to show a counterexample" % (module, cfg))
        return out
    if rc == 124 or (not finished and not bad):
        raise ToolError("TLC did not finish %s/%s (rc=%s)\n%s" % (module, cfg, rc, out[-3000:]))
    ctx.states += dist
    ctx.transitions += gen
    if beyond:
        ctx.beyond.append("%s/%s: %s (%d distinct states)" % (module, cfg, what, dist))
    if not finished:
        path = os.path.join(ctx.replays, "mc_%s.txt" % cfg.replace(".cfg", ""))
        open(path, "w").write(out[-20000:])
        if beyond:
            ctx.deviations.append("model %s (%s): %s" % (module, cfg, what))
        else:
            ctx.violation("model %s (%s): %s" % (module, cfg, what), path)
    return out


REJECT_RE = re.compile(r'"REJECT", (\d+)')


def validate_trace(ctx, module, cfg, trace, timeout=600, xmx="3g"):
    """TLC as trace validator. Returns None if accepted else (line_no, record_text)."""
    rc, out = tlc(module, cfg, ctx.work, env={"TRACE": trace}, workers=1, timeout=timeout, xmx=xmx, deque=True)
    gen, dist = tlc_stats(out)
    for m in re.finditer(r'"DRIFT", (\d+)', out):
        ctx.drift.append("%s line %s: implementation state differs from the L2 model (L1 still holds)" % (os.path.basename(trace), m.group(1)))
        break
    if "Model checking completed. No error has been found." in out:
        return None, gen, dist, out
    m = REJECT_RE.search(out)
    if m:
        return (int(m.group(1)), ""), gen, dist, out
    if rc == 124:
        raise ToolError("trace validation timed out: %s" % trace)
    # an evaluation error inside the trace spec is a tool problem unless it names a line
    raise ToolError("TLC failed on trace %s (rc=%s):\n%s" % (trace, rc, out[-3000:]))


def nlines(path):
    with open(path) as f:
        return sum(1 for _ in f)


def record_and_validate(ctx, jobs, module, cfg, prop_of=None, par=8, beyond=False):
    """jobs: list of (name, recorder-args). Records each trace, validates it with TLC.
    A rejected line becomes a violation with a replay file = the trace prefix up to that line."""
    def one(job):
        name, args = job
        path = os.path.join(ctx.work, name + ".ndjson")
        try:
            rv(list(args) + ["--out", path])
        except Crashed as ex:
            # every event is flushed: the events written before the crash are validated as usual; if all are accepted the call that
            # followed them (it took the process down) is the violation
            if os.path.exists(path) and nlines(path) >= 1:
                n = nlines(path)
                rej, gen, dist, out = validate_trace(ctx, module, cfg, path)
                if rej is None:
                    rej = ("hang", json.dumps({"crash": str(ex)[:300]}))
                return name, path, n, rej, gen, dist
            raise
        except ToolError:
            # a panic inside an extern "C" function cannot unwind: the recorder's panic hook leaves a note naming the call
            # before the process aborts. A C-ABI call that kills the process (its native twin has returned) is data, not a tool error.
            if os.path.exists(path + ".abort"):
                return name, path + ".abort", 1, ("abort", open(path + ".abort").read().strip()), 0, 0
            # a call of the library that did not return: the recorder's watchdog (no event for 120 s) ended the process. The events
            # written so far are validated as usual; if they are all accepted, the non-returning call itself is the violation.
            if os.path.exists(path + ".hang") and os.path.exists(path) and nlines(path) >= 1:
                n = nlines(path)
                rej, gen, dist, out = validate_trace(ctx, module, cfg, path)
                if rej is None:
                    rej = ("hang", open(path + ".hang").read().strip())
                return name, path, n, rej, gen, dist
            raise
        n = nlines(path)
        rej, gen, dist, out = validate_trace(ctx, module, cfg, path)
        return name, path, n, rej, gen, dist

    with cf.ThreadPoolExecutor(max_workers=par if ctx.quick else max(par, 12)) as ex:
        results = list(ex.map(one, jobs))
    for name, path, n, rej, gen, dist in results:
        ctx.traces += 1
        ctx.events += n - 1
        ctx.states += dist
        ctx.transitions += gen
        with open(path) as f:
            lines = f.readlines()
        if rej is not None and rej[0] == "abort":
            rp = os.path.join(ctx.replays, name + ".abort.json")
            shutil.copy(path, rp)
            ctx.violation("recording %s: the process aborted inside the C ABI (the native call had returned): %s" % (name, rej[1][:300]), rp)
            continue
        if rej is not None and rej[0] == "hang":
            rp = os.path.join(ctx.replays, name + ".hang.ndjson")
            shutil.copy(path, rp)
            with open(rp, "a") as f:
                f.write(json.dumps({"ev": "hang", "after_event": len(lines), "rerun": "rv " + " ".join(map(str, dict(jobs)[name]))}) + "\n")
            msg = "recording %s: a call of the library did not return (watchdog limit, or the process was brought down: %s) after event %d (%s); the call that follows that event in `rv %s`" % (
                name, rej[1][:160], len(lines), lines[-1].strip()[:200], " ".join(map(str, dict(jobs)[name])))
            if beyond:
                ctx.deviations.append(msg)
            else:
                ctx.violation(msg, rp)
            continue
        if lines[1:]:
            ctx.sample({"trace": name, "event": json.loads(lines[min(len(lines) - 1, 7)])})
        if rej is not None:
            line_no, text = rej
            rp = os.path.join(ctx.replays, name + ".ndjson")
            with open(rp, "w") as f:
                f.writelines(lines[:line_no])
            if beyond:
                ctx.deviations.append("trace %s line %d (replay %s): %s" % (name, line_no, os.path.relpath(rp, VERIF), lines[line_no - 1].strip()[:300]))
            else:
                ctx.violation("trace %s rejected at line %d: %s" % (name, line_no, lines[line_no - 1].strip()[:300]), rp)
    if beyond:
        ctx.beyond.append("%s: %d traces, %d events validated" % (module, len(results), sum(r[2] - 1 for r in results)))
    return results


def load_known():
    p = os.path.join(VERIF, "known_findings.json")
    if os.path.exists(p):
        return json.load(open(p))
    return {"findings": [], "fixed": []}


def finish(ctx, level="model_checking", rule=None):
    known = [k for k in load_known().get("findings", []) if k["property"] == ctx.pid]
    real = []
    for what, replay in ctx.violations:
        hit = [k for k in known if re.search(k["match"], what)]
        if hit:
            print("KNOWN-FINDING: property=%s %s" % (ctx.pid, hit[0]["what"]))
        else:
            real.append((what, replay))
    cov = {
        "states": max(ctx.states, 1),
        "transitions": max(ctx.transitions, 1),
        "traces_validated_against_impl": ctx.traces,
        "samples": ctx.samples or [{"note": "no sample recorded"}],
        "events_validated": ctx.events,
        "vectors_replayed": ctx.vectors,
        "model_check_runs": ctx.mc_runs,
        "exhaustive": ctx.exhaustive,
        "model_drift": ctx.drift,
        "beyond_listed_property": {"covered": ctx.beyond, "deviations": ctx.deviations},
    }
    cov.update(ctx.extra)
    if rule:
        cov["rule"] = rule
    ev = {
        "property_id": ctx.pid,
        "tier": ctx.tier,
        "seed": ctx.seed,
        "level": level,
        "coverage": cov,
        "assumptions": ctx.assumptions,
        "wall_s": round(time.time() - ctx.t0, 1),
        "violations": len(real),
    }
    # bin/seedtest runs the checks against deliberately broken trees: its evidence goes to a scratch directory
    evdir = os.environ.get("VERIF_EVIDENCE_DIR") or os.path.join(VERIF, "evidence")
    os.makedirs(evdir, exist_ok=True)
    with open(os.path.join(evdir, ctx.pid + ".json"), "w") as f:
        json.dump(ev, f, indent=1)
    for d in ctx.drift:
        print("MODEL-DRIFT: property=%s %s" % (ctx.pid, d))
    for d in ctx.deviations:
        print("SPEC-DEVIATION (beyond the listed properties, not an alarm): %s" % d)
    for what, replay in real:
        print("VIOLATION property=%s replay=%s" % (ctx.pid, os.path.relpath(replay, VERIF)))
        print("  " + what[:500])
    print("%s %s: states=%d transitions=%d traces=%d events=%d vectors=%d wall=%.1fs violations=%d" % (
        ctx.pid, ctx.tier, ctx.states, ctx.transitions, ctx.traces, ctx.events, ctx.vectors,
        time.time() - ctx.t0, len(real)))
    return 1 if real else 0


def mkcfg(ctx, name, text):
    """write a generated TLC configuration into the work directory (e.g. to pass VERIF_SEED as a constant)"""
    path = os.path.join(ctx.work, name)
    open(path, "w").write(text)
    return path


def gen_and_replay(ctx, module, cfg, family, what, timeout=600, workers=1, extra_replay=None):
    """spec -> impl: TLC enumerates the behaviours / transitions of a bounded model and prints one JSON
    line each; the driver replays them into the real code. Mismatch with L1 = violation, with L2 = drift."""
    t = time.time()
    rc, out = tlc(module, cfg, ctx.work, workers=workers, timeout=timeout, xmx="4g")
    gen, dist = tlc_stats(out)
    if "Model checking completed. No error has been found." not in out:
        raise ToolError("vector generator %s/%s failed (rc=%s)\n%s" % (module, cfg, rc, out[-3000:]))
    cfg = os.path.basename(cfg)
    vec = os.path.join(ctx.work, "vec_%s_%s.ndjson" % (cfg.replace(".cfg", ""), family))
    n = 0
    with open(vec, "w") as f:
        for line in out.splitlines():
            if line.startswith('"{') or line.startswith('"['):
                f.write(json.loads(line) + "\n")
                n += 1
    if n == 0:
        raise ToolError("generator %s/%s printed no vectors" % (module, cfg))
    ctx.states += dist
    ctx.transitions += gen
    ctx.mc_runs.append({"module": module, "cfg": cfg, "what": "vector generation: " + what, "generated": gen,
                        "distinct": dist, "vectors": n, "ok": True, "wall_s": round(time.time() - t, 1)})
    with open(vec) as f:
        first = f.readline().strip()
    ctx.sample({"vector": json.loads(first), "from": cfg})
    # one generated vector file may be replayed several times (different targets of the same behaviours)
    passes = extra_replay if extra_replay and isinstance(extra_replay[0], list) else [extra_replay or []]
    res = None
    # the passes are independent processes: run them side by side
    def one_pass(xr):
        try:
            return rv(["replay", family, "--in", vec] + xr, timeout=2400)
        except Crashed as ex:
            return ex
    with cf.ThreadPoolExecutor(max_workers=4) as ex:
        outs = list(ex.map(one_pass, passes))
    for k, xr in enumerate(passes):
        if isinstance(outs[k], Crashed):
            rp = os.path.join(ctx.replays, "crash_%s_%s%s.txt" % (cfg.replace(".cfg", ""), family, "_%d" % k if k else ""))
            open(rp, "w").write(str(outs[k]) + "\nvectors: " + vec + "\n")
            ctx.violation("replaying the TLC-generated %s behaviours (%s) the code under test brought the process down (stack overflow / abort): %s" % (
                family, what, str(outs[k])[:300]), rp)
            continue
        res = json.loads(outs[k].strip().splitlines()[-1])
        ctx.vectors += res["vectors"]
        ctx.extra.setdefault("replay_steps", 0)
        ctx.extra["replay_steps"] += res.get("steps", 0)
        if res["mismatches"]:
            rp = os.path.join(ctx.replays, "vec_%s%s.json" % (cfg.replace(".cfg", ""), "_%d" % k if k else ""))
            json.dump(res["bad"], open(rp, "w"), indent=1)
            ctx.violation("%d of %d TLC-generated %s behaviours (%s%s) are not reproduced by the code; first: %s" % (
                res["mismatches"], res["vectors"], family, what, (" / " + " ".join(map(str, xr))) if len(passes) > 1 else "",
                json.dumps(res["bad"][0])[:300]), rp)
        if res.get("ndrift") or res.get("drift"):
            ctx.drift.append("%s: implementation internals differ from the L2 model on %s vectors" % (
                cfg, res.get("ndrift", len(res.get("drift", [])))))
    return res


def gen_record_validate(ctx, gen_module, gen_cfg, family, what, trace_module, trace_cfg, chunks=4, extra=None, timeout=900):
    """spec -> impl -> spec: TLC enumerates the behaviours (call sequences) of a bounded model; the driver replays
    them into the real code and RECORDS what it does; TLC validates that record against the L1 specification."""
    t = time.time()
    rc, out = tlc(gen_module, gen_cfg, ctx.work, workers=1, timeout=timeout, xmx="4g")
    gen, dist = tlc_stats(out)
    if "Model checking completed. No error has been found." not in out:
        raise ToolError("behaviour generator %s/%s failed (rc=%s)\n%s" % (gen_module, gen_cfg, rc, out[-3000:]))
    tag = os.path.basename(gen_cfg).replace(".cfg", "")
    vec = os.path.join(ctx.work, "beh_%s.ndjson" % tag)
    n = 0
    with open(vec, "w") as f:
        for line in out.splitlines():
            if line.startswith('"{'):
                f.write(json.loads(line) + "\n")
                n += 1
    if n == 0:
        raise ToolError("generator %s/%s printed no behaviours" % (gen_module, gen_cfg))
    ctx.states += dist
    ctx.transitions += gen
    ctx.vectors += n
    ctx.mc_runs.append({"module": gen_module, "cfg": tag, "what": "behaviour generation: " + what, "generated": gen, "distinct": dist,
                        "vectors": n, "ok": True, "wall_s": round(time.time() - t, 1)})
    base = os.path.join(ctx.work, "replayed_%s" % tag)
    rv(["replay", family, "--in", vec, "--out", base, "--chunks", chunks] + (extra or []), timeout=1500)
    with open(vec) as f:
        ctx.sample({"behaviour": json.loads(f.readline()), "from": tag})

    def one(i):
        path = "%s_%d.ndjson" % (base, i)
        if not os.path.exists(path):
            return None
        return (path,) + validate_trace(ctx, trace_module, trace_cfg, path)[:3]

    with cf.ThreadPoolExecutor(max_workers=8) as ex:
        for r in ex.map(one, range(chunks)):
            if r is None:
                continue
            path, rej, g, d = r
            ctx.traces += 1
            ctx.events += nlines(path) - 1
            ctx.states += d
            ctx.transitions += g
            if rej is not None:
                lines = open(path).readlines()
                # cut the replay down to the behaviour that contains the rejected line
                start = max(i for i in range(rej[0]) if '"ev":"snew"' in lines[i] or i == 0)
                rp = os.path.join(ctx.replays, os.path.basename(path))
                with open(rp, "w") as f:
                    f.write(lines[0])
                    f.writelines(lines[max(start, 1):rej[0]])
                ctx.violation("replayed behaviour of %s rejected at line %d of %s: %s" % (what, rej[0], os.path.basename(path), lines[rej[0] - 1].strip()[:300]), rp)


def proof_check(ctx, module, what, timeout=900):
    """TLAPS: discharge every proof obligation of spec/<module>.tla (a lemma about an L2 model, for ALL sizes).
    The module is copied to the work directory first (tlapm writes its cache next to the file)."""
    t = time.time()
    d = os.path.join(ctx.work, "tlaps_" + module)
    os.makedirs(d, exist_ok=True)
    shutil.copy(os.path.join(SPEC, module + ".tla"), d)
    rc, out = sh(["timeout", str(timeout), "tlapm", "--threads", "8", module + ".tla"], cwd=d, timeout=timeout + 30)
    m = re.search(r"All (\d+) obligations? proved", out)
    f = re.search(r"(\d+)/(\d+) obligations failed", out)
    n = int(m.group(1)) if m else (int(f.group(2)) if f else 0)
    ok = bool(m)
    ctx.mc_runs.append({"module": module, "cfg": "tlapm", "what": "TLAPS proof: " + what, "obligations": n,
                        "discharged": n if ok else (n - int(f.group(1)) if f else 0), "ok": ok, "wall_s": round(time.time() - t, 1)})
    ctx.extra["proof_obligations"] = ctx.extra.get("proof_obligations", 0) + n
    ctx.extra["proof_discharged"] = ctx.extra.get("proof_discharged", 0) + (n if ok else 0)
    if not ok:
        if f:
            path = os.path.join(ctx.replays, "tlaps_%s.txt" % module)
            open(path, "w").write(out[-20000:])
            ctx.violation("TLAPS could not discharge %s of %s obligations of %s (%s)" % (f.group(1), f.group(2), module, what), path)
        else:
            raise ToolError("tlapm failed on %s (rc=%s)\n%s" % (module, rc, out[-2000:]))
