//! Recorder for the C ABI (C18): the same seeded program is run through the `extern "C"` symbols of
//! rsdd (feature `ffi`, linked from the rlib) and, in lock-step, through the native Rust API; the raw
//! answers of both are logged side by side (native = primary fields, C = `t*` twin fields) and
//! spec/TraceBdd.tla requires them to coincide.
use crate::bdd_rec::Ids;
use crate::util::*;
use rsdd as _;
use rsdd::builder::bdd::RobddBuilder;
use rsdd::builder::cache::AllIteTable;
use rsdd::builder::BottomUpBuilder;
use rsdd::constants::primes;
use rsdd::repr::{BddPtr, Cnf, DDNNFPtr, VarLabel, VarOrder, WmcParams};
use rsdd::serialize::BDDSerializer;
use rsdd::util::semirings::{Complex, FiniteField, Polynomial, RealSemiring, Semiring};
use serde_json::{json, Value};
use std::collections::HashMap;
use std::ffi::{c_char, c_void, CStr, CString};

type CPtr = *mut BddPtr<'static>;
#[repr(C)]
#[derive(Clone, Copy)]
struct CComplex {
    re: f64,
    im: f64,
}

extern "C" {
    fn var_order_new(order: *const u64, len: usize) -> *mut c_void;
    fn robdd_builder_all_table(order: *mut c_void) -> *mut c_void;
    fn mk_bdd_manager_default_order(num_vars: u64) -> *mut c_void;
    fn free_bdd_manager(mgr: *mut c_void);
    fn bdd_var(b: *mut c_void, label: u64, polarity: bool) -> CPtr;
    fn bdd_new_var(b: *mut c_void, polarity: bool) -> CPtr;
    fn bdd_ite(b: *mut c_void, f: CPtr, g: CPtr, h: CPtr) -> CPtr;
    fn bdd_and(b: *mut c_void, l: CPtr, r: CPtr) -> CPtr;
    fn bdd_or(b: *mut c_void, l: CPtr, r: CPtr) -> CPtr;
    fn bdd_negate(b: *mut c_void, f: CPtr) -> CPtr;
    fn bdd_compose(b: *mut c_void, f: CPtr, l: u64, g: CPtr) -> CPtr;
    fn bdd_true(b: *mut c_void) -> CPtr;
    fn bdd_false(b: *mut c_void) -> CPtr;
    fn bdd_eq(b: *mut c_void, l: CPtr, r: CPtr) -> bool;
    fn bdd_is_true(f: CPtr) -> bool;
    fn bdd_is_false(f: CPtr) -> bool;
    fn bdd_is_const(f: CPtr) -> bool;
    fn bdd_count_nodes(f: CPtr) -> usize;
    fn bdd_topvar(f: CPtr) -> u64;
    fn bdd_low(f: CPtr) -> CPtr;
    fn bdd_high(f: CPtr) -> CPtr;
    fn robdd_model_count(b: *mut c_void, f: CPtr) -> u64;
    fn bdd_to_json(f: CPtr) -> *const c_char;
    fn cnf_from_dimacs(s: *const c_char) -> *mut c_void;
    fn robdd_builder_compile_cnf(b: *mut c_void, cnf: *mut c_void) -> CPtr;
    fn new_wmc_params_f64() -> *mut c_void;
    fn wmc_param_f64_set_weight(w: *mut c_void, var: u64, low: f64, high: f64);
    fn bdd_wmc(f: CPtr, w: *mut c_void) -> f64;
    fn new_wmc_params_complex() -> *mut c_void;
    fn wmc_param_complex_set_weight(w: *mut c_void, var: u64, low: CComplex, high: CComplex);
    fn bdd_wmc_complex(f: CPtr, w: *mut c_void) -> CComplex;
    fn new_wmc_params_poly() -> *mut c_void;
    fn wmc_param_poly_set_weight(w: *mut c_void, var: u64, lc: *const f64, ll: usize, hc: *const f64, hl: usize);
    fn bdd_wmc_poly(f: CPtr, w: *mut c_void) -> *mut c_void;
    fn polynomial_len(p: *mut c_void) -> usize;
    fn polynomial_get_coeffs(p: *mut c_void, buf: *mut f64, max_len: usize) -> usize;
    // the CNF -> dtree -> vtree -> SDD pipeline and the top-down compiler
    fn literal_new(label: VarLabel, polarity: bool) -> rsdd::repr::Literal;
    fn cnf_new(clauses: *const CClause, len: usize) -> *mut c_void;
    fn cnf_min_fill_order(cnf: *mut c_void) -> *mut c_void;
    fn dtree_from_cnf(cnf: *const c_void, elim: *const c_void) -> *mut c_void;
    fn vtree_from_dtree(dtree: *const c_void) -> *mut c_void;
    fn sdd_builder_new(vtree: *mut c_void) -> *mut c_void;
    fn sdd_builder_compile_cnf(b: *const c_void, cnf: *const c_void) -> *mut c_void;
    fn sdd_wmc(sdd: *const c_void, w: *const c_void) -> f64;
    fn ddnnf_builder_new(order: *mut c_void) -> *mut c_void;
    fn ddnnf_builder_compile_cnf_topdown(b: *const c_void, cnf: *const c_void) -> CPtr;
    // the remaining exported functions
    fn var_order_linear(num_vars: usize) -> *mut c_void;
    fn bdd_new_label(b: *mut c_void) -> u64;
    fn bdd_num_recursive_calls(b: *mut c_void) -> usize;
    fn bdd_scratch(f: CPtr, default: usize) -> usize;
    fn bdd_set_scratch(f: CPtr, val: usize);
    fn bdd_clear_scratch(f: CPtr);
    fn print_bdd(f: CPtr) -> *const c_char;
    fn free_wmc_params_f64(w: *mut c_void);
    fn free_wmc_params_complex(w: *mut c_void);
    fn destroy_wmc_params_poly(w: *mut c_void);
    fn wmc_param_f64_var_weight(w: *mut c_void, var: u64) -> CWeightF64;
    fn weight_f64_lo(w: CWeightF64) -> f64;
    fn weight_f64_hi(w: CWeightF64) -> f64;
    fn wmc_param_complex_var_weight(w: *mut c_void, var: u64) -> CWeightComplex;
    fn weight_complex_lo(w: CWeightComplex) -> CComplex;
    fn weight_complex_hi(w: CWeightComplex) -> CComplex;
    fn wmc_param_poly_var_weight(w: *mut c_void, var: u64) -> CWeightPoly;
    fn new_polynomial(coeffs: *const f64, len: usize) -> *mut c_void;
    fn destroy_polynomial(p: *mut c_void);
}

#[repr(C)]
#[derive(Clone, Copy)]
struct CWeightF64(f64, f64);
#[repr(C)]
#[derive(Clone, Copy)]
struct CWeightComplex(CComplex, CComplex);
#[repr(C)]
struct CWeightPoly {
    low: *mut c_void,
    high: *mut c_void,
}

#[repr(C)]
struct CClause {
    vars: *mut rsdd::repr::Literal,
    len: usize,
}

const K: usize = 12;
const OPS: [&str; 22] = [
    "var", "newvar", "neg", "and", "or", "ite", "compose", "eq", "topvar", "low", "high", "mc", "wmcr", "wmcc",
    "wmcp", "json", "cnt", "cnf", "xor", "sddpipe", "tdpipe", "cmisc",
];
const W: [usize; 22] = [4, 1, 3, 8, 8, 8, 5, 5, 3, 3, 3, 9, 3, 3, 3, 3, 2, 2, 7, 2, 2, 5];

fn numv(x: f64) -> Value {
    num(x)
}

pub fn record(args: &Args) {
    let seed = args.num("seed", 1);
    let segs = args.num("segments", 4) as usize;
    let len = args.num("len", 150) as usize;
    let nmax = args.num("nmax", 5) as usize;
    let mut out = Out::new(&args.str("out", "-"));
    set_abort_file(&format!("{}.abort", args.str("out", "ffi")));
    let mut rng = Rng::new(seed ^ 0xc18);
    out.emit(json!({"ev": "init", "kind": "bdd", "nmax": nmax, "k": K, "mode": "c18", "seed": seed}));
    for _ in 0..segs {
        let n0 = rng.range(nmax.saturating_sub(2).max(1), nmax);
        let custom = rng.coin();
        let order: Vec<usize> = if custom { rng.perm(n0) } else { (0..n0).collect() };
        out.emit(json!({"ev": "reset", "n0": n0, "order": order, "cache": "all", "tcap": 0, "ccap": -1, "c_custom_order": custom}));
        // native twin
        let nb = RobddBuilder::<AllIteTable<BddPtr>>::new(VarOrder::new(&order.iter().map(|v| VarLabel::new_usize(*v)).collect::<Vec<_>>()));
        // C manager
        let cb = unsafe {
            if custom {
                let o: Vec<u64> = order.iter().map(|v| *v as u64).collect();
                robdd_builder_all_table(var_order_new(o.as_ptr(), o.len()))
            } else if rng.coin() {
                robdd_builder_all_table(var_order_linear(n0))
            } else {
                mk_bdd_manager_default_order(n0 as u64)
            }
        };
        segment(&nb, cb, n0, nmax, &mut rng, len, &mut out);
        unsafe { free_bdd_manager(cb) };
    }
    out.flush();
}

fn segment<'a>(nb: &'a RobddBuilder<'a, AllIteTable<BddPtr<'a>>>, cb: *mut c_void, n0: usize, nmax: usize, rng: &mut Rng, len: usize, out: &mut Out) {
    let mut nids = Ids::new();
    let mut cids: Ids<'static> = Ids::new();
    let mut npool: Vec<BddPtr<'a>> = vec![BddPtr::PtrTrue; K];
    npool[1] = BddPtr::PtrFalse;
    let mut cpool: Vec<CPtr> = unsafe { (0..K).map(|i| if i == 1 { bdd_false(cb) } else { bdd_true(cb) }).collect() };
    let mut nv = n0;
    let mut next_slot = 0usize;
    let vl = |v: usize| VarLabel::new_usize(v);
    for step in 0..len {
        let mut op = OPS[rng.weighted(&W)];
        if next_slot < nv.min(K - 2) && next_slot < 6 {
            op = "var";
        }
        if op == "newvar" && nv >= nmax {
            op = "var";
        }
        let arg = |rng: &mut Rng, pool: &Vec<BddPtr<'a>>| {
            for _ in 0..8 {
                let s = rng.below(K);
                if pool[s].is_const() && rng.chance(2, 3) {
                    continue;
                }
                return s;
            }
            rng.below(2)
        };
        let res = 2 + (next_slot % (K - 2));
        let mut ev = json!({"ev": op, "a": []});
        let cctx = format!("{op} (operation {step} of a segment, {nv} variables)");
        // (native result, C result) for diagram-valued operations
        let mut produced: Option<(Result<BddPtr<'a>, String>, Result<CPtr, String>)> = None;
        let mut scalar: Option<(Result<Value, String>, Result<Value, String>)> = None;
        match op {
            "var" => {
                let (v, p) = if next_slot < nv.min(K - 2) && next_slot < 6 { (next_slot, rng.coin()) } else { (rng.below(nv), rng.coin()) };
                ev["a"] = json!([v, p as u8]);
                produced = Some((guarded(|| nb.var(vl(v), p)), cguard(&cctx, || unsafe { bdd_var(cb, v as u64, p) })));
            }
            "newvar" => {
                let p = rng.coin();
                ev["a"] = json!([p as u8]);
                ev["label"] = json!(nv);
                let two_step = rng.coin();
                let want = nv as u64;
                let c = if two_step {
                    // what bdd_new_var is documented to do, spelled out by the client: a fresh label, then its literal
                    match cguard(&cctx, || unsafe { bdd_new_label(cb) }) {
                        Ok(l) if l == want => cguard(&cctx, || unsafe { bdd_var(cb, l, p) }),
                        Ok(l) => Err(format!("bdd_new_label returned {l} where the native new_label returns {want}")),
                        Err(m) => Err(m),
                    }
                } else {
                    cguard(&cctx, || unsafe { bdd_new_var(cb, p) })
                };
                produced = Some((guarded(|| nb.new_var(p).1), c));
                nv += 1;
            }
            "neg" => {
                let a = arg(rng, &npool);
                ev["a"] = json!([a]);
                produced = Some((guarded(|| nb.negate(npool[a])), cguard(&cctx, || unsafe { bdd_negate(cb, cpool[a]) })));
            }
            "and" | "or" => {
                let (a, c) = (arg(rng, &npool), arg(rng, &npool));
                ev["a"] = json!([a, c]);
                produced = Some(if op == "and" {
                    (guarded(|| nb.and(npool[a], npool[c])), cguard(&cctx, || unsafe { bdd_and(cb, cpool[a], cpool[c]) }))
                } else {
                    (guarded(|| nb.or(npool[a], npool[c])), cguard(&cctx, || unsafe { bdd_or(cb, cpool[a], cpool[c]) }))
                });
            }
            "xor" => {
                // the C API has no xor: it is what a client writes as ite(a, !b, b)
                let (a, c) = (arg(rng, &npool), arg(rng, &npool));
                ev["a"] = json!([a, c]);
                produced = Some((
                    guarded(|| nb.ite(npool[a], nb.negate(npool[c]), npool[c])),
                    cguard(&cctx, || unsafe { bdd_ite(cb, cpool[a], bdd_negate(cb, cpool[c]), cpool[c]) }),
                ));
            }
            "ite" => {
                let (a, c, d) = (arg(rng, &npool), arg(rng, &npool), arg(rng, &npool));
                ev["a"] = json!([a, c, d]);
                produced = Some((
                    guarded(|| nb.ite(npool[a], npool[c], npool[d])),
                    cguard(&cctx, || unsafe { bdd_ite(cb, cpool[a], cpool[c], cpool[d]) }),
                ));
            }
            "compose" => {
                let (a, v, c) = (arg(rng, &npool), rng.below(nv), arg(rng, &npool));
                ev["a"] = json!([a, v, c]);
                produced = Some((
                    guarded(|| nb.compose(npool[a], vl(v), npool[c])),
                    cguard(&cctx, || unsafe { bdd_compose(cb, cpool[a], v as u64, cpool[c]) }),
                ));
            }
            "low" | "high" => {
                // domain: non-constant diagrams only
                let a = arg(rng, &npool);
                if npool[a].is_const() {
                    continue;
                }
                ev["a"] = json!([a]);
                // a panic inside an extern "C" function cannot unwind (it aborts the recorder): if the C-side diagram is a
                // constant where the native one is not, that divergence is logged instead of dereferencing the constant
                let c_const = unsafe { bdd_is_const(cpool[a]) };
                let diverged = || Err::<*mut BddPtr<'static>, String>("the C-side diagram is a constant where the native one is not".to_string());
                produced = Some(if op == "low" {
                    (guarded(|| npool[a].low()), if c_const { diverged() } else { cguard(&cctx, || unsafe { bdd_low(cpool[a]) }) })
                } else {
                    (guarded(|| npool[a].high()), if c_const { diverged() } else { cguard(&cctx, || unsafe { bdd_high(cpool[a]) }) })
                });
            }
            "cnf" => {
                let mut c = crate::sat_rec::rand_cnf(rng, nv, 5, 30);
                c.retain(|cl| !cl.is_empty());
                if c.is_empty() {
                    c.push(vec![(rng.below(nv), rng.coin())]);
                }
                let mut text = format!("p cnf {} {}\n", nv, c.len());
                for cl in &c {
                    for (v, p) in cl {
                        text.push_str(&format!("{} ", if *p { *v as i64 + 1 } else { -(*v as i64 + 1) }));
                    }
                    text.push_str("0\n");
                }
                ev["cnf"] = json!(c.iter().map(|cl| cl.iter().map(|(v, p)| if *p { *v as i64 + 1 } else { -(*v as i64 + 1) }).collect::<Vec<_>>()).collect::<Vec<_>>());
                let cs = CString::new(text.clone()).unwrap();
                produced = Some((
                    guarded(|| nb.compile_cnf(&Cnf::from_dimacs(&text))),
                    cguard(&cctx, || unsafe { robdd_builder_compile_cnf(cb, cnf_from_dimacs(cs.as_ptr())) }),
                ));
            }
            "eq" => {
                let (a, c) = (arg(rng, &npool), arg(rng, &npool));
                ev["a"] = json!([a, c]);
                scalar = Some((guarded(|| json!(nb.eq(npool[a], npool[c]))), cguard(&cctx, || json!(unsafe { bdd_eq(cb, cpool[a], cpool[c]) }))));
            }
            "topvar" => {
                let a = arg(rng, &npool);
                if npool[a].is_const() {
                    continue;
                }
                ev["a"] = json!([a]);
                scalar = Some((
                    guarded(|| json!([npool[a].var_safe().unwrap().value(), npool[a].is_true(), npool[a].is_false(), npool[a].is_const()])),
                    cguard(&cctx, || unsafe { json!([bdd_topvar(cpool[a]), bdd_is_true(cpool[a]), bdd_is_false(cpool[a]), bdd_is_const(cpool[a])]) }),
                ));
            }
            "sddpipe" | "tdpipe" => {
                // stand-alone pipelines through the C ABI on a fresh random CNF: clauses built with literal_new / cnf_new, then
                //   cnf_min_fill_order -> dtree_from_cnf -> vtree_from_dtree -> sdd_builder_new -> sdd_builder_compile_cnf -> sdd_wmc
                //   var_order_new -> ddnnf_builder_new -> ddnnf_builder_compile_cnf_topdown -> bdd_wmc
                // against the same pipeline through the native API; normalised dyadic weights
                use rsdd::builder::decision_nnf::{DecisionNNFBuilder, StandardDecisionNNFBuilder};
                use rsdd::builder::sdd::CompressionSddBuilder;
                use rsdd::repr::{DTree, Literal, VTree};
                let mut c = crate::sat_rec::rand_cnf(rng, nv.max(2), 5, 20);
                c.retain(|cl| !cl.is_empty());
                if c.is_empty() {
                    c.push(vec![(0, true), (1, false)]);
                }
                let cl: Vec<Vec<Literal>> = c.iter().map(|x| x.iter().map(|(v, p)| Literal::new(vl(*v), *p)).collect()).collect();
                let ncnf = Cnf::new(&cl);
                let n = ncnf.num_vars();
                let ws: Vec<f64> = (0..n).map(|_| rng.below(9) as f64 / 8.0).collect();
                let perm = rng.perm(n);
                ev["cnf"] = json!(c.iter().map(|x| x.iter().map(|(v, p)| if *p { *v as i64 + 1 } else { -(*v as i64 + 1) }).collect::<Vec<_>>()).collect::<Vec<_>>());
                ev["w8"] = json!(ws.iter().map(|w| (w * 8.0) as i64).collect::<Vec<_>>());
                ev["order"] = json!(perm);
                let sc = 8f64.powi(n as i32);
                let params = || WmcParams::<RealSemiring>::new(HashMap::from_iter(ws.iter().enumerate().map(|(i, w)| (vl(i), (RealSemiring(*w), RealSemiring(1.0 - *w))))));
                let c_cnf = |cl: &Vec<Vec<Literal>>| unsafe {
                    let mut lits: Vec<Vec<Literal>> = cl.iter().map(|x| x.iter().map(|l| literal_new(l.label(), l.polarity())).collect()).collect();
                    let cc: Vec<CClause> = lits.iter_mut().map(|x| CClause { vars: x.as_mut_ptr(), len: x.len() }).collect();
                    cnf_new(cc.as_ptr(), cc.len())
                };
                let c_params = || unsafe {
                    let p = new_wmc_params_f64();
                    for (i, w) in ws.iter().enumerate() {
                        wmc_param_f64_set_weight(p, i as u64, *w, 1.0 - *w);
                    }
                    p
                };
                if op == "sddpipe" {
                    scalar = Some((
                        guarded(|| {
                            let dt = DTree::from_cnf(&ncnf, &ncnf.min_fill_order());
                            let b = CompressionSddBuilder::new(VTree::from_dtree(&dt).expect("vtree"));
                            json!([numv(b.compile_cnf(&ncnf).unsmoothed_wmc(&params()).0 * sc)])
                        }),
                        cguard(&cctx, || unsafe {
                            let cnf = c_cnf(&cl);
                            let vt = vtree_from_dtree(dtree_from_cnf(cnf, cnf_min_fill_order(cnf)));
                            assert!(!vt.is_null(), "vtree_from_dtree returned NULL");
                            let b = sdd_builder_new(vt);
                            json!([numv(sdd_wmc(sdd_builder_compile_cnf(b, cnf), c_params()) * sc)])
                        }),
                    ));
                } else {
                    scalar = Some((
                        guarded(|| {
                            let b = StandardDecisionNNFBuilder::new(VarOrder::new(&perm.iter().map(|v| vl(*v)).collect::<Vec<_>>()));
                            json!([numv(b.compile_cnf_topdown(&ncnf).unsmoothed_wmc(&params()).0 * sc)])
                        }),
                        cguard(&cctx, || unsafe {
                            let cnf = c_cnf(&cl);
                            let o: Vec<u64> = perm.iter().map(|v| *v as u64).collect();
                            let b = ddnnf_builder_new(var_order_new(o.as_ptr(), o.len()));
                            json!([numv(bdd_wmc(ddnnf_builder_compile_cnf_topdown(b, cnf), c_params()) * sc)])
                        }),
                    ));
                }
            }
            "cnt" => {
                let a = arg(rng, &npool);
                ev["a"] = json!([a]);
                scalar = Some((guarded(|| json!(npool[a].count_nodes())), cguard(&cctx, || json!(unsafe { bdd_count_nodes(cpool[a]) }))));
            }
            "mc" => {
                let a = arg(rng, &npool);
                ev["a"] = json!([a]);
                let x = npool[a];
                scalar = Some((
                    guarded(|| {
                        // the native composition the C function is documented to wrap: smooth + unit-weight count
                        let n = nb.num_vars();
                        let sm = nb.smooth(x, n);
                        let p: WmcParams<FiniteField<{ primes::U64_LARGEST }>> = WmcParams::new(HashMap::from_iter(
                            (0..n as u64).map(|v| (VarLabel::new(v), (FiniteField::one(), FiniteField::one()))),
                        ));
                        json!(sm.unsmoothed_wmc(&p).value() as u64)
                    }),
                    cguard(&cctx, || json!(unsafe { robdd_model_count(cb, cpool[a]) })),
                ));
            }
            "wmcr" | "wmcc" | "wmcp" => {
                let a = arg(rng, &npool);
                ev["a"] = json!([a]);
                let x = npool[a];
                let cx = cpool[a];
                // dyadic weights k/8 (two components where needed)
                let ws: Vec<[f64; 4]> = (0..nv).map(|_| [rng.below(9) as f64 / 8.0, rng.below(9) as f64 / 8.0, rng.below(5) as f64 / 8.0, rng.below(5) as f64 / 8.0]).collect();
                ev["w8"] = json!(ws.iter().map(|w| w.iter().map(|x| (x * 8.0) as i64).collect::<Vec<_>>()).collect::<Vec<_>>());
                let sc = 8f64.powi(nv as i32);
                scalar = Some(match op {
                    "wmcr" => (
                        guarded(|| {
                            let p = WmcParams::<RealSemiring>::new(HashMap::from_iter(ws.iter().enumerate().map(|(i, w)| (vl(i), (RealSemiring(w[0]), RealSemiring(w[1]))))));
                            json!([numv(x.unsmoothed_wmc(&p).0 * sc)])
                        }),
                        cguard(&cctx, || unsafe {
                            let p = new_wmc_params_f64();
                            for (i, w) in ws.iter().enumerate() {
                                wmc_param_f64_set_weight(p, i as u64, w[0], w[1]);
                            }
                            json!([numv(bdd_wmc(cx, p) * sc)])
                        }),
                    ),
                    "wmcc" => (
                        guarded(|| {
                            let p = WmcParams::<Complex>::new(HashMap::from_iter(ws.iter().enumerate().map(|(i, w)| {
                                (vl(i), (Complex { re: w[0], im: w[2] }, Complex { re: w[1], im: w[3] }))
                            })));
                            let r = x.unsmoothed_wmc(&p);
                            json!([numv(r.re * sc), numv(r.im * sc)])
                        }),
                        cguard(&cctx, || unsafe {
                            let p = new_wmc_params_complex();
                            for (i, w) in ws.iter().enumerate() {
                                wmc_param_complex_set_weight(p, i as u64, CComplex { re: w[0], im: w[2] }, CComplex { re: w[1], im: w[3] });
                            }
                            let r = bdd_wmc_complex(cx, p);
                            json!([numv(r.re * sc), numv(r.im * sc)])
                        }),
                    ),
                    _ => (
                        guarded(|| {
                            let mk = |c0: f64, c1: f64| {
                                let mut q = Polynomial::<RealSemiring>::zero();
                                q.coefficients[0] = RealSemiring(c0);
                                q.coefficients[1] = RealSemiring(c1);
                                q.len = 2;
                                q
                            };
                            let p = WmcParams::<Polynomial<RealSemiring>>::new(HashMap::from_iter(ws.iter().enumerate().map(|(i, w)| (vl(i), (mk(w[0], w[2]), mk(w[1], w[3]))))));
                            let r = x.unsmoothed_wmc(&p);
                            json!({"len": r.len, "c": (0..r.len.min(8)).map(|i| numv(r.coefficients[i].0 * sc)).collect::<Vec<_>>()})
                        }),
                        cguard(&cctx, || unsafe {
                            let p = new_wmc_params_poly();
                            for (i, w) in ws.iter().enumerate() {
                                let (lo, hi) = ([w[0], w[2]], [w[1], w[3]]);
                                wmc_param_poly_set_weight(p, i as u64, lo.as_ptr(), 2, hi.as_ptr(), 2);
                            }
                            let r = bdd_wmc_poly(cx, p);
                            let n = polynomial_len(r);
                            let mut buf = vec![0f64; 8];
                            let got = polynomial_get_coeffs(r, buf.as_mut_ptr(), 8);
                            json!({"len": n, "c": (0..got).map(|i| numv(buf[i] * sc)).collect::<Vec<_>>()})
                        }),
                    ),
                });
            }
            "cmisc" => {
                // the remaining exported functions, each against the Rust call it wraps
                let a = arg(rng, &npool);
                let which = rng.below(6);
                ev["a"] = json!([a, which]);
                let (x, cx) = (npool[a], cpool[a]);
                let ws: Vec<[f64; 4]> = (0..nv).map(|_| [rng.below(9) as f64 / 8.0, rng.below(9) as f64 / 8.0, rng.below(5) as f64 / 8.0, rng.below(5) as f64 / 8.0]).collect();
                let q = rng.below(nv);
                let sv = 1 + rng.below(1000);
                scalar = Some(match which {
                    0 => (
                        // per-node scratch through the C ABI: set, read, clear, read (default when empty); constants have no scratch
                        guarded(|| {
                            if x.is_const() {
                                return json!(["const"]);
                            }
                            let before = x.scratch::<usize>().unwrap_or(7);
                            x.set_scratch::<usize>(sv);
                            let set = x.scratch::<usize>().unwrap_or(7);
                            x.clear_scratch();
                            json!([before, set, x.scratch::<usize>().unwrap_or(7)])
                        }),
                        cguard(&cctx, || unsafe {
                            if bdd_is_const(cx) {
                                return json!(["const"]);
                            }
                            let before = bdd_scratch(cx, 7);
                            bdd_set_scratch(cx, sv);
                            let set = bdd_scratch(cx, 7);
                            bdd_clear_scratch(cx);
                            json!([before, set, bdd_scratch(cx, 7)])
                        }),
                    ),
                    1 => (
                        guarded(|| json!(x.print_bdd())),
                        cguard(&cctx, || unsafe { json!(CStr::from_ptr(print_bdd(cx)).to_string_lossy().to_string()) }),
                    ),
                    2 => (
                        // real weights: set, read back through the by-value struct and its accessors, free
                        guarded(|| {
                            let mut p = WmcParams::<RealSemiring>::new(HashMap::new());
                            for (i, w) in ws.iter().enumerate() {
                                p.set_weight(vl(i), RealSemiring(w[0]), RealSemiring(w[1]));
                            }
                            let w = p.var_weight(vl(q));
                            json!([numv(w.0 .0 * 8.0), numv(w.1 .0 * 8.0)])
                        }),
                        cguard(&cctx, || unsafe {
                            let p = new_wmc_params_f64();
                            for (i, w) in ws.iter().enumerate() {
                                wmc_param_f64_set_weight(p, i as u64, w[0], w[1]);
                            }
                            let w = wmc_param_f64_var_weight(p, q as u64);
                            let r = json!([numv(weight_f64_lo(w) * 8.0), numv(weight_f64_hi(w) * 8.0)]);
                            free_wmc_params_f64(p);
                            r
                        }),
                    ),
                    3 => (
                        guarded(|| {
                            let mut p = WmcParams::<Complex>::new(HashMap::new());
                            for (i, w) in ws.iter().enumerate() {
                                p.set_weight(vl(i), Complex { re: w[0], im: w[2] }, Complex { re: w[1], im: w[3] });
                            }
                            let w = p.var_weight(vl(q));
                            json!([numv(w.0.re * 8.0), numv(w.0.im * 8.0), numv(w.1.re * 8.0), numv(w.1.im * 8.0)])
                        }),
                        cguard(&cctx, || unsafe {
                            let p = new_wmc_params_complex();
                            for (i, w) in ws.iter().enumerate() {
                                wmc_param_complex_set_weight(p, i as u64, CComplex { re: w[0], im: w[2] }, CComplex { re: w[1], im: w[3] });
                            }
                            let w = wmc_param_complex_var_weight(p, q as u64);
                            let (lo, hi) = (weight_complex_lo(w), weight_complex_hi(w));
                            let r = json!([numv(lo.re * 8.0), numv(lo.im * 8.0), numv(hi.re * 8.0), numv(hi.im * 8.0)]);
                            free_wmc_params_complex(p);
                            r
                        }),
                    ),
                    5 => {
                        // LARGE outputs: OR_{i<k} (x_i AND x_{i+k}) over 2k variables in a manager of its own (about 2^k nodes under the
                        // linear order; k = 10 gives some 170 KiB of JSON); the texts of bdd_to_json and print_bdd are compared with the
                        // native serialisation through their length and a 64-bit FNV digest
                        let k = 8 + rng.below(3);
                        let digest = |t: &str| {
                            let mut h: u64 = 0xcbf29ce484222325;
                            for b in t.as_bytes() {
                                h = (h ^ *b as u64).wrapping_mul(0x100000001b3);
                            }
                            json!([t.len(), (h >> 32) as u32, (h & 0xffff_ffff) as u32])
                        };
                        (
                            guarded(|| {
                                let nb2 = RobddBuilder::<AllIteTable<BddPtr>>::new(VarOrder::linear_order(2 * k));
                                let mut acc = BddPtr::PtrFalse;
                                for i in 0..k {
                                    acc = nb2.or(acc, nb2.and(nb2.var(vl(i), true), nb2.var(vl(i + k), true)));
                                }
                                let js = serde_json::to_string(&BDDSerializer::from_bdd(acc)).unwrap();
                                json!({"k": k, "json": digest(&js), "print": digest(&acc.print_bdd()), "nodes": acc.count_nodes()})
                            }),
                            cguard(&cctx, || unsafe {
                                let m2 = mk_bdd_manager_default_order(2 * k as u64);
                                let mut acc = bdd_false(m2);
                                for i in 0..k {
                                    acc = bdd_or(m2, acc, bdd_and(m2, bdd_var(m2, i as u64, true), bdd_var(m2, (i + k) as u64, true)));
                                }
                                let js = CStr::from_ptr(bdd_to_json(acc)).to_string_lossy().to_string();
                                let pr = CStr::from_ptr(print_bdd(acc)).to_string_lossy().to_string();
                                let r = json!({"k": k, "json": digest(&js), "print": digest(&pr), "nodes": bdd_count_nodes(acc)});
                                free_bdd_manager(m2);
                                r
                            }),
                        )
                    }
                    _ => (
                        // polynomial weights: new_polynomial (truncated at the documented 32 coefficients), set, read back, destroy;
                        // and the builder's recursion counter
                        guarded(|| {
                            let long: Vec<f64> = (0..40).map(|i| ((i * 3 + sv) % 9) as f64 / 8.0).collect();
                            let mk = |c: &[f64]| {
                                let mut r = Polynomial::<RealSemiring>::zero();
                                for (i, v) in c.iter().take(32).enumerate() {
                                    r.coefficients[i] = RealSemiring(*v);
                                }
                                r.len = c.len().min(32);
                                r
                            };
                            let pl = mk(&long);
                            let mut p = WmcParams::<Polynomial<RealSemiring>>::new(HashMap::new());
                            for (i, w) in ws.iter().enumerate() {
                                p.set_weight(vl(i), mk(&[w[0], w[2]]), mk(&[w[1], w[3]]));
                            }
                            let w = p.var_weight(vl(q));
                            let coeffs = |r: &Polynomial<RealSemiring>| (0..r.len.min(34)).map(|i| numv(r.coefficients[i].0 * 8.0)).collect::<Vec<_>>();
                            json!({"long_len": pl.len, "long": coeffs(&pl), "lo": coeffs(&w.0), "hi": coeffs(&w.1), "calls": nb.num_recursive_calls()})
                        }),
                        cguard(&cctx, || unsafe {
                            let long: Vec<f64> = (0..40).map(|i| ((i * 3 + sv) % 9) as f64 / 8.0).collect();
                            let pl = new_polynomial(long.as_ptr(), long.len());
                            let read = |r: *mut c_void| {
                                let mut buf = vec![0f64; 34];
                                let got = polynomial_get_coeffs(r, buf.as_mut_ptr(), 34);
                                (0..got).map(|i| numv(buf[i] * 8.0)).collect::<Vec<_>>()
                            };
                            let p = new_wmc_params_poly();
                            for (i, w) in ws.iter().enumerate() {
                                let (lo, hi) = ([w[0], w[2]], [w[1], w[3]]);
                                wmc_param_poly_set_weight(p, i as u64, lo.as_ptr(), 2, hi.as_ptr(), 2);
                            }
                            let w = wmc_param_poly_var_weight(p, q as u64);
                            let r = json!({"long_len": polynomial_len(pl), "long": read(pl), "lo": read(w.low), "hi": read(w.high), "calls": bdd_num_recursive_calls(cb)});
                            destroy_polynomial(pl);
                            destroy_polynomial(w.low);
                            destroy_polynomial(w.high);
                            destroy_wmc_params_poly(p);
                            r
                        }),
                    ),
                });
            }
            "json" => {
                let a = arg(rng, &npool);
                ev["a"] = json!([a]);
                scalar = Some((
                    guarded(|| serde_json::to_value(BDDSerializer::from_bdd(npool[a])).unwrap()),
                    cguard(&cctx, || unsafe {
                        let s = CStr::from_ptr(bdd_to_json(cpool[a])).to_string_lossy().to_string();
                        serde_json::from_str::<Value>(&s).unwrap()
                    }),
                ));
            }
            _ => unreachable!(),
        }
        if let Some((n, c)) = produced {
            match (n, c) {
                (Ok(np), Ok(cp)) => {
                    let mut newn = vec![];
                    ev["root"] = json!(nids.ptr(np, &mut newn));
                    ev["nodes"] = json!(newn);
                    let mut cnew = vec![];
                    ev["troot"] = json!(cids.ptr(unsafe { *cp }, &mut cnew));
                    ev["tnodes"] = json!(cnew);
                    ev["tev"] = json!(op);
                    ev["ta"] = ev["a"].clone();
                    ev["res"] = json!(res);
                    ev["dirty"] = json!([]);
                    npool[res] = np;
                    cpool[res] = cp;
                    next_slot += 1;
                    out.emit(ev);
                }
                (n, c) => {
                    // a panic on one side only is a divergence; on both sides the call is outside the C18 claim
                    ev["npanic"] = json!(n.is_err());
                    ev["cpanic"] = json!(c.is_err());
                    ev["ev"] = json!("panicpair");
                    out.emit(ev);
                    return;
                }
            }
        } else if let Some((n, c)) = scalar {
            match (n, c) {
                (Ok(nvv), Ok(cv)) => {
                    ev["val"] = nvv;
                    ev["tval"] = cv;
                    ev["tev"] = json!(op);
                    ev["ta"] = ev["a"].clone();
                    ev["dirty"] = json!([]);
                    out.emit(ev);
                }
                (n, c) => {
                    ev["npanic"] = json!(n.is_err());
                    ev["cpanic"] = json!(c.is_err());
                    ev["ev"] = json!("panicpair");
                    out.emit(ev);
                    return;
                }
            }
        }
    }
}
