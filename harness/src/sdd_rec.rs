//! Recorder for the SDD builders (`CompressionSddBuilder`, compression on/off, and the
//! hash-identified `SemanticSddBuilder`). Same contract as bdd_rec: raw structure out, no judgement.
use crate::bdd_rec::{count_in, gen_weights, rand_clauses};
use crate::util::*;
use rsdd::builder::sdd::{CompressionSddBuilder, SddBuilder, SemanticSddBuilder};
use rsdd::builder::BottomUpBuilder;
use rsdd::constants::primes;
use rsdd::repr::{
    create_semantic_hash_map, BinarySDD, Cnf, DDNNFPtr, DTree, Literal, SddOr, SddPtr, VTree, VarLabel,
    VarOrder,
};
use serde_json::{json, Value};
use std::collections::HashMap;

pub const K: usize = 12;

pub struct SddIds<'a> {
    map: HashMap<usize, usize>,
    pub all: Vec<SddPtr<'a>>,
}

fn addr_of(p: SddPtr) -> Option<usize> {
    match p {
        SddPtr::BDD(b) | SddPtr::ComplBDD(b) => Some(b as *const BinarySDD as usize),
        SddPtr::Reg(o) | SddPtr::Compl(o) => Some(o as *const SddOr as usize),
        _ => None,
    }
}

impl<'a> SddIds<'a> {
    pub fn new() -> Self {
        SddIds { map: HashMap::new(), all: vec![] }
    }
    /// pointer encoding: ["t",0,0] ["f",0,0] ["l",var,pol] ["n",id,compl]
    pub fn ptr(&mut self, p: SddPtr<'a>, newn: &mut Vec<Value>) -> Value {
        match p {
            SddPtr::PtrTrue => json!(["t", 0, 0]),
            SddPtr::PtrFalse => json!(["f", 0, 0]),
            SddPtr::Var(l, pol) => json!(["l", l.value_usize(), pol as u8]),
            _ => {
                let addr = addr_of(p).unwrap();
                let id = if let Some(id) = self.map.get(&addr) {
                    *id
                } else {
                    // children first (post-order), so that every child id is smaller
                    let reg = if p.is_neg() { p.neg() } else { p };
                    let (kind, elems): (&str, Vec<(SddPtr<'a>, SddPtr<'a>)>) = match reg {
                        SddPtr::BDD(b) => (
                            "b",
                            vec![
                                (SddPtr::Var(b.label(), true), b.high()),
                                (SddPtr::Var(b.label(), false), b.low()),
                            ],
                        ),
                        SddPtr::Reg(o) => ("o", o.iter().map(|a| (a.prime(), a.sub())).collect()),
                        _ => unreachable!(),
                    };
                    let ej: Vec<Value> = elems
                        .iter()
                        .map(|(pr, su)| {
                            let a = self.ptr(*pr, newn);
                            let b = self.ptr(*su, newn);
                            json!([a, b])
                        })
                        .collect();
                    let id = self.map.len() + 1;
                    self.map.insert(addr, id);
                    self.all.push(reg);
                    newn.push(json!([id, kind, reg.vtree().value(), ej]));
                    id
                };
                json!(["n", id, p.is_neg() as u8])
            }
        }
    }
    pub fn dirty(&self) -> Vec<usize> {
        self.all
            .iter()
            .enumerate()
            .filter(|(_, p)| !p.is_scratch_cleared())
            .map(|(i, _)| i + 1)
            .collect()
    }
}

// ---------------------------------------------------------------- vtrees

/// random vtree over the given leaf labels (every shape reachable)
pub fn rand_vtree(rng: &mut Rng, leaves: &[usize]) -> VTree {
    if leaves.len() == 1 {
        return VTree::new_leaf(VarLabel::new_usize(leaves[0]));
    }
    let split = rng.range(1, leaves.len() - 1);
    VTree::new_node(
        Box::new(rand_vtree(rng, &leaves[..split])),
        Box::new(rand_vtree(rng, &leaves[split..])),
    )
}

pub fn vtree_json(t: &VTree) -> Value {
    if t.is_leaf() {
        json!(["leaf", t.extract_leaf().value_usize()])
    } else {
        json!(["node", vtree_json(t.left()), vtree_json(t.right())])
    }
}

/// a vtree over exactly the variables 0..n: shape family chosen at random
pub fn pick_vtree(rng: &mut Rng, n: usize) -> (VTree, &'static str) {
    let perm = rng.perm(n);
    let labels: Vec<VarLabel> = perm.iter().map(|v| VarLabel::new_usize(*v)).collect();
    match rng.below(6) {
        0 => (VTree::right_linear(&labels), "right_linear"),
        1 => (VTree::left_linear(&labels), "left_linear"),
        2 => (VTree::even_split(&labels, if n >= 4 { 1 + rng.below(2) } else { 1 }), "even_split"),
        3 if n >= 2 => {
            // derived from a dtree of a random CNF that mentions every variable
            let mut c = rand_clauses(rng, n, 5, 3);
            c.retain(|cl| !cl.is_empty());
            for v in 0..n {
                c.push(vec![(v, rng.coin()), ((v + 1) % n, rng.coin())]);
            }
            let cl: Vec<Vec<Literal>> = c
                .iter()
                .map(|cl| cl.iter().map(|(v, p)| Literal::new(VarLabel::new_usize(*v), *p)).collect())
                .collect();
            let cnf = Cnf::new(&cl);
            let elim: Vec<VarLabel> = rng.perm(n).into_iter().map(VarLabel::new_usize).collect();
            let dtree = DTree::from_cnf(&cnf, &VarOrder::new(&elim));
            match VTree::from_dtree(&dtree) {
                Some(t) if t.all_vars().len() == n && VTree::is_valid_vtree(&t) => (t, "from_dtree"),
                _ => (rand_vtree(rng, &perm), "random"),
            }
        }
        _ => (rand_vtree(rng, &perm), "random"),
    }
}

// ---------------------------------------------------------------- session

const OPS: [&str; 17] = [
    "var", "neg", "and", "or", "xor", "iff", "ite", "cond", "exists", "compose", "cnf", "eq", "wmc", "semhash", "pred", "expr", "plan",
];

fn weights(mode: &str) -> [usize; 15] {
    //                var neg and or xor iff ite cond ex comp cnf eq wmc semh pred
    match mode {
        "c03" => [4, 3, 8, 8, 5, 5, 8, 7, 6, 5, 0, 0, 0, 0, 0],
        "c04" => [4, 3, 8, 8, 5, 5, 8, 7, 6, 4, 1, 8, 0, 0, 3],
        "c05" => [2, 1, 2, 2, 1, 1, 1, 1, 1, 0, 12, 0, 0, 0, 0],
        "c07" => [4, 2, 6, 6, 4, 4, 5, 4, 3, 2, 2, 0, 14, 0, 0],
        "c10" => [3, 2, 5, 5, 3, 3, 4, 5, 4, 2, 1, 1, 8, 6, 2],
        "c11" => [4, 2, 6, 6, 4, 4, 5, 4, 3, 2, 2, 0, 0, 14, 0],
        "c16" => [3, 2, 8, 8, 6, 6, 9, 6, 5, 5, 0, 0, 0, 0, 0],
        "sem" => [4, 3, 9, 9, 0, 0, 0, 7, 6, 0, 3, 8, 0, 3, 0], // semantic builder: ite/iff/xor/compose are todo!()
        _ => panic!("unknown sdd mode {mode}"),
    }
}

pub struct Session<'a, B: SddBuilder<'a>> {
    b: &'a B,
    ids: SddIds<'a>,
    pool: Vec<SddPtr<'a>>,
    nv: usize,
    /// the variables of the vtree (all of 0..nv unless the vtree has label gaps)
    labels: Vec<usize>,
    next_slot: usize,
    semantic: bool,
    /// mode c16: (vtree, compression) for the cache-cold twin builder of every operation
    cold: Option<(VTree, bool)>,
    /// mode c11: the slot to hash next (the result of xor / iff on two different pointers of one function: in an uncompressed
    /// builder a NODE that denotes a constant, whose hash sits on the boundary residues 0 and 1)
    hash_next: Option<usize>,
    /// scripted steps: (operation, argument slots) forced for the next steps
    script: std::collections::VecDeque<(&'static str, Vec<usize>)>,
}

/// structural copy of an SDD into another builder over the same vtree (through the public operations only)
fn sdd_copy<'a, 'b, B: SddBuilder<'b>>(b2: &'b B, p: SddPtr<'a>, memo: &mut HashMap<usize, SddPtr<'b>>) -> SddPtr<'b> {
    match p {
        SddPtr::PtrTrue => SddPtr::PtrTrue,
        SddPtr::PtrFalse => SddPtr::PtrFalse,
        SddPtr::Var(l, pol) => SddPtr::Var(l, pol),
        _ => {
            let reg = if p.is_neg() { p.neg() } else { p };
            let addr = addr_of(reg).unwrap();
            let r = if let Some(r) = memo.get(&addr) {
                *r
            } else {
                let elems: Vec<(SddPtr<'a>, SddPtr<'a>)> = match reg {
                    SddPtr::BDD(bd) => vec![(SddPtr::Var(bd.label(), true), bd.high()), (SddPtr::Var(bd.label(), false), bd.low())],
                    SddPtr::Reg(o) => o.iter().map(|a| (a.prime(), a.sub())).collect(),
                    _ => unreachable!(),
                };
                let mut acc = SddPtr::PtrFalse;
                for (pr, su) in elems {
                    let (x, y) = (sdd_copy(b2, pr, memo), sdd_copy(b2, su, memo));
                    acc = b2.or(acc, b2.and(x, y));
                }
                memo.insert(addr, acc);
                acc
            };
            if p.is_neg() { r.neg() } else { r }
        }
    }
}

/// the same operation on structural copies of its operands in a brand-new builder (empty apply / ite caches, empty tables)
fn cold_twin(vt: &VTree, compress: bool, op: &str, ev: &Value, pool: &[SddPtr]) -> Result<(Value, Vec<Value>), String> {
    let a: Vec<usize> = ev["a"].as_array().map(|x| x.iter().map(|v| v.as_u64().unwrap() as usize).collect()).unwrap_or_default();
    guarded(|| {
        let mut bm = CompressionSddBuilder::new(vt.clone());
        bm.set_compression(compress);
        let b2 = &bm;
        let mut memo = HashMap::new();
        let vl = |v: usize| VarLabel::new_usize(v);
        let mut arg = |i: usize| sdd_copy(b2, pool[a[i]], &mut memo);
        let r2 = match op {
            "neg" => { let x = arg(0); b2.negate(x) }
            "and" => { let (x, y) = (arg(0), arg(1)); b2.and(x, y) }
            "or" => { let (x, y) = (arg(0), arg(1)); b2.or(x, y) }
            "xor" => { let (x, y) = (arg(0), arg(1)); b2.xor(x, y) }
            "iff" => { let (x, y) = (arg(0), arg(1)); b2.iff(x, y) }
            "ite" => { let (x, y, z) = (arg(0), arg(1), arg(2)); b2.ite(x, y, z) }
            "cond" => { let x = arg(0); b2.condition(x, vl(a[1]), a[2] == 1) }
            "exists" => { let x = arg(0); b2.exists(x, vl(a[1])) }
            "compose" => { let (x, y) = (arg(0), arg(2)); b2.compose(x, vl(a[1]), y) }
            _ => panic!("no cold twin for {op}"),
        };
        let mut ids = SddIds::new();
        let mut nodes = vec![];
        let root = ids.ptr(r2, &mut nodes);
        (root, nodes)
    })
}

impl<'a, B: SddBuilder<'a>> Session<'a, B> {
    fn arg(&self, rng: &mut Rng) -> usize {
        for _ in 0..8 {
            let s = rng.below(K);
            if self.pool[s].is_const() && rng.chance(2, 3) {
                continue;
            }
            return s;
        }
        rng.below(2)
    }

    fn step(&mut self, rng: &mut Rng, mode: &str, out: &mut Out, sem_hash: &dyn Fn(SddPtr<'a>) -> u128) -> bool {
        let mut w = weights(mode).to_vec();
        w.extend(if mode == "c05" { [6usize, 6] } else { [0, 0] }); // expr, plan (BottomUpBuilder defaults, also on SDD builders)
        let mut op = OPS[rng.weighted(&w)];
        let seeding = self.next_slot < self.labels.len().min(K - 2) && self.next_slot < 6;
        // semantic builder: every so often build a NODE that denotes a literal - (t AND x) OR (NOT t AND x) for a literal x and any t -
        // and ask eq(x, node) both ways (a hash-identified builder must not judge two equal functions different)
        if mode == "sem" && !seeding && self.script.is_empty() && rng.chance(1, 12) {
            let r: Vec<usize> = (0..4).map(|k| 2 + ((self.next_slot + k) % (K - 2))).collect();
            let xs: Vec<usize> = (2..K).filter(|i| self.pool[*i].is_var() && !r.contains(i)).collect();
            let ts: Vec<usize> = (2..K).filter(|i| !self.pool[*i].is_var() && !self.pool[*i].is_const() && !r.contains(i)).collect();
            if !xs.is_empty() && !ts.is_empty() {
                let (x, t) = (xs[rng.below(xs.len())], ts[rng.below(ts.len())]);
                self.script.extend([("and", vec![t, x]), ("neg", vec![t]), ("and", vec![r[1], x]), ("or", vec![r[0], r[2]]), ("eq", vec![x, r[3]]), ("eq", vec![r[3], x])]);
            }
        }
        let forced = if seeding { None } else { self.script.pop_front() };
        if seeding {
            op = "var";
        } else if let Some((fop, _)) = &forced {
            op = fop;
        } else if mode == "c11" && self.hash_next.is_some() {
            op = "semhash";
        }
        if self.labels.len() < self.nv && matches!(op, "cnf" | "expr" | "plan") {
            op = "and"; // a vtree with label gaps: formulas over all of 0..nv would mention variables the builder does not have
        }
        let b = self.b;
        let nv = self.nv;
        let vl = |v: usize| VarLabel::new_usize(v);
        let res_slot = 2 + (self.next_slot % (K - 2));
        let mut ev = json!({ "ev": op, "a": [] });
        let produced: Option<Result<SddPtr<'a>, String>> = match op {
            "var" => {
                let (v, p) = if seeding { (self.labels[self.next_slot], rng.coin()) } else { (*rng.pick(&self.labels), rng.coin()) };
                ev["a"] = json!([v, p as u8]);
                Some(guarded(|| b.var(vl(v), p)))
            }
            "neg" => {
                let a = match &forced { Some((_, f)) => f[0], None => self.arg(rng) };
                ev["a"] = json!([a]);
                let x = self.pool[a];
                Some(guarded(|| b.negate(x)))
            }
            "and" | "or" | "xor" | "iff" => {
                let (mut a, mut c) = match &forced { Some((_, f)) => (f[0], f[1]), None => (self.arg(rng), self.arg(rng)) };
                if forced.is_none() && rng.chance(2, 3) {
                    // steer towards the interesting case: two different pointers that (according to the library's own
                    // evaluator - this only chooses the arguments, the verdict is TLC's) denote the same function
                    let pool = &self.pool;
                    let tts = guarded(|| {
                        pool.iter()
                            .map(|p| (0..1usize << nv).map(|m| p.evaluate(&(0..nv).map(|v| m >> v & 1 == 1).collect::<Vec<_>>())).collect::<Vec<bool>>())
                            .collect::<Vec<_>>()
                    });
                    if let Ok(tts) = tts {
                        let same: Vec<usize> = (0..K).filter(|s| *s != a && tts[*s] == tts[a] && pool[*s] != pool[a]).collect();
                        if !same.is_empty() {
                            c = same[rng.below(same.len())];
                            if rng.coin() {
                                std::mem::swap(&mut a, &mut c);
                            }
                            if matches!(op, "xor" | "iff") {
                                self.hash_next = Some(res_slot);
                            }
                        }
                    }
                }
                ev["a"] = json!([a, c]);
                let (x, y) = (self.pool[a], self.pool[c]);
                Some(guarded(|| match op {
                    "and" => b.and(x, y),
                    "or" => b.or(x, y),
                    "xor" => b.xor(x, y),
                    _ => b.iff(x, y),
                }))
            }
            "ite" => {
                let (a, c, d) = (self.arg(rng), self.arg(rng), self.arg(rng));
                ev["a"] = json!([a, c, d]);
                let (x, y, z) = (self.pool[a], self.pool[c], self.pool[d]);
                Some(guarded(|| b.ite(x, y, z)))
            }
            "cond" => {
                let (a, v, p) = (self.arg(rng), *rng.pick(&self.labels), rng.coin());
                ev["a"] = json!([a, v, p as u8]);
                let x = self.pool[a];
                Some(guarded(|| b.condition(x, vl(v), p)))
            }
            "exists" => {
                let (a, v) = (self.arg(rng), *rng.pick(&self.labels));
                ev["a"] = json!([a, v]);
                let x = self.pool[a];
                Some(guarded(|| b.exists(x, vl(v))))
            }
            "compose" => {
                let (a, v, c) = (self.arg(rng), *rng.pick(&self.labels), self.arg(rng));
                ev["a"] = json!([a, v, c]);
                let (x, y) = (self.pool[a], self.pool[c]);
                Some(guarded(|| b.compose(x, vl(v), y)))
            }
            "cnf" => {
                let c = rand_clauses(rng, nv, 5, 3);
                ev["cnf"] = json!(c
                    .iter()
                    .map(|cl| cl.iter().map(|(v, p)| if *p { *v as i64 + 1 } else { -(*v as i64 + 1) }).collect::<Vec<_>>())
                    .collect::<Vec<_>>());
                let cl: Vec<Vec<Literal>> = c
                    .iter()
                    .map(|cl| cl.iter().map(|(v, p)| Literal::new(vl(*v), *p)).collect())
                    .collect();
                let cnf = Cnf::new(&cl);
                Some(guarded(|| b.compile_cnf(&cnf)))
            }
            "expr" => {
                let (j, e) = crate::bdd_rec::rand_expr(rng, nv, 3);
                ev["expr"] = j;
                Some(guarded(|| b.compile_logical_expr(&e)))
            }
            "plan" => {
                use rsdd::plan::BottomUpPlan;
                use rsdd::repr::{DTree, VarOrder};
                if rng.coin() {
                    // plan derived from a dtree of a random CNF with at least one clause
                    let mut c = rand_clauses(rng, nv, 6, 4);
                    c.retain(|cl| !cl.is_empty());
                    if c.is_empty() {
                        c.push(vec![(rng.below(nv), rng.coin())]);
                    }
                    let cnf = crate::bdd_rec::mk_cnf(&c);
                    let elim: Vec<VarLabel> = rng.perm(cnf.num_vars()).into_iter().map(vl).collect();
                    match guarded(|| BottomUpPlan::from_dtree(&DTree::from_cnf(&cnf, &VarOrder::new(&elim)))) {
                        Ok(plan) => {
                            ev["expr"] = crate::bdd_rec::plan_json(&plan);
                            ev["cnf"] = crate::bdd_rec::lits_json(&c);
                            Some(guarded(|| b.compile_plan(&plan)))
                        }
                        Err(m) => Some(Err(m)),
                    }
                } else {
                    let plan = crate::bdd_rec::rand_plan(rng, nv, 3);
                    ev["expr"] = crate::bdd_rec::plan_json(&plan);
                    Some(guarded(|| b.compile_plan(&plan)))
                }
            }
            _ => None,
        };
        if let Some(r) = produced {
            return match r {
                Ok(ptr) => {
                    let mut newn = vec![];
                    let root = self.ids.ptr(ptr, &mut newn);
                    // uncompressed builders can return nodes with tens of thousands of elements: such a result ends the segment
                    // (the event is not logged; what was logged so far remains a complete history of this builder)
                    let biggest = newn.iter().map(|n| n[3].as_array().map_or(0, |a| a.len())).max().unwrap_or(0);
                    if biggest > 64 || newn.len() > 400 {
                        return false;
                    }
                    let old_in_slot = self.pool[res_slot];
                    self.pool[res_slot] = ptr;
                    self.next_slot += 1;
                    ev["res"] = json!(res_slot);
                    ev["root"] = root;
                    ev["nodes"] = json!(newn);
                    ev["dirty"] = json!(self.ids.dirty());
                    if self.semantic {
                        match guarded(|| sem_hash(ptr)) {
                            Ok(h) => ev["hash"] = json!(limbs(h)),
                            Err(m) => ev["panic"] = json!(format!("cached_semantic_hash: {m}")),
                        }
                    }
                    if let (Some((vt, compress)), "c16") = (&self.cold, mode) {
                        if !matches!(op, "var" | "cnf" | "expr" | "plan") {
                            // C16: the caches of this long-lived builder must not have changed the result
                            let before: Vec<SddPtr> = { let mut q = self.pool.clone(); q[res_slot] = old_in_slot; q };
                            match cold_twin(vt, *compress, op, &ev, &before) {
                                Ok((root, nodes)) => {
                                    ev["cold_root"] = root;
                                    ev["cold_nodes"] = json!(nodes);
                                }
                                Err(m) => ev["cold_panic"] = json!(m),
                            }
                        }
                    }
                    out.emit(ev);
                    true
                }
                Err(m) => {
                    ev["panic"] = json!(m);
                    out.emit(ev);
                    false
                }
            };
        }
        let r: Result<(), String> = match op {
            "eq" => {
                let (mut a, mut c) = match &forced { Some((_, f)) => (f[0], f[1]), None => (self.arg(rng), self.arg(rng)) };
                if forced.is_none() && rng.chance(2, 3) {
                    // steer towards the interesting case: two different pointers that (according to the library's own
                    // evaluator - this only chooses the arguments, the verdict is TLC's) denote the same function
                    let pool = &self.pool;
                    let tts = guarded(|| {
                        pool.iter()
                            .map(|p| (0..1usize << nv).map(|m| p.evaluate(&(0..nv).map(|v| m >> v & 1 == 1).collect::<Vec<_>>())).collect::<Vec<bool>>())
                            .collect::<Vec<_>>()
                    });
                    if let Ok(tts) = tts {
                        // first choice: a LITERAL (or constant) pointer against a different pointer - a node - of the same function
                        let leafy: Vec<(usize, usize)> = (0..K)
                            .flat_map(|s| (0..K).map(move |t| (s, t)))
                            .filter(|(s, t)| s != t && tts[*s] == tts[*t] && pool[*s] != pool[*t] && (pool[*s].is_var() || pool[*s].is_const()) && !(pool[*t].is_var() || pool[*t].is_const()))
                            .collect();
                        let same: Vec<usize> = (0..K).filter(|s| *s != a && tts[*s] == tts[a] && pool[*s] != pool[a]).collect();
                        if !leafy.is_empty() && rng.chance(2, 3) {
                            let (s, t) = leafy[rng.below(leafy.len())];
                            a = s;
                            c = t;
                            if rng.coin() {
                                std::mem::swap(&mut a, &mut c);
                            }
                        } else if !same.is_empty() {
                            c = same[rng.below(same.len())];
                            if rng.coin() {
                                std::mem::swap(&mut a, &mut c);
                            }
                        }
                    }
                }
                ev["a"] = json!([a, c]);
                let (x, y) = (self.pool[a], self.pool[c]);
                guarded(|| b.eq(x, y)).map(|r| ev["val"] = json!(r))
            }
            "pred" => {
                // the library's own predicates: logged as a cross-check only (MODEL-DRIFT, never an alarm)
                let a = self.arg(rng);
                ev["a"] = json!([a]);
                let x = self.pool[a];
                guarded(|| (x.is_compressed(), x.is_trimmed(), x.is_canonical()))
                    .map(|(c, t, k)| ev["val"] = json!([c, t, k]))
            }
            "wmc" => {
                let a = self.arg(rng);
                ev["a"] = json!([a]);
                let x = self.pool[a];
                let kind = *rng.pick(&["real", "bool", "ff", "complex", "eu", "poly", "rat", "polyhi"]);
                let wq = gen_weights(rng, kind, nv, true); // SDD counts are only defined for normalised weights
                wq.log(&mut ev);
                let r = count_in(x, &wq, nv, &mut ev);
                if let (Some((vt, compress)), "c10", Ok(())) = (&self.cold, mode, &r) {
                    // purity (C10): the same count on a structural copy of the diagram in a brand-new builder
                    let mut fresh = json!({});
                    let fr = guarded(|| {
                        let mut bm = CompressionSddBuilder::new(vt.clone());
                        bm.set_compression(*compress);
                        let y = sdd_copy(&bm, x, &mut HashMap::new());
                        count_in(y, &wq, nv, &mut fresh)
                    });
                    match fr {
                        Ok(Ok(())) => ev["fresh"] = fresh,
                        Ok(Err(m)) | Err(m) => ev["fresh"] = json!({"panic": m}),
                    }
                }
                r
            }
            "semhash" => {
                let a = self.hash_next.take().unwrap_or_else(|| self.arg(rng));
                ev["a"] = json!([a]);
                let x = self.pool[a];
                if rng.coin() {
                    ev["p"] = json!("32749");
                    let map = create_semantic_hash_map::<32749>(nv);
                    ev["w"] = json!((0..nv)
                        .map(|i| {
                            let (l, h) = map.var_weight(vl(i));
                            vec![vec![l.value() as u64], vec![h.value() as u64]]
                        })
                        .collect::<Vec<_>>());
                    guarded(|| x.semantic_hash(&map)).map(|v| ev["val"] = json!(v.value() as u64))
                } else {
                    ev["p"] = json!("U64_LARGEST");
                    let map = create_semantic_hash_map::<{ primes::U64_LARGEST }>(nv);
                    let vm = b.vtree_manager();
                    guarded(|| (x.semantic_hash(&map), x.neg().semantic_hash(&map), x.cached_semantic_hash(vm, &map), x.neg().cached_semantic_hash(vm, &map))).map(
                        |(v, n, c, nc)| {
                            ev["limbs"] = json!(limbs(v.value()));
                            ev["nlimbs"] = json!(limbs(n.value()));
                            ev["climbs"] = json!(limbs(c.value()));
                            ev["nclimbs"] = json!(limbs(nc.value()));
                        },
                    )
                }
            }
            _ => unreachable!(),
        };
        match r {
            Ok(()) => {
                ev["dirty"] = json!(self.ids.dirty());
                out.emit(ev);
                true
            }
            Err(m) => {
                ev["panic"] = json!(m);
                out.emit(ev);
                false
            }
        }
    }
}

fn run<'a, B: SddBuilder<'a>>(
    b: &'a B,
    nv: usize,
    semantic: bool,
    rng: &mut Rng,
    mode: &str,
    len: usize,
    out: &mut Out,
    sem_hash: &dyn Fn(SddPtr<'a>) -> u128,
    cold: Option<(VTree, bool)>,
    labels: Vec<usize>,
) {
    let mut pool = vec![SddPtr::PtrTrue; K];
    pool[1] = SddPtr::PtrFalse;
    let mut s = Session { b, ids: SddIds::new(), pool, nv, labels, next_slot: 0, semantic, cold, hash_next: None, script: Default::default() };
    for _ in 0..len {
        if !s.step(rng, mode, out, sem_hash) {
            break;
        }
    }
}

/// a scripted segment with WIDE decision nodes: a vtree whose left child carries `nl` variables and whose right child
/// carries `nr`, and two disjunctions of (left literal AND right literal) terms whose conjunction is a node with up to
/// 2^nl elements before compression (fine partitions meet fine partitions). Events use the ordinary format.
fn wide_segment(rng: &mut Rng, nl: usize, nr: usize, out: &mut Out) {
    let n = nl + nr;
    let perm_l = rng.perm(nl);
    let perm_r: Vec<usize> = rng.perm(nr).into_iter().map(|v| v + nl).collect();
    let lab = |v: &usize| VarLabel::new_usize(*v);
    let left = if rng.coin() { VTree::right_linear(&perm_l.iter().map(lab).collect::<Vec<_>>()) } else { VTree::even_split(&perm_l.iter().map(lab).collect::<Vec<_>>(), 2) };
    let right = VTree::right_linear(&perm_r.iter().map(lab).collect::<Vec<_>>());
    let vt = VTree::new_node(Box::new(left), Box::new(right));
    rsdd::verif::set_table_capacity(*rng.pick(&[0usize, 2, 8]));
    out.emit(json!({"ev": "reset", "n0": n, "vtree": vtree_json(&vt), "family": "wide", "compress": true, "semantic": false, "tcap": 0}));
    let b = CompressionSddBuilder::new(vt);
    let mut ids = SddIds::new();
    let mut pool = vec![SddPtr::PtrTrue; K];
    pool[1] = SddPtr::PtrFalse;
    // emit one producing event into a chosen slot
    fn emit<'a>(op: &str, a: Value, slot: usize, r: Result<SddPtr<'a>, String>, pool: &mut Vec<SddPtr<'a>>, ids: &mut SddIds<'a>, out: &mut Out) -> bool {
        let mut ev = json!({"ev": op, "a": a});
        match r {
            Ok(p) => {
                let mut newn = vec![];
                let root = ids.ptr(p, &mut newn);
                pool[slot] = p;
                ev["res"] = json!(slot);
                ev["root"] = root;
                ev["nodes"] = json!(newn);
                ev["dirty"] = json!(ids.dirty());
                out.emit(ev);
                true
            }
            Err(m) => {
                ev["panic"] = json!(m);
                out.emit(ev);
                false
            }
        }
    }
    // two disjunctions of terms: term i of the first pairs left variable i with right variable i mod nr, the second uses the
    // other half of the left variables; accumulated in slots 6 (a) and 7 (b) through scratch slots 2..5
    let half = nl / 2;
    for (acc, offs) in [(6usize, 0usize), (7usize, half)] {
        for i in 0..half {
            let (lv, rv) = (perm_l[offs + i], perm_r[i % nr]);
            let (pl, pr) = (rng.coin(), rng.coin());
            if !emit("var", json!([lv, pl as u8]), 2, guarded(|| b.var(VarLabel::new_usize(lv), pl)), &mut pool, &mut ids, out) { return; }
            if !emit("var", json!([rv, pr as u8]), 3, guarded(|| b.var(VarLabel::new_usize(rv), pr)), &mut pool, &mut ids, out) { return; }
            let (x, y) = (pool[2], pool[3]);
            if !emit("and", json!([2, 3]), 4, guarded(|| b.and(x, y)), &mut pool, &mut ids, out) { return; }
            if i == 0 {
                let t = pool[4];
                if !emit("or", json!([4, 1]), acc, guarded(|| b.or(t, SddPtr::PtrFalse)), &mut pool, &mut ids, out) { return; }
            } else {
                let (u, t) = (pool[acc], pool[4]);
                if !emit("or", json!([acc, 4]), acc, guarded(|| b.or(u, t)), &mut pool, &mut ids, out) { return; }
            }
        }
    }
    let (a, c) = (pool[6], pool[7]);
    if !emit("and", json!([6, 7]), 8, guarded(|| b.and(a, c)), &mut pool, &mut ids, out) { return; }
    if !emit("or", json!([6, 7]), 9, guarded(|| b.or(a, c)), &mut pool, &mut ids, out) { return; }
    let (x, y) = (pool[8], pool[9]);
    if !emit("xor", json!([8, 9]), 10, guarded(|| b.xor(x, y)), &mut pool, &mut ids, out) { return; }
    // the same conjunction reached along another route must be the same pointer (canon map of the specification)
    let (x, y) = (pool[7], pool[6]);
    emit("and", json!([7, 6]), 11, guarded(|| b.and(x, y)), &mut pool, &mut ids, out);
}

pub fn record(args: &Args) {
    let seed = args.num("seed", 1);
    let segs = args.num("segments", 4) as usize;
    let len = args.num("len", 150) as usize;
    let nmax = args.num("nmax", 5) as usize;
    let mode = args.str("mode", "c03");
    let mut out = Out::new(&args.str("out", "-"));
    let mut rng = Rng::new(seed ^ 0x5dd);
    out.emit(json!({"ev": "init", "kind": "sdd", "nmax": nmax, "k": K, "mode": mode, "seed": seed}));
    if mode == "wide" {
        let (nl, nr) = (args.num("nl", 6) as usize, args.num("nr", 3) as usize);
        for _ in 0..segs {
            wide_segment(&mut rng, nl, nr, &mut out);
        }
        rsdd::verif::set_table_capacity(0);
        out.flush();
        return;
    }
    for _ in 0..segs {
        let mut n = rng.range(nmax.saturating_sub(2).max(2), nmax);
        let (mut vt, family) = pick_vtree(&mut rng, n);
        let mut labels: Vec<usize> = (0..n).collect();
        if matches!(mode.as_str(), "sem" | "c03" | "c11" | "c07") && n + 1 <= nmax && rng.chance(1, 4) {
            // a vtree whose labels are not contiguous (as the vtree of a CNF with unused variable indices): the builder's
            // variable universe is 0..=max label, some of which it never sees
            let n0 = rng.range(n + 1, nmax);
            let mut pick = rng.perm(n0);
            pick.truncate(n);
            pick.sort();
            fn relabel(t: &VTree, m: &[usize]) -> VTree {
                if t.is_leaf() {
                    VTree::new_leaf(VarLabel::new_usize(m[t.extract_leaf().value_usize()]))
                } else {
                    VTree::new_node(Box::new(relabel(t.left(), m)), Box::new(relabel(t.right(), m)))
                }
            }
            vt = relabel(&vt, &pick);
            labels = pick;
            n = n0;
        }
        let semantic = mode == "sem";
        // C04 is about the compressing builder; elsewhere compression is switched off in a third of the
        // segments (uncompressed SDDs can blow up: those segments are short and small)
        let compress = semantic || mode == "c04" || !(if mode == "c11" { rng.coin() } else { rng.chance(1, 3) });
        let tcap = if mode == "c04" { *rng.pick(&[1usize, 2, 2, 4, 4, 8]) } else { *rng.pick(&[0usize, 0, 1, 2, 4, 16]) };
        let seg_len = if compress { len } else { len.min(30) };
        rsdd::verif::set_table_capacity(tcap);
        out.emit(json!({"ev": "reset", "n0": n, "vtree": vtree_json(&vt), "family": family,
                        "compress": compress, "semantic": semantic, "tcap": tcap}));
        if semantic {
            let b = SemanticSddBuilder::<{ primes::U64_LARGEST }>::new(vt);
            let bb = &b;
            run(bb, n, true, &mut rng, &mode, seg_len, &mut out, &|p| bb.cached_semantic_hash(p).value(), None, labels);
        } else {
            let cold = if mode == "c16" || mode == "c10" { Some((vt.clone(), compress)) } else { None };
            let mut b = CompressionSddBuilder::new(vt);
            b.set_compression(compress);
            run(&b, n, false, &mut rng, &mode, seg_len, &mut out, &|_| 0, cold, labels);
        }
    }
    rsdd::verif::set_table_capacity(0);
    out.flush();
}
