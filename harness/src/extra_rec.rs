//! `rv record extras`: behaviour of the library beyond the listed properties, recorded for the specifications
//! Hypergraph.tla (util/hypergraph.rs as a state machine), BTrees.tla (util/btree.rs: traversals, index maps,
//! least common ancestors), and the read-only queries of VarOrder and WmcParams. As everywhere, the recorder only
//! dumps what the code returns; TraceExtras.tla decides.
use crate::util::{guarded, num, Args, Out, Rng};
use rsdd::repr::{Cnf, Literal, VarLabel, VarOrder, WmcParams};
use rsdd::util::btree::{BTree, LeastCommonAncestor};
use rsdd::util::hypergraph::{from_cnf, Hypergraph};
use rsdd::util::semirings::RealSemiring;
use serde_json::{json, Value};
use std::collections::{HashMap, HashSet};

fn sorted(s: &HashSet<usize>) -> Vec<usize> {
    let mut v: Vec<usize> = s.iter().cloned().collect();
    v.sort();
    v
}

fn edges_json(es: &[&HashSet<usize>]) -> Value {
    json!(es.iter().map(|e| sorted(e)).collect::<Vec<_>>())
}

fn rand_set(rng: &mut Rng, univ: &[usize], max: usize) -> HashSet<usize> {
    let k = rng.below(max + 1);
    (0..k).filter(|_| !univ.is_empty()).map(|_| *rng.pick(univ)).collect()
}

fn hg_state(g: &Hypergraph<usize>, ev: &mut Value) {
    ev["verts"] = json!(sorted(g.vertices()));
    ev["edges"] = edges_json(&g.edges());
}

fn hg_query(rng: &mut Rng, g: &Hypergraph<usize>, u: usize) -> Value {
    let mut ev = json!({"ev": "hg_q"});
    let univ: Vec<usize> = (0..u).collect();
    let r = guarded(|| {
        let mut ev = json!({});
        ev["size"] = json!(g.size());
        ev["order"] = json!(g.order());
        let (mn, mx) = g.widths();
        ev["wmin"] = if mn == usize::MAX { json!(-1) } else { json!(mn) };
        ev["wmax"] = json!(mx);
        ev["width"] = if g.width() == usize::MAX { json!(-1) } else { json!(g.width()) };
        ev["covers"] = json!(g.covers().iter().map(|(vs, es)| json!({"vs": sorted(vs), "es": edges_json(es)})).collect::<Vec<_>>());
        let (p1, p2) = (rand_set(rng, &univ, 3), rand_set(rng, &univ, 3));
        let (v1, v2) = (sorted(&p1), sorted(&p2));
        ev["p1"] = json!(v1);
        ev["p2"] = json!(v2);
        let cut = g.get_cut_edges(&v1, &v2);
        ev["cut"] = edges_json(&cut.iter().collect::<Vec<_>>());
        ev["ncut"] = json!(g.count_cut_edges(&v1, &v2));
        let node = rng.below(u);
        ev["node"] = json!(node);
        match g.edges_for(&node) {
            None => ev["efor_none"] = json!(true),
            Some(es) => ev["efor"] = edges_json(&es),
        }
        ev
    });
    match r {
        Ok(x) => {
            for (k, v) in x.as_object().unwrap() {
                ev[k.as_str()] = v.clone();
            }
        }
        Err(m) => ev["panic"] = json!(m),
    }
    ev
}

fn record_hypergraph(rng: &mut Rng, out: &mut Out, u: usize, len: usize) {
    let univ: Vec<usize> = (0..u).collect();
    let mut g = if rng.chance(1, 3) {
        // from a CNF: one vertex per occurring variable, one edge per distinct clause support
        let nc = rng.below(6);
        let cls: Vec<Vec<Literal>> = (0..nc)
            .map(|_| (0..rng.below(4)).map(|_| Literal::new(VarLabel::new_usize(rng.below(u)), rng.coin())).collect())
            .collect();
        let cnf = Cnf::new(&cls);
        let g0 = from_cnf(&cnf);
        // re-typed to usize so that every later operation is on one concrete type
        let verts: HashSet<usize> = g0.vertices().iter().map(|v| v.value_usize()).collect();
        let edges: Vec<HashSet<usize>> = g0.edges().iter().map(|e| e.iter().map(|v| v.value_usize()).collect()).collect();
        let stored: Vec<Vec<i64>> = cnf
            .clauses()
            .iter()
            .map(|c| c.iter().map(|l| if l.polarity() { l.label().value() as i64 + 1 } else { -(l.label().value() as i64 + 1) }).collect())
            .collect();
        let mut ev = json!({"ev": "hg_cnf", "cnf": stored});
        ev["verts"] = json!(sorted(&verts));
        ev["edges"] = edges_json(&edges.iter().collect::<Vec<_>>());
        out.emit(ev);
        Hypergraph::new(verts, edges)
    } else {
        let verts = rand_set(rng, &univ, u);
        let vv = sorted(&verts);
        let ne = rng.below(5);
        let mut edges: Vec<HashSet<usize>> = (0..ne).map(|_| rand_set(rng, &vv, 3)).collect();
        if !edges.is_empty() && rng.chance(1, 3) {
            let d = edges[rng.below(edges.len())].clone(); // `new` does not de-duplicate
            edges.push(d);
        }
        let mut ev = json!({"ev": "hg_new", "in_verts": vv, "in_edges": edges_json(&edges.iter().collect::<Vec<_>>())});
        let g = Hypergraph::new(verts, edges);
        hg_state(&g, &mut ev);
        out.emit(ev);
        g
    };
    for _ in 0..len {
        match rng.below(5) {
            0 | 1 => {
                let e = rand_set(rng, &univ, 3);
                let mut ev = json!({"ev": "hg_ins", "e": sorted(&e)});
                match guarded(|| g.insert_edge(&e)) {
                    Ok(ok) => ev["ok"] = json!(ok),
                    Err(m) => ev["panic"] = json!(m),
                }
                hg_state(&g, &mut ev);
                out.emit(ev);
            }
            2 => {
                let v = rng.below(u);
                let mut ev = json!({"ev": "hg_cut", "v": v});
                match guarded(|| g.cut_vertex(&v)) {
                    Ok(ok) => ev["ok"] = json!(ok),
                    Err(m) => ev["panic"] = json!(m),
                }
                hg_state(&g, &mut ev);
                out.emit(ev);
            }
            _ => {
                let ev = hg_query(rng, &g, u);
                out.emit(ev);
            }
        }
    }
}

type T = BTree<usize, usize>;

/// random labelled tree with `k` internal nodes; labels are handed out in creation order and are pairwise distinct
fn rand_tree(rng: &mut Rng, k: usize, next: &mut usize) -> T {
    let me = *next;
    *next += 1;
    if k == 0 {
        return BTree::Leaf(me);
    }
    let left = rng.below(k);
    let l = rand_tree(rng, left, next);
    let r = rand_tree(rng, k - 1 - left, next);
    BTree::Node(me, Box::new(l), Box::new(r))
}

fn tree_json(t: &T) -> Value {
    match t {
        BTree::Leaf(x) => json!(["leaf", x]),
        BTree::Node(x, l, r) => json!(["node", x, tree_json(l), tree_json(r)]),
    }
}

fn label(t: &T) -> usize {
    if t.is_leaf() {
        *t.extract_leaf()
    } else {
        *t.extract_node()
    }
}

fn record_btree(rng: &mut Rng, out: &mut Out, kmax: usize) {
    let k = rng.below(kmax + 1);
    let mut next = 0;
    let t = rand_tree(rng, k, &mut next);
    let n = next;
    let mut ev = json!({"ev": "bt", "tree": tree_json(&t)});
    let r = guarded(|| {
        let mut ev = json!({});
        ev["inorder"] = json!(t.inorder_dfs_iter().map(label).collect::<Vec<_>>());
        ev["flat"] = json!(t.flatten().iter().map(|x| label(x)).collect::<Vec<_>>());
        ev["bfs"] = json!(t.bfs_iter().map(label).collect::<Vec<_>>());
        ev["d2b"] = json!(t.dfs_to_bfs_mapping());
        ev["b2d"] = json!(t.bfs_to_dfs_mapping());
        let s: HashSet<usize> = (0..rng.below(3)).map(|_| rng.below(n + 1)).collect();
        ev["q"] = json!(sorted(&s));
        ev["find"] = json!(t.find_leaf_idx(&|x: &usize| s.contains(x)).map(|i| i as i64).unwrap_or(-1));
        ev["contains"] = json!(t.contains_leaf(&|x: &usize| s.contains(x)));
        if !t.is_leaf() {
            ev["left"] = json!(label(t.left()));
            ev["right"] = json!(label(t.right()));
        }
        let lca = LeastCommonAncestor::new(&t);
        ev["lca"] = json!((0..n).map(|i| (0..n).map(|j| lca.lca(i, j)).collect::<Vec<_>>()).collect::<Vec<_>>());
        ev
    });
    match r {
        Ok(x) => {
            for (k, v) in x.as_object().unwrap() {
                ev[k.as_str()] = v.clone();
            }
        }
        Err(m) => ev["panic"] = json!(m),
    }
    out.emit(ev);
}

fn record_order_queries(rng: &mut Rng, out: &mut Out, nmax: usize) {
    let n = rng.range(1, nmax);
    let perm = rng.perm(n);
    let mut o = VarOrder::new(&perm.iter().map(|v| VarLabel::new_usize(*v)).collect::<Vec<_>>());
    let grown = rng.below(3);
    for _ in 0..grown {
        o.new_last();
    }
    let n = n + grown;
    let mut ev = json!({"ev": "ordq", "perm": perm, "grown": grown});
    let r = guarded(|| {
        let mut ev = json!({});
        let l = |v: usize| VarLabel::new_usize(v);
        ev["p2v"] = json!((0..n).map(|i| o.var_at_level(i).value_usize()).collect::<Vec<_>>());
        ev["lt"] = json!((0..n).map(|a| (0..n).map(|b| o.lt(l(a), l(b))).collect::<Vec<_>>()).collect::<Vec<_>>());
        ev["lte"] = json!((0..n).map(|a| (0..n).map(|b| o.lte(l(a), l(b))).collect::<Vec<_>>()).collect::<Vec<_>>());
        ev["above"] = json!((0..n).map(|a| o.above(l(a)).map(|v| v.value_usize() as i64).unwrap_or(-1)).collect::<Vec<_>>());
        ev["below"] = json!((0..n).map(|a| o.below(l(a)).map(|v| v.value_usize() as i64).unwrap_or(-1)).collect::<Vec<_>>());
        ev["inorder"] = json!(o.in_order_iter().map(|v| v.value_usize()).collect::<Vec<_>>());
        ev["rev"] = json!(o.reverse_in_order_iter().map(|v| v.value_usize()).collect::<Vec<_>>());
        ev["last"] = json!(o.last_var().value_usize());
        ev["display"] = json!(format!("{}", o));
        let mut bt = vec![];
        for lo in 0..=n {
            for hi in lo..=n {
                bt.push(json!([lo, hi, o.between_iter(lo, hi).map(|v| v.value_usize()).collect::<Vec<_>>()]));
            }
        }
        ev["between"] = json!(bt);
        ev
    });
    match r {
        Ok(x) => {
            for (k, v) in x.as_object().unwrap() {
                ev[k.as_str()] = v.clone();
            }
        }
        Err(m) => ev["panic"] = json!(m),
    }
    out.emit(ev);
}

fn record_wmc_params(rng: &mut Rng, out: &mut Out, nmax: usize) {
    let n = rng.range(1, nmax);
    let w0: Vec<(i64, i64)> = (0..n).map(|_| (rng.below(7) as i64 - 2, rng.below(7) as i64 - 2)).collect();
    let map: HashMap<VarLabel, (RealSemiring, RealSemiring)> =
        w0.iter().enumerate().map(|(v, (a, b))| (VarLabel::new_usize(v), (RealSemiring(*a as f64), RealSemiring(*b as f64)))).collect();
    let mut ev = json!({"ev": "wp", "w0": w0.iter().map(|(a, b)| vec![*a, *b]).collect::<Vec<_>>()});
    let r = guarded(|| {
        let mut ev = json!({});
        let mut p = WmcParams::new(map);
        // set_weight: overwrite an existing entry and define one past the end (the gap stays undefined)
        let mut sets = vec![];
        for _ in 0..rng.below(3) {
            let v = rng.below(n + 2);
            let (a, b) = (rng.below(7) as i64 - 2, rng.below(7) as i64 - 2);
            p.set_weight(VarLabel::new_usize(v), RealSemiring(a as f64), RealSemiring(b as f64));
            sets.push(json!([v, a, b]));
        }
        ev["sets"] = json!(sets);
        let defined: Vec<usize> = (0..n).collect(); // always defined: the original domain
        ev["vw"] = json!(defined.iter().map(|v| { let w = p.var_weight(VarLabel::new_usize(*v)); json!([num(w.0 .0), num(w.1 .0)]) }).collect::<Vec<_>>());
        let lits: Vec<(usize, bool)> = (0..rng.below(6)).map(|_| (rng.below(n), rng.coin())).collect();
        ev["lits"] = json!(lits.iter().map(|(v, b)| if *b { *v as i64 + 1 } else { -(*v as i64 + 1) }).collect::<Vec<_>>());
        let ls: Vec<Literal> = lits.iter().map(|(v, b)| Literal::new(VarLabel::new_usize(*v), *b)).collect();
        ev["aw"] = num(p.assignment_weight(&ls).0);
        ev["one"] = num(p.one.0);
        ev["zero"] = num(p.zero.0);
        ev
    });
    match r {
        Ok(x) => {
            for (k, v) in x.as_object().unwrap() {
                ev[k.as_str()] = v.clone();
            }
        }
        Err(m) => ev["panic"] = json!(m),
    }
    out.emit(ev);
}

/// Cnf::from_string: "(-1 || 3 || 2) && (1)" - 0-based labels, the sign carries the polarity. As coded a literal is negative when the
/// parsed integer is <= 0, so "0" and "-0" both read as the NEGATIVE literal of label 0 and its positive literal has no spelling
/// (named deviation `ZeroIsNegative` in TraceExtras.tla).
fn record_cnf_text(rng: &mut Rng, out: &mut Out, u: usize) {
    let nc = rng.range(1, 4);
    let cls: Vec<Vec<i64>> = (0..nc)
        .map(|_| (0..rng.range(1, 3)).map(|_| { let v = rng.below(u) as i64; if rng.coin() { v } else { -v } }).collect())
        .collect();
    let text = cls.iter().map(|c| format!("({})", c.iter().map(|x| x.to_string()).collect::<Vec<_>>().join(" || "))).collect::<Vec<_>>().join(" && ");
    let mut ev = json!({"ev": "cnf_text", "in": cls, "text": text});
    match guarded(|| Cnf::from_string(&text)) {
        Ok(c) => {
            ev["parsed"] = json!(c.clauses().iter().map(|cl| cl.iter().map(|l| vec![l.label().value() as i64, l.polarity() as i64]).collect::<Vec<_>>()).collect::<Vec<_>>());
            ev["nv"] = json!(c.num_vars());
        }
        Err(m) => ev["panic"] = json!(m),
    }
    out.emit(ev);
}

pub fn record(args: &Args) {
    let seed = args.num("seed", 1);
    let segments = args.num("segments", 40) as usize;
    let len = args.num("len", 12) as usize;
    let u = args.num("nmax", 6) as usize;
    let mut out = Out::new(&args.str("out", "-"));
    let mut rng = Rng::new(seed ^ 0xE87A);
    out.emit(json!({"ev": "init", "kind": "extras", "nmax": u, "seed": seed}));
    for _ in 0..segments {
        record_hypergraph(&mut rng, &mut out, u, len);
        for _ in 0..3 {
            record_btree(&mut rng, &mut out, 5);
        }
        record_order_queries(&mut rng, &mut out, u);
        record_wmc_params(&mut rng, &mut out, u);
        record_cnf_text(&mut rng, &mut out, u);
    }
    out.flush();
}
