//! Recorders for the value-level parts of the library: CNF utilities and the residual hasher (C15),
//! orders / dtrees / vtrees (C14), semiring arithmetic (C13). Inputs are generated here, outputs of
//! the real code are logged raw; spec/TraceCnf.tla, TraceOrders.tla, TraceSemiring.tla judge them.
use crate::bdd_rec::{gen_weights, WeightSpec};
use crate::sat_rec::{mk_cnf, rand_cnf, stored_json};
use crate::sdd_rec::{rand_vtree, vtree_json};
use crate::util::*;
use rsdd::constants::primes;
use rsdd::repr::{Cnf, DTree, Literal, PartialModel, VTree, VTreeManager, VarLabel, VarOrder, VarSet, WmcParams};
use rsdd::util::semirings::{
    BBSemiring, BooleanSemiring, Complex, ExpectedUtility, FiniteField, JoinSemilattice, MeetSemilattice,
    Polynomial, RationalSemiring, RealSemiring, Semiring, MAX_COEFFS,
};
use serde_json::{json, Value};
use std::collections::HashMap;

fn lit_i(l: &Literal) -> i64 {
    if l.polarity() { l.label().value() as i64 + 1 } else { -(l.label().value() as i64 + 1) }
}
fn raw_json(c: &[Vec<(usize, bool)>]) -> Value {
    json!(c
        .iter()
        .map(|cl| cl.iter().map(|(v, p)| if *p { *v as i64 + 1 } else { -(*v as i64 + 1) }).collect::<Vec<_>>())
        .collect::<Vec<_>>())
}
fn pm_json(m: &PartialModel, nv: usize) -> Value {
    json!((0..nv)
        .map(|v| match m.get(VarLabel::new_usize(v)) {
            None => -1,
            Some(false) => 0,
            Some(true) => 1,
        })
        .collect::<Vec<i32>>())
}
fn emit_guarded(out: &mut Out, mut ev: Value, f: impl FnOnce(&mut Value)) {
    let mut tmp = ev.clone();
    match guarded(|| f(&mut tmp)) {
        Ok(()) => out.emit(tmp),
        Err(m) => {
            ev["panic"] = json!(m);
            out.emit(ev)
        }
    }
}

// =================================================================== C15

pub fn record_cnf(args: &Args) {
    let seed = args.num("seed", 1);
    let rounds = args.num("segments", 60) as usize;
    let nmax = args.num("nmax", 5) as usize;
    let mut out = Out::new(&args.str("out", "-"));
    let mut rng = Rng::new(seed ^ 0xc15);
    out.emit(json!({"ev": "init", "kind": "cnf", "nmax": nmax, "seed": seed}));
    for round in 0..rounds {
        // ---- construction (including the empty formula, empty clauses, duplicates, tautologies)
        let mut c = rand_cnf(&mut rng, nmax, 7, 25);
        let mut selectors: Vec<usize> = vec![];
        if round % 5 == 1 && nmax >= 6 {
            // "regrouping" family: the same literals grouped into clauses in two different ways, each grouping
            // guarded by its own selector variable: assignments of the selectors leave residuals with equal
            // literal multisets but different clause structure (a hash that forgets the grouping collides)
            let k = if nmax >= 8 { rng.range(2, 3) } else { 2 }; // block size; uses 2k+2 <= nmax variables
            let base: Vec<(usize, bool)> = (0..2 * k).map(|v| (v, rng.coin())).collect();
            let (s1, s2) = (2 * k, 2 * k + 1);
            selectors = vec![s1, s2];
            let p = rng.perm(2 * k);
            c = vec![];
            for blk in 0..2 {
                let mut cl: Vec<(usize, bool)> = (0..k).map(|i| base[blk * k + i]).collect();
                cl.push((s1, true));
                c.push(cl);
                let mut cl: Vec<(usize, bool)> = (0..k).map(|i| base[p[blk * k + i]]).collect();
                cl.push((s2, true));
                c.push(cl);
            }
        }
        if round % 17 == 0 {
            c = vec![];
            selectors.clear();
        }
        if round % 19 == 0 {
            c.push(vec![]);
        }
        let cnf = match guarded(|| mk_cnf(&c)) {
            Ok(x) => x,
            Err(m) => {
                out.emit(json!({"ev": "cnf_new", "in": raw_json(&c), "panic": m}));
                continue;
            }
        };
        let nv = cnf.num_vars();
        let mut ev_new = json!({"ev": "cnf_new", "in": raw_json(&c), "out": stored_json(&cnf), "nv": nv});
        // the other public constructor: the same clause list written as DIMACS text (needs at least one variable and one clause, no
        // empty clause) must give the same clause sets
        if nv > 0 && !c.is_empty() && c.iter().all(|cl| !cl.is_empty()) {
            let mut text = format!("p cnf {} {}\n", nv, c.len());
            for cl in &c {
                for (v, p) in cl {
                    text.push_str(&format!("{} ", if *p { *v as i64 + 1 } else { -(*v as i64 + 1) }));
                }
                text.push_str("0\n");
            }
            match guarded(|| Cnf::from_dimacs(&text)) {
                Ok(c2) => ev_new["via_dimacs"] = stored_json(&c2),
                Err(m) => ev_new["via_dimacs_panic"] = json!(m),
            }
        }
        out.emit(ev_new);
        // ---- eval on every total assignment (small) / a sample
        for _ in 0..4 {
            let asg = rng.below(1 << nv.max(1));
            let inst: Vec<bool> = (0..nv).map(|i| (asg >> i) & 1 == 1).collect();
            emit_guarded(&mut out, json!({"ev": "cnf_eval", "cnf": stored_json(&cnf), "asg": asg}), |e| {
                e["val"] = json!(cnf.eval(&inst))
            });
        }
        // ---- satisfaction under a partial model
        for _ in 0..3 {
            let pm: Vec<Option<bool>> = (0..nv).map(|_| match rng.below(3) { 0 => None, 1 => Some(false), _ => Some(true) }).collect();
            let m = PartialModel::from_assignments(&pm);
            emit_guarded(&mut out, json!({"ev": "cnf_satp", "cnf": stored_json(&cnf), "pm": pm_json(&m, nv)}), |e| {
                e["val"] = json!(cnf.is_sat_partial(&m))
            });
        }
        // ---- conditioning
        if nv > 0 {
            for _ in 0..2 {
                let (v, p) = (rng.below(nv), rng.coin());
                let lit = if p { v as i64 + 1 } else { -(v as i64 + 1) };
                emit_guarded(&mut out, json!({"ev": "cnf_cond", "cnf": stored_json(&cnf), "lit": lit}), |e| {
                    let r = cnf.condition(Literal::new(VarLabel::new_usize(v), p));
                    e["out"] = stored_json(&r);
                    e["nv"] = json!(r.num_vars());
                });
            }
        }
        // ---- brute-force weighted count in a random semiring
        {
            let kind = *rng.pick(&["real", "bool", "ff", "complex", "eu", "rat"]);
            let normalised = rng.coin();
            let ws = gen_weights(&mut rng, kind, nv, normalised);
            // membership of variables and the primal ("interaction") graph
            {
                let mut ev = json!({"ev": "cnf_misc", "cnf": stored_json(&cnf), "nv": nv});
                let r = guarded(|| {
                    let inn: Vec<bool> = (0..nv + 2).map(|v| cnf.var_in_cnf(VarLabel::new_usize(v))).collect();
                    let g = cnf.interaction_graph();
                    let mut edges: Vec<Vec<usize>> = g
                        .edge_indices()
                        .map(|e| {
                            let (a, b) = g.edge_endpoints(e).unwrap();
                            let (x, y) = (g[a].value_usize(), g[b].value_usize());
                            vec![x.min(y), x.max(y)]
                        })
                        .collect();
                    edges.sort();
                    (inn, g.node_count(), edges)
                });
                match r {
                    Ok((inn, nn, edges)) => {
                        ev["in"] = json!(inn);
                        ev["nodes"] = json!(nn);
                        ev["edges"] = json!(edges);
                    }
                    Err(m) => ev["panic"] = json!(m),
                }
                out.emit(ev);
            }
            let mut ev = json!({"ev": "cnf_wmc", "cnf": stored_json(&cnf), "nv": nv});
            ws.log(&mut ev);
            emit_guarded(&mut out, ev, |e| cnf_count(&cnf, &ws, nv, e));
        }
        // ---- the incremental residual hasher across a push / decide / pop history
        if nv > 0 && cnf.clauses().iter().all(|c| !c.is_empty()) {
            let bulk = if rng.chance(1, 4) { *rng.pick(&[27usize, 282, 514, 950, 3271]) - rng.below(3) } else { 0 };
            // a bulk-padded hasher gets a CNF of its own: two clauses over pairwise different variables (falsifying one literal changes
            // exactly one literal occurrence of the residual)
            let (cnf, nv) = if bulk > 0 {
                let n = nmax.max(4).min(8);
                let vars = rng.perm(n);
                let k = rng.range(2, n - 2);
                let c2 = vec![vars[..k].iter().map(|v| (*v, rng.coin())).collect::<Vec<_>>(), vars[k..].iter().map(|v| (*v, rng.coin())).collect::<Vec<_>>()];
                let c = mk_cnf(&c2);
                let n2 = c.num_vars();
                (c, n2)
            } else {
                (cnf.clone(), nv)
            };
            out.emit(json!({"ev": "h_new", "cnf": stored_json(&cnf), "nv": nv}));
            // one hasher in four belongs to a BULK-padded copy of the CNF: N clauses (z | f) over two fresh variables come first and z is
            // decided true at once (they are satisfied for ever and drop out of every residual), so that the recorded clauses are literal
            // occurrences number 2N + 1 and up; N puts occurrence 55, 565, 1029, 1901 or 6543 (the first prime beyond 2^8, 2^12, 2^13,
            // 2^14, 2^16) on one of the first recorded literals. The record shows the recorded clauses only.
            let big;
            let mut h = if bulk > 0 {
                let lit = |l: usize, p: bool| Literal::new(VarLabel::new_usize(l), p);
                let mut cl: Vec<Vec<Literal>> = (0..bulk).map(|_| vec![lit(nv, true), lit(nv + 1, true)]).collect();
                cl.extend(cnf.clauses().iter().cloned());
                big = Cnf::new(&cl);
                let mut h = big.hasher().clone();
                h.decide(lit(nv, true));
                h
            } else {
                cnf.hasher().clone()
            };
            let nol2 = bulk > 0;
            let mut m = PartialModel::new(nv + 2);
            if bulk > 0 {
                m.set(VarLabel::new_usize(nv), true);
            }
            let mut saved: Vec<PartialModel> = vec![];
            let mut bursted = false;
            if bulk > 0 {
                // first the neighbouring states that falsify ONE literal occurrence each of the first clauses (their residuals differ in
                // exactly the occurrences that sit on the boundary)
                let occ: Vec<Literal> = cnf.clauses().iter().take(3).flatten().cloned().collect();
                for l in occ.iter().take(7) {
                    let nl = Literal::new(l.label(), !l.polarity());
                    h.push();
                    out.emit(json!({"ev": "h_push"}));
                    h.decide(nl);
                    let mut m2 = m.clone();
                    m2.set(nl.label(), nl.polarity());
                    out.emit(json!({"ev": "h_decide", "lit": lit_i(&nl)}));
                    let mut hev = json!({"ev": "h_hash", "pm": pm_json(&m2, nv), "nol2": true});
                    match guarded(|| format!("{:?}", h.hash(&m2))) {
                        Ok(sv) => {
                            let nums: Vec<u128> = sv.split(|c: char| !c.is_ascii_digit()).filter(|t| !t.is_empty()).map(|t| t.parse().unwrap()).collect();
                            hev["h1"] = json!(limbs(nums[0]));
                            hev["h2"] = json!(limbs(nums[1]));
                        }
                        Err(msg) => hev["panic"] = json!(msg),
                    }
                    out.emit(hev);
                    h.pop();
                    out.emit(json!({"ev": "h_pop"}));
                }
            }
            for _ in 0..14 {
                match rng.below(4) {
                    0 => {
                        h.push();
                        saved.push(m.clone());
                        out.emit(json!({"ev": "h_push"}));
                    }
                    1 if !saved.is_empty() => {
                        h.pop();
                        m = saved.pop().unwrap();
                        out.emit(json!({"ev": "h_pop"}));
                    }
                    _ => {
                        let unset: Vec<usize> = (0..nv).filter(|v| !m.is_set(VarLabel::new_usize(*v))).collect();
                        if unset.is_empty() {
                            continue;
                        }
                        let (v, p) = (*rng.pick(&unset), rng.coin());
                        let l = Literal::new(VarLabel::new_usize(v), p);
                        h.decide(l);
                        m.set(l.label(), p);
                        out.emit(json!({"ev": "h_decide", "lit": lit_i(&l)}));
                    }
                }
                // a long fuse: once per hasher, 2^8 - 1, 2^16 - 1 or 2^16 rounds of push / decide / pop that come back to this very state
                // (a level left that many times: a per-level generation counter that is too narrow wraps around)
                if !bursted && rng.chance(1, 6) {
                    let unset: Vec<usize> = (0..nv).filter(|v| !m.is_set(VarLabel::new_usize(*v))).collect();
                    if !unset.is_empty() {
                        bursted = true;
                        let n = *rng.pick(&[255usize, 256, 65535, 65536]);
                        let (v, p) = (*rng.pick(&unset), rng.coin());
                        let l = Literal::new(VarLabel::new_usize(v), p);
                        // one round with another literal first (its clauses are satisfied at this level and then left behind), then
                        // n rounds that never touch those clauses
                        let others: Vec<usize> = unset.iter().cloned().filter(|x| *x != v).collect();
                        let y = if others.is_empty() { None } else { Some(Literal::new(VarLabel::new_usize(*rng.pick(&others)), rng.coin())) };
                        let r = guarded(|| {
                            if let Some(y) = y {
                                h.push();
                                h.decide(y);
                                h.pop();
                            }
                            for _ in 0..n {
                                h.push();
                                h.decide(l);
                                h.pop();
                            }
                        });
                        let mut ev = json!({"ev": "h_burst", "n": n, "lit": lit_i(&l), "first": y.map(|y| lit_i(&y)).unwrap_or(0)});
                        if let Err(msg) = r {
                            ev["panic"] = json!(msg);
                        }
                        out.emit(ev);
                    }
                }
                let mut hev = json!({"ev": "h_hash", "pm": pm_json(&m, nv)});
                if nol2 {
                    hev["nol2"] = json!(true);
                }
                emit_guarded(&mut out, hev, |e| {
                    let hv = h.hash(&m);
                    // HashedCNF is opaque: its Debug form is "HashedCNF { v: [a, b] }"
                    let s = format!("{:?}", hv);
                    let nums: Vec<u128> = s
                        .split(|c: char| !c.is_ascii_digit())
                        .filter(|t| !t.is_empty())
                        .map(|t| t.parse().unwrap())
                        .collect();
                    e["h1"] = json!(limbs(nums[0]));
                    e["h2"] = json!(limbs(nums[1]));
                });
            }
        }
        // ---- regrouping family: every assignment of the selector variables, from a fresh hasher each
        if !selectors.is_empty() && cnf.clauses().iter().all(|c| !c.is_empty()) {
            out.emit(json!({"ev": "h_new", "cnf": stored_json(&cnf), "nv": nv}));
            for bits in 0..(1usize << selectors.len()) {
                let mut h = cnf.hasher().clone();
                let mut m = PartialModel::new(nv);
                for (i, v) in selectors.iter().enumerate() {
                    let l = Literal::new(VarLabel::new_usize(*v), (bits >> i) & 1 == 1);
                    h.decide(l);
                    m.set(l.label(), l.polarity());
                }
                emit_guarded(&mut out, json!({"ev": "h_hash", "pm": pm_json(&m, nv)}), |e| {
                    let s = format!("{:?}", h.hash(&m));
                    let nums: Vec<u128> = s.split(|c: char| !c.is_ascii_digit()).filter(|t| !t.is_empty()).map(|t| t.parse().unwrap()).collect();
                    e["h1"] = json!(limbs(nums[0]));
                    e["h2"] = json!(limbs(nums[1]));
                });
            }
        }
        // ---- partial models, literals, variable sets
        record_bookkeeping(&mut rng, &mut out, nmax.max(3));
    }
    out.flush();
}

fn params<T: Semiring>(ws: &WeightSpec, f: impl Fn(&[i64]) -> T) -> WmcParams<T> {
    WmcParams::new(HashMap::from_iter(
        ws.w.iter().enumerate().map(|(i, (l, h))| (VarLabel::new_usize(i), (f(l), f(h)))),
    ))
}


fn cnf_count(cnf: &Cnf, ws: &WeightSpec, nv: usize, ev: &mut Value) {
    let d = 8f64.powi(ws.wexp as i32);
    let total = 8f64.powi((nv as u32 * ws.wexp) as i32);
    match ws.kind {
        "real" => ev["val"] = json!([num(cnf.wmc(&params(ws, |c| RealSemiring(c[0] as f64 / d))).0 * total)]),
        "bool" => ev["val"] = json!([cnf.wmc(&params(ws, |c| BooleanSemiring(c[0] != 0))).0 as u8]),
        "rat" => {
            let nat = |c: &[i64]| (0..c[0]).fold(RationalSemiring::zero(), |r, _| r + RationalSemiring::one());
            let s = format!("{}", cnf.wmc(&params(ws, nat)));
            let mut it = s.split('/');
            ev["val"] = json!([it.next().unwrap().parse::<i64>().unwrap()]);
            ev["den"] = json!(it.next().unwrap().parse::<i64>().unwrap());
        }
        "ff" => {
            macro_rules! ff {
                ($P:literal) => {
                    ev["val"] = json!([cnf.wmc(&params(ws, |c| FiniteField::<$P>::new(c[0] as u128))).value() as u64])
                };
            }
            match ws.p {
                7 => ff!(7),
                13 => ff!(13),
                251 => ff!(251),
                _ => ff!(32749),
            }
        }
        "complex" => {
            let v = cnf.wmc(&params(ws, |c| Complex { re: c[0] as f64 / d, im: c[1] as f64 / d }));
            ev["val"] = json!([num(v.re * total), num(v.im * total)]);
        }
        _ => {
            let v = cnf.wmc(&params(ws, |c| ExpectedUtility(c[0] as f64 / d, c[1] as f64 / d)));
            ev["val"] = json!([num(v.0 * total), num(v.1 * total)]);
        }
    }
}

fn record_bookkeeping(rng: &mut Rng, out: &mut Out, n: usize) {
    // partial model: two models A (under test) and B (for difference)
    let mk = |rng: &mut Rng| -> Vec<Option<bool>> {
        (0..n).map(|_| match rng.below(3) { 0 => None, 1 => Some(false), _ => Some(true) }).collect()
    };
    let (a0, b0) = (mk(rng), mk(rng));
    let mut a = PartialModel::from_assignments(&a0);
    let b = PartialModel::from_assignments(&b0);
    out.emit(json!({"ev": "pm_new", "a": pm_json(&a, n), "b": pm_json(&b, n),
                    "a_in": a0.iter().map(|x| x.map(|v| v as i32).unwrap_or(-1)).collect::<Vec<_>>(),
                    "b_in": b0.iter().map(|x| x.map(|v| v as i32).unwrap_or(-1)).collect::<Vec<_>>()}));
    for _ in 0..5 {
        let (v, p) = (rng.below(n), rng.coin());
        let l = Literal::new(VarLabel::new_usize(v), p);
        match rng.below(4) {
            0 => {
                a.set(l.label(), p);
                out.emit(json!({"ev": "pm_set", "v": v, "b": p, "a": pm_json(&a, n)}));
            }
            1 => {
                a.unset(l.label());
                out.emit(json!({"ev": "pm_unset", "v": v, "a": pm_json(&a, n)}));
            }
            2 => out.emit(json!({"ev": "pm_q", "lit": lit_i(&l), "get": a.get(l.label()).map(|x| x as i32).unwrap_or(-1),
                                 "implied": a.lit_implied(l), "negimplied": a.lit_neg_implied(l), "isset": a.is_set(l.label())})),
            _ => {
                let mut it: Vec<i64> = a.assignment_iter().map(|l| lit_i(&l)).collect();
                it.sort();
                let mut df: Vec<i64> = a.difference(&b).map(|l| lit_i(&l)).collect();
                df.sort();
                out.emit(json!({"ev": "pm_iter", "lits": it, "diff": df}));
            }
        }
    }
    // from_litvec
    let lits: Vec<(usize, bool)> = (0..rng.below(n + 1)).map(|_| (rng.below(n), rng.coin())).collect();
    let lv: Vec<Literal> = lits.iter().map(|(v, p)| Literal::new(VarLabel::new_usize(*v), *p)).collect();
    let m = PartialModel::from_litvec(&lv, n);
    out.emit(json!({"ev": "pm_litvec", "lits": lv.iter().map(lit_i).collect::<Vec<_>>(), "n": n, "m": pm_json(&m, n)}));
    // literal packing: small and large labels
    for lbl in [0u64, 1, rng.below(1000) as u64, (1u64 << 31) - 1, (1u64 << 40) + rng.below(99) as u64, (1u64 << 62) + 5] {
        let p = rng.coin();
        let l = Literal::new(VarLabel::new(lbl), p);
        let o = Literal::new(VarLabel::new(lbl), rng.coin());
        out.emit(json!({"ev": "lit", "label": limbs(lbl as u128), "pol": p,
                        "rlabel": limbs(l.label().value() as u128), "rpol": l.polarity(),
                        "nlabel": limbs(l.negated().label().value() as u128), "npol": l.negated().polarity(),
                        "opol": o.polarity(), "imp_t": l.implies_true(&o), "imp_f": l.implies_false(&o)}));
    }
    // variable sets
    let (mut s, mut t) = (VarSet::new(), VarSet::new());
    let (mut ms, mut mt): (Vec<usize>, Vec<usize>) = (vec![], vec![]);
    for _ in 0..6 {
        let v = rng.below(2 * n);
        match rng.below(3) {
            0 => {
                s.insert(VarLabel::new_usize(v));
                ms.push(v);
            }
            1 => {
                t.insert(VarLabel::new_usize(v));
                mt.push(v);
            }
            _ => {
                s.remove(VarLabel::new_usize(v));
                ms.push(1000 + v); // 1000+v encodes "remove v"
            }
        }
    }
    let set_of = |x: &VarSet| x.iter().map(|l| l.value_usize()).collect::<Vec<_>>();
    let q = rng.below(2 * n);
    let mut uw = s.clone();
    uw.union_with(&t); // in-place union
    out.emit(json!({"ev": "varset", "sops": ms, "tops": mt, "s": set_of(&s), "t": set_of(&t),
                    "union": set_of(&s.union(&t)), "minus": set_of(&s.minus(&t)), "inter": set_of(&s.intersect_varset(&t)),
                    "diff": s.difference(&t).map(|l| l.value_usize()).collect::<Vec<_>>(),
                    "union_with": set_of(&uw), "intersect": s.intersect(&t).collect::<Vec<usize>>(),
                    "q": q, "contains": s.contains(VarLabel::new_usize(q)), "len": s.len(), "empty": s.is_empty()}));
    // equality and hashing of variable sets / partial models are equality of their CONTENTS: objects with the same contents reached
    // through different constructors (declared sizes on both sides of the 32- and 64-label block boundaries) and different
    // histories (a high label inserted and removed again) must compare equal and hash alike
    {
        use std::hash::{Hash, Hasher};
        let targets: Vec<Vec<usize>> = (0..2).map(|_| (0..rng.below(4)).map(|_| rng.below(2 * n + 2)).collect()).collect();
        let mut sets: Vec<VarSet> = vec![];
        let mut how: Vec<Value> = vec![];
        for i in 0..6 {
            let ctor = rng.below(5);
            let mut x = match ctor {
                0 => VarSet::new(),
                1 => VarSet::new_with_num_vars(0),
                2 => VarSet::new_with_num_vars(10),
                3 => VarSet::new_with_num_vars(40),
                _ => VarSet::new_with_num_vars(70),
            };
            let mut ops: Vec<i64> = vec![];
            for _ in 0..rng.below(4) {
                let v = *rng.pick(&[0usize, 3, 31, 32, 40, 63, 64, 65, 100]);
                x.insert(VarLabel::new_usize(v));
                ops.push(v as i64);
            }
            // remove everything again, then steer to the target contents
            for v in x.iter().collect::<Vec<_>>() {
                x.remove(v);
            }
            let t = &targets[i % 2];
            if rng.chance(1, 4) {
                // reach the target as a derived set (union / minus results are rebuilt by the library)
                let mut y = VarSet::new_with_num_vars(*rng.pick(&[0usize, 40, 70]));
                for v in t {
                    y.insert(VarLabel::new_usize(*v));
                }
                x = match rng.below(3) { 0 => x.union(&y), 1 => y.minus(&x), _ => y.intersect_varset(&y) };
                ops.push(-1);
            } else {
                for v in t {
                    x.insert(VarLabel::new_usize(*v));
                }
            }
            how.push(json!({"ctor": ctor, "ops": ops}));
            sets.push(x);
        }
        let hash_of = |x: &VarSet| {
            let mut h = std::collections::hash_map::DefaultHasher::new();
            x.hash(&mut h);
            h.finish()
        };
        let distinct = sets.iter().collect::<std::collections::HashSet<&VarSet>>().len();
        out.emit(json!({"ev": "vs_eq", "how": how,
                        "s": sets.iter().map(|x| x.iter().map(|l| l.value_usize()).collect::<Vec<_>>()).collect::<Vec<_>>(),
                        "eq": sets.iter().map(|a| sets.iter().map(|b| a == b).collect::<Vec<_>>()).collect::<Vec<_>>(),
                        "heq": sets.iter().map(|a| sets.iter().map(|b| hash_of(a) == hash_of(b)).collect::<Vec<_>>()).collect::<Vec<_>>(),
                        "distinct": distinct}));
        // partial models: same assignments through different declared sizes and set / unset histories
        let tgt: Vec<Vec<(usize, bool)>> = (0..2).map(|_| (0..rng.below(3)).map(|_| (rng.below(n), rng.coin())).collect()).collect();
        let mut pms: Vec<PartialModel> = vec![];
        for i in 0..5 {
            let mut m = PartialModel::new(*rng.pick(&[n, n + 1, 33, 40, 70]));
            for _ in 0..rng.below(3) {
                let v = *rng.pick(&[0usize, 31, 32, 40, 64, 69]);
                m.set(VarLabel::new_usize(v), rng.coin());
                m.unset(VarLabel::new_usize(v));
            }
            for v in 0..n {
                m.unset(VarLabel::new_usize(v));
            }
            let mut last: std::collections::BTreeMap<usize, bool> = Default::default();
            for (v, b) in &tgt[i % 2] {
                last.insert(*v, *b);
            }
            for (v, b) in &last {
                m.set(VarLabel::new_usize(*v), *b);
            }
            pms.push(m);
        }
        out.emit(json!({"ev": "pm_eq", "n": n,
                        "m": pms.iter().map(|m| pm_json(m, n)).collect::<Vec<_>>(),
                        "eq": pms.iter().map(|a| pms.iter().map(|b| a == b).collect::<Vec<_>>()).collect::<Vec<_>>()}));
        // from_total_model: every variable assigned as listed
        let bools: Vec<bool> = (0..n).map(|_| rng.coin()).collect();
        let m = PartialModel::from_total_model(&bools);
        out.emit(json!({"ev": "pm_total", "in": bools, "m": pm_json(&m, n)}));
    }
}

// =================================================================== C14

fn dtree_json(d: &DTree) -> Value {
    let vs = |s: &VarSet| s.iter().map(|l| l.value_usize()).collect::<Vec<_>>();
    match d {
        DTree::Node { l, r, cutset, vars } => json!(["n", dtree_json(l), dtree_json(r), vs(cutset), vs(vars)]),
        DTree::Leaf { clause, cutset, vars } => json!(["l", clause.iter().map(lit_i).collect::<Vec<_>>(), vs(cutset), vs(vars)]),
    }
}

fn order_json(o: &VarOrder, ev: &mut Value) {
    let n = o.num_vars();
    ev["n"] = json!(n);
    ev["p2v"] = json!((0..n).map(|i| o.var_at_level(i).value_usize()).collect::<Vec<_>>());
    ev["v2p"] = json!((0..n).map(|v| o.get(VarLabel::new_usize(v))).collect::<Vec<_>>());
}

pub fn record_orders(args: &Args) {
    let seed = args.num("seed", 1);
    let rounds = args.num("segments", 60) as usize;
    let nmax = args.num("nmax", 6) as usize;
    let mut out = Out::new(&args.str("out", "-"));
    let mut rng = Rng::new(seed ^ 0xc14);
    out.emit(json!({"ev": "init", "kind": "orders", "nmax": nmax + 3, "seed": seed}));
    for round in 0..rounds {
        // CNFs with unit / duplicate clauses, disconnected components and unused indices, no empty clause
        let mut c = rand_cnf(&mut rng, nmax, 7, 40);
        c.retain(|cl| !cl.is_empty());
        if round % 3 == 0 {
            // leave gaps in the variable indices: shift some labels up
            for cl in c.iter_mut() {
                for l in cl.iter_mut() {
                    if l.0 >= 2 {
                        l.0 += 2;
                    }
                }
            }
        }
        if c.is_empty() {
            c.push(vec![(rng.below(nmax), rng.coin())]);
        }
        if round % 5 == 4 {
            // WIDE: the same shape over labels scattered up to 130, with pairs of labels congruent modulo 64 (a clause and its copy
            // shifted by 64 have the same "shape modulo 64"): orders over 100+ variables, dtrees whose leaves must still be exactly the clauses
            let shift: Vec<usize> = (0..nmax + 3).map(|v| if v % 2 == 0 { v } else { v + 64 * (1 + v % 2) - 1 + rng.below(2) }).collect();
            let mut wide: Vec<Vec<(usize, bool)>> = c.iter().map(|cl| cl.iter().map(|(v, p)| (shift[*v], *p)).collect()).collect();
            let copy: Vec<Vec<(usize, bool)>> = c.iter().take(2).map(|cl| cl.iter().map(|(v, p)| (*v + 64, *p)).collect()).collect();
            wide.extend(copy);
            c = wide;
        }
        let cnf = mk_cnf(&c);
        let nv = cnf.num_vars();
        for kind in ["linear", "minfill", "force"] {
            emit_guarded(&mut out, json!({"ev": "order", "kind": kind, "cnf": stored_json(&cnf), "nv": nv}), |e| {
                let o = match kind {
                    "linear" => cnf.linear_order(),
                    "minfill" => cnf.min_fill_order(),
                    _ => cnf.force_order(),
                };
                order_json(&o, e);
            });
        }
        // run-time extension of a non-linear order
        {
            let base = rng.perm(nv);
            let k = rng.range(1, 3);
            emit_guarded(&mut out, json!({"ev": "order", "kind": "new_last", "base": base, "k": k, "nv": nv + k, "cnf": []}), |e| {
                let mut o = VarOrder::new(&base.iter().map(|v| VarLabel::new_usize(*v)).collect::<Vec<_>>());
                let labels: Vec<usize> = (0..k).map(|_| o.new_last().value_usize()).collect();
                e["labels"] = json!(labels);
                order_json(&o, e);
            });
        }
        // dtree for a random elimination order, and the vtree derived from it
        let elim = rng.perm(nv);
        let mut dt = None;
        emit_guarded(&mut out, json!({"ev": "dtree", "cnf": stored_json(&cnf), "nv": nv, "elim": elim}), |e| {
            let d = DTree::from_cnf(&cnf, &VarOrder::new(&elim.iter().map(|v| VarLabel::new_usize(*v)).collect::<Vec<_>>()));
            e["tree"] = dtree_json(&d);
            e["cutwidth"] = json!(d.cutwidth());
            dt = Some(d);
        });
        if let Some(d) = dt {
            emit_guarded(&mut out, json!({"ev": "vtree_dt", "cnf": stored_json(&cnf), "dtree": dtree_json(&d)}), |e| {
                match VTree::from_dtree(&d) {
                    Some(t) => e["tree"] = vtree_json(&t),
                    None => e["none"] = json!(true),
                }
            });
        }
        // vtree manager tables against the tree shape
        {
            // one event in twelve: a DEEP vtree (66..90 leaves on a right- or left-linear spine, possibly ending in a small random
            // block), where node depths exceed the width of a machine word; the tables are then taken for a sample of the leaves
            // (the deepest ones included) closed under lca
            let deep = rng.chance(1, 12);
            // (a third of the deep ones have 130 .. 250 leaves: in-order indices beyond 255)
            let n = if deep { if rng.chance(1, 3) { rng.range(130, 250) } else { rng.range(66, 90) } } else { rng.range(1, 6) };
            let mut labels = rng.perm(n + 2);
            labels.truncate(n); // labels need not be dense
            let t = if deep {
                let vl: Vec<VarLabel> = labels.iter().map(|v| VarLabel::new_usize(*v)).collect();
                let k = rng.below(5);
                let block = rand_vtree(&mut rng, &labels[n - 1 - k..]);
                let mut t = block;
                let left = rng.coin();
                for v in vl[..n - 1 - k].iter().rev() {
                    let leaf = VTree::new_leaf(*v);
                    t = if left { VTree::new_node(Box::new(t), Box::new(leaf)) } else { VTree::new_node(Box::new(leaf), Box::new(t)) };
                }
                t
            } else {
                rand_vtree(&mut rng, &labels)
            };
            let sample: Vec<usize> = if deep {
                let mut s: Vec<usize> = (0..5).map(|_| labels[rng.below(n)]).collect();
                s.extend_from_slice(&labels[n - 3..]);
                s.push(labels[0]);
                s.sort();
                s.dedup();
                s
            } else {
                labels.clone()
            };
            let labels = sample;
            emit_guarded(&mut out, json!({"ev": "vtman", "tree": vtree_json(&t)}), |e| {
                let m = VTreeManager::new(t.clone());
                // indices are only constructible through var_index / lca; enumerate them by closure
                let mut idx: Vec<rsdd::repr::VTreeIndex> = labels.iter().map(|v| m.var_index(VarLabel::new_usize(*v))).collect();
                loop {
                    let mut grew = false;
                    let cur = idx.clone();
                    for a in &cur {
                        for b in &cur {
                            let c = m.lca(*a, *b);
                            if !idx.contains(&c) {
                                idx.push(c);
                                grew = true;
                            }
                        }
                    }
                    if !grew {
                        break;
                    }
                }
                idx.sort_by_key(|i| i.value());
                e["idx"] = json!(idx.iter().map(|i| i.value()).collect::<Vec<_>>());
                e["varidx"] = json!(labels.iter().map(|v| vec![*v, m.var_index(VarLabel::new_usize(*v)).value()]).collect::<Vec<_>>());
                e["lca"] = json!(idx.iter().map(|a| idx.iter().map(|b| m.lca(*a, *b).value()).collect::<Vec<_>>()).collect::<Vec<_>>());
                e["prime"] = json!(idx.iter().map(|a| idx.iter().map(|b| m.is_prime_index(*a, *b)).collect::<Vec<_>>()).collect::<Vec<_>>());
                e["primevar"] = json!(labels.iter().map(|a| labels.iter().map(|b| m.is_prime_var(VarLabel::new_usize(*a), VarLabel::new_usize(*b))).collect::<Vec<_>>()).collect::<Vec<_>>());
                e["labels"] = json!(labels);
                e["sub"] = json!(idx.iter().map(|i| vtree_json(m.vtree(*i))).collect::<Vec<_>>());
                e["numvars"] = json!(m.num_vars());
                e["root"] = vtree_json(m.vtree_root());
            });
        }
    }
    out.flush();
}

// =================================================================== C13

/// 256-bit product of two u128 as (hi, lo)
fn mul_wide(a: u128, b: u128) -> (u128, u128) {
    let (a1, a0) = (a >> 64, a & u64::MAX as u128);
    let (b1, b0) = (b >> 64, b & u64::MAX as u128);
    let p00 = a0 * b0;
    let p01 = a0 * b1;
    let p10 = a1 * b0;
    let p11 = a1 * b1;
    let mid = (p00 >> 64) + (p01 & u64::MAX as u128) + (p10 & u64::MAX as u128);
    let lo = (p00 & u64::MAX as u128) | (mid << 64);
    let hi = p11 + (p01 >> 64) + (p10 >> 64) + (mid >> 64);
    (hi, lo)
}
/// quotient of (hi, lo) by p (p < 2^127, hi < p), by long division bit by bit
fn div_wide(hi: u128, lo: u128, p: u128) -> (u128, u128) {
    let mut rem = hi;
    let mut q: u128 = 0;
    for i in (0..128).rev() {
        let bit = (lo >> i) & 1;
        let top = rem >> 127;
        rem = (rem << 1) | bit;
        q <<= 1;
        if top == 1 || rem >= p {
            rem = rem.wrapping_sub(p);
            q |= 1;
        }
    }
    (q, rem)
}

fn ff_events<const P: u128>(name: &str, rng: &mut Rng, out: &mut Out, exhaustive: bool, n_random: usize) {
    let mut pairs: Vec<(u128, u128)> = vec![];
    if exhaustive {
        for a in 0..P {
            for b in 0..P {
                pairs.push((a, b));
            }
        }
    } else {
        let edge = [0u128, 1, 2, P / 2, P / 2 + 1, P - 2, P - 1];
        for a in edge {
            for b in edge {
                pairs.push((a, b));
            }
        }
        for _ in 0..n_random {
            let r = |rng: &mut Rng| (((rng.next() as u128) << 64) | rng.next() as u128) % P;
            pairs.push((r(rng), r(rng)));
        }
        // operands of mixed magnitude: residues of every bit length (a fast path chosen by operand size, a
        // partial product that just reaches 2^64 / 2^96 / 2^128 ... only shows for particular length pairs)
        let sized = |rng: &mut Rng, bits: u32| -> u128 {
            let raw = ((rng.next() as u128) << 64) | rng.next() as u128;
            let v = if bits >= 128 { raw } else { (raw & ((1u128 << bits) - 1)) | (1u128 << (bits - 1)) };
            v % P
        };
        for _ in 0..n_random {
            let (ba, bb) = (rng.range(1, 127) as u32, rng.range(1, 127) as u32);
            pairs.push((sized(rng, ba), sized(rng, bb)));
        }
        // operands with a sparse limb structure (a limb-wise / windowed product that treats a zero limb, byte or word specially only
        // shows when a zero limb sits BELOW a non-zero one): limbs of 8 / 16 / 32 / 64 bits, each zero, one, all-ones or random
        let sparse = |rng: &mut Rng| -> u128 {
            let g = *rng.pick(&[8u32, 16, 32, 32, 64]);
            let mut v: u128 = 0;
            let mut any = false;
            for j in 0..(128 / g) {
                let limb: u128 = match rng.below(6) {
                    0 | 1 | 2 => 0,
                    3 => 1,
                    4 => (1u128 << g) - 1,
                    _ => (rng.next() as u128) & ((1u128 << g) - 1),
                };
                if limb != 0 && (limb << (g * j)) < P {
                    v |= limb << (g * j);
                    any = true;
                }
            }
            if !any {
                v = 1u128 << (g * rng.below(((128 - P.leading_zeros()) / g).max(1) as usize) as u32);
            }
            v % P
        };
        for i in 0..n_random.max(24) {
            let a = sparse(rng);
            let bits = rng.range(1, 127) as u32;
            let b = if i % 3 == 0 { sparse(rng) } else { sized(rng, bits) };
            pairs.push(if i % 2 == 0 { (a, b) } else { (b, a) });
        }
        let pbits0 = 128 - P.leading_zeros();
        for sh in [8u32, 16, 32, 64, 96] {
            if sh < pbits0 {
                for k in [1u128, 2, 5, 255] {
                    if (k << sh) < P {
                        pairs.push((3, k << sh));
                        pairs.push((k << sh, (1u128 << sh) + 5));
                    }
                }
            }
        }
        let pbits = 128 - P.leading_zeros();
        for ba in [1u32, 2, 31, 32, 33, 34, 63, 64, 65, pbits.saturating_sub(1).max(1), pbits] {
            for bb in [1u32, 32, 33, 64, 65, pbits.saturating_sub(1).max(1), pbits] {
                pairs.push((sized(rng, ba), sized(rng, bb)));
                pairs.push((sized(rng, 129 - ba.min(128)), sized(rng, ba)));
            }
        }
    }
    for (a, b) in pairs {
        let (x, y) = (FiniteField::<P>::new(a), FiniteField::<P>::new(b));
        let mut ev = json!({"ev": "ff", "prime": name, "a": limbs(a), "b": limbs(b)});
        for (op, f) in [
            ("add", (|x, y| x + y) as fn(FiniteField<P>, FiniteField<P>) -> FiniteField<P>),
            ("mul", |x, y| x * y),
            ("sub", |x, y| x - y),
        ] {
            match guarded(|| f(x, y).value()) {
                Ok(r) => ev[op] = json!(limbs(r)),
                Err(m) => ev[format!("{op}_panic")] = json!(m),
            }
        }
        // quotient certificate for the product: a*b = q*P + r (sound whatever produced q)
        let (hi, lo) = mul_wide(a, b);
        let (q, _r) = div_wide(hi, lo, P);
        ev["q"] = json!(limbs(q));
        // ring law instances on the real type: (a - b) + b = a ; (a + b) * a = a*a + b*a
        match guarded(|| (((x - y) + y).value(), ((x + y) * x).value(), (x * x + y * x).value(), FiniteField::<P>::one().value(), FiniteField::<P>::zero().value(), x.negate().value())) {
            Ok((s, l, r, one, zero, ng)) => {
                ev["subadd"] = json!(limbs(s));
                ev["dl"] = json!(limbs(l));
                ev["dr"] = json!(limbs(r));
                ev["one"] = json!(limbs(one));
                ev["zero"] = json!(limbs(zero));
                ev["negate"] = json!(limbs(ng));
            }
            Err(m) => ev["law_panic"] = json!(m),
        }
        out.emit(ev);
    }
}

fn grid(rng: &mut Rng, kind: &str) -> (Vec<i64>, u32) {
    // components as integers over 8^e: values from {0, +-1/2, 1, 2, 3} and a few others
    let vals = [0i64, 4, -4, 8, 16, 24, 1, -8, 12];
    match kind {
        "real" => (vec![*rng.pick(&vals)], 1),
        "complex" | "eu" => (vec![*rng.pick(&vals), *rng.pick(&vals)], 1),
        _ => unreachable!(),
    }
}

pub fn record_semiring(args: &Args) {
    let seed = args.num("seed", 1);
    let rounds = args.num("segments", 400) as usize;
    let thorough = args.flag("thorough");
    let mut out = Out::new(&args.str("out", "-"));
    let mut rng = Rng::new(seed ^ 0xc13);
    out.emit(json!({"ev": "init", "kind": "semiring", "seed": seed}));
    // ---- finite fields: exhaustive for tiny primes, boundary + random residues for every exported prime
    ff_events::<7>("7", &mut rng, &mut out, true, 0);
    ff_events::<13>("13", &mut rng, &mut out, true, 0);
    let nr = if thorough { 2000 } else { 150 };
    ff_events::<{ primes::U32_TINY }>("U32_TINY", &mut rng, &mut out, false, nr);
    ff_events::<{ primes::U32_SMALL }>("U32_SMALL", &mut rng, &mut out, false, nr);
    ff_events::<{ primes::U64_LARGEST }>("U64_LARGEST", &mut rng, &mut out, false, nr);
    ff_events::<{ primes::U128_LARGE_1 }>("U128_LARGE_1", &mut rng, &mut out, false, nr);
    ff_events::<{ primes::U128_LARGE_2 }>("U128_LARGE_2", &mut rng, &mut out, false, nr);
    ff_events::<{ primes::U128_LARGE_3 }>("U128_LARGE_3", &mut rng, &mut out, false, nr);
    ff_events::<{ primes::U128_LARGE_4 }>("U128_LARGE_4", &mut rng, &mut out, false, nr);
    // ---- real / complex / expected utility / boolean / rational: triples from an exactly representable grid
    for _ in 0..rounds {
        let kind = *rng.pick(&["real", "complex", "eu", "bool", "rat"]);
        let mut ev = json!({"ev": "sr3", "sr": kind});
        match kind {
            "real" => {
                let t: Vec<(Vec<i64>, u32)> = (0..3).map(|_| grid(&mut rng, kind)).collect();
                ev["x"] = json!(t.iter().map(|(c, _)| c.clone()).collect::<Vec<_>>());
                ev["e"] = json!(1);
                let v: Vec<RealSemiring> = t.iter().map(|(c, _)| RealSemiring(c[0] as f64 / 8.0)).collect();
                let r = |x: RealSemiring, k: i32| json!([num(x.0 * 8f64.powi(k))]);
                sr3_common(&mut ev, &v, r, |a, b| a - b);
                lattice(&mut ev, &v, |x, k| json!([num(x.0 * 8f64.powi(k))]));
            }
            "complex" => {
                let t: Vec<(Vec<i64>, u32)> = (0..3).map(|_| grid(&mut rng, kind)).collect();
                ev["x"] = json!(t.iter().map(|(c, _)| c.clone()).collect::<Vec<_>>());
                ev["e"] = json!(1);
                let v: Vec<Complex> = t.iter().map(|(c, _)| Complex { re: c[0] as f64 / 8.0, im: c[1] as f64 / 8.0 }).collect();
                let r = |x: Complex, k: i32| json!([num(x.re * 8f64.powi(k)), num(x.im * 8f64.powi(k))]);
                sr3_common(&mut ev, &v, r, |a, b| a - b);
            }
            "eu" => {
                let t: Vec<(Vec<i64>, u32)> = (0..3).map(|_| grid(&mut rng, kind)).collect();
                ev["x"] = json!(t.iter().map(|(c, _)| c.clone()).collect::<Vec<_>>());
                ev["e"] = json!(1);
                let v: Vec<ExpectedUtility> = t.iter().map(|(c, _)| ExpectedUtility(c[0] as f64 / 8.0, c[1] as f64 / 8.0)).collect();
                let r = |x: ExpectedUtility, k: i32| json!([num(x.0 * 8f64.powi(k)), num(x.1 * 8f64.powi(k))]);
                sr3_common(&mut ev, &v, r, |a, b| a - b);
                lattice(&mut ev, &v, |x, k| json!([num(x.0 * 8f64.powi(k)), num(x.1 * 8f64.powi(k))]));
            }
            "bool" => {
                let t: Vec<i64> = (0..3).map(|_| rng.below(2) as i64).collect();
                ev["x"] = json!(t.iter().map(|c| vec![*c]).collect::<Vec<_>>());
                ev["e"] = json!(0);
                let v: Vec<BooleanSemiring> = t.iter().map(|c| BooleanSemiring(*c == 1)).collect();
                sr3_semiring(&mut ev, &v, |x: BooleanSemiring, _k: i32| json!([x.0 as u8]));
            }
            _ => {
                let t: Vec<i64> = (0..3).map(|_| rng.below(6) as i64).collect();
                ev["x"] = json!(t.iter().map(|c| vec![*c]).collect::<Vec<_>>());
                ev["e"] = json!(0);
                let nat = |k: i64| (0..k).fold(RationalSemiring::zero(), |r, _| r + RationalSemiring::one());
                let v: Vec<RationalSemiring> = t.iter().map(|c| nat(*c)).collect();
                sr3_semiring(&mut ev, &v, |x: RationalSemiring, _k: i32| {
                    let s = format!("{}", x);
                    let mut it = s.split('/');
                    let n: i64 = it.next().unwrap().parse().unwrap();
                    let d: i64 = it.next().unwrap().parse().unwrap();
                    if d == 1 { json!([n]) } else { json!([n, d]) }
                });
            }
        }
        out.emit(ev);
    }
    // ---- large exactly representable integers (up to 2^53) in the two-component types: every partial product and every
    // result of the DEFINING formula stays below 2^53, so the f64 operations of the definition are exact; a reformulation
    // that is algebraically equal but has larger intermediates is not
    for _ in 0..(rounds / 2).max(60) {
        let kind = *rng.pick(&["complex", "eu"]);
        // bit budgets m + n <= 52: |x_i| < 2^m, |y_i| < 2^n
        let m = rng.range(1, 51);
        let n = rng.range(1, 52 - m);
        let big = |rng: &mut Rng, bits: usize| -> i64 {
            let top = 1i64 << bits;
            let v = match rng.below(5) {
                0 => top - 1,
                1 => (top >> 1) + 1,
                2 => top >> 1,
                3 => rng.below(4) as i64,
                _ => (rng.next() % top as u64) as i64,
            };
            if rng.coin() { -v } else { v }
        };
        let one_case = rng.chance(1, 4);
        let x = if one_case { (big(&mut rng, 53), big(&mut rng, 53)) } else { (big(&mut rng, m), big(&mut rng, m)) };
        let y = if one_case { (1i64, 0i64) } else { (big(&mut rng, n), big(&mut rng, n)) };
        let sg = |v: i64| json!({"s": v.signum(), "m": limbs(v.unsigned_abs() as u128)});
        let sf = |v: f64| if v.is_finite() && v.fract() == 0.0 && v.abs() <= 9007199254740992.0 { sg(v as i64) } else { json!({"s": 2, "m": [0]}) };
        let mut ev = json!({"ev": "big2", "sr": kind, "x": [sg(x.0), sg(x.1)], "y": [sg(y.0), sg(y.1)]});
        let r = if kind == "complex" {
            let (a, b) = (Complex { re: x.0 as f64, im: x.1 as f64 }, Complex { re: y.0 as f64, im: y.1 as f64 });
            guarded(|| {
                let j = |c: Complex| json!([sf(c.re), sf(c.im)]);
                json!({"mul": j(a * b), "mul_ba": j(b * a), "x_one": j(a * Complex::one()), "one_x": j(Complex::one() * a), "x_zero": j(a * Complex::zero())})
            })
        } else {
            let (a, b) = (ExpectedUtility(x.0 as f64, x.1 as f64), ExpectedUtility(y.0 as f64, y.1 as f64));
            guarded(|| {
                let j = |c: ExpectedUtility| json!([sf(c.0), sf(c.1)]);
                json!({"mul": j(a * b), "mul_ba": j(b * a), "x_one": j(a * ExpectedUtility::one()), "one_x": j(ExpectedUtility::one() * a), "x_zero": j(a * ExpectedUtility::zero())})
            })
        };
        match r {
            Ok(v) => ev["r"] = v,
            Err(m) => ev["panic"] = json!(m),
        }
        out.emit(ev);
    }
    // ---- truncated polynomials: short ones exhaustively-ish, and lengths around the truncation bound
    for i in 0..(rounds / 2).max(40) {
        let len_of = |rng: &mut Rng| if i % 3 == 0 { *rng.pick(&[0usize, 1, 2, 16, 17, 30, 31, 32]) } else { rng.below(3) };
        let mk = |rng: &mut Rng| -> (Vec<i64>, Polynomial<RealSemiring>) {
            let n = len_of(rng);
            let c: Vec<i64> = (0..n).map(|_| rng.below(3) as i64).collect();
            let mut p = Polynomial::<RealSemiring>::zero();
            for (i, x) in c.iter().enumerate() {
                p.coefficients[i] = RealSemiring(*x as f64);
            }
            p.len = n;
            (c, p)
        };
        let (ca, a) = mk(&mut rng);
        let (cb, b) = mk(&mut rng);
        let (cc, c) = mk(&mut rng);
        let pj = |p: Polynomial<RealSemiring>| json!({"len": p.len, "c": p.coefficients.iter().map(|x| num(x.0)).collect::<Vec<_>>()});
        let mut ev = json!({"ev": "poly", "a": ca, "b": cb, "c": cc, "max": MAX_COEFFS});
        match guarded(|| {
            json!({
                "add": pj(a + b), "mul": pj(a * b), "one": pj(Polynomial::<RealSemiring>::one()), "zero": pj(Polynomial::<RealSemiring>::zero()),
                "add_ba": pj(b + a), "mul_ba": pj(b * a),
                "add_assoc_l": pj((a + b) + c), "add_assoc_r": pj(a + (b + c)),
                "mul_assoc_l": pj((a * b) * c), "mul_assoc_r": pj(a * (b * c)),
                "dist_l": pj(a * (b + c)), "dist_r": pj(a * b + a * c),
                "a_one": pj(a * Polynomial::<RealSemiring>::one()), "a_zero": pj(a * Polynomial::<RealSemiring>::zero()),
                "a_plus_zero": pj(a + Polynomial::<RealSemiring>::zero()), "a": pj(a),
            })
        }) {
            Ok(v) => ev["r"] = v,
            Err(m) => ev["panic"] = json!(m),
        }
        out.emit(ev);
    }
    out.flush();
}

/// semiring operations and law instances computed by the real type (no subtraction)
fn sr3_semiring<T: Semiring + PartialEq>(ev: &mut Value, v: &[T], r: impl Fn(T, i32) -> Value) {
    let (a, b, c) = (v[0], v[1], v[2]);
    ev["add"] = r(a + b, 1);
    ev["mul"] = r(a * b, 2);
    ev["one"] = r(T::one(), 0);
    ev["zero"] = r(T::zero(), 0);
    // law instances: both sides from the real code, at the exponent of the expression
    ev["laws"] = json!({
        "add_comm": [r(a + b, 1), r(b + a, 1)],
        "add_assoc": [r((a + b) + c, 1), r(a + (b + c), 1)],
        "mul_comm": [r(a * b, 2), r(b * a, 2)],
        "mul_assoc": [r((a * b) * c, 3), r(a * (b * c), 3)],
        "add_zero": [r(a + T::zero(), 1), r(a, 1)],
        "mul_one": [r(a * T::one(), 1), r(a, 1)],
        "mul_zero": [r(a * T::zero(), 1), r(T::zero(), 1)],
        "distrib": [r(a * (b + c), 2), r(a * b + a * c, 2)],
    });
}

fn sr3_common<T: Semiring + PartialEq>(ev: &mut Value, v: &[T], r: impl Fn(T, i32) -> Value + Copy, sub: impl Fn(T, T) -> T) {
    sr3_semiring(ev, v, r);
    let (a, b) = (v[0], v[1]);
    ev["sub"] = r(sub(a, b), 1);
    ev["laws"]["sub_add"] = json!([r(sub(a, b) + b, 1), r(a, 1)]);
}

/// the ring-side twin of `choose` (trait BBRing; reached here through the EdgeboundingRing bound, as generic client code would)
fn ring_choose<T: rsdd::util::semirings::EdgeboundingRing>(a: &T, b: &T) -> T {
    rsdd::util::semirings::BBRing::choose(a, b)
}

fn lattice<T: Semiring + JoinSemilattice + MeetSemilattice + BBSemiring + rsdd::util::semirings::EdgeboundingRing + PartialEq + PartialOrd>(
    ev: &mut Value,
    v: &[T],
    r: impl Fn(T, i32) -> Value,
) {
    let (a, b, c) = (v[0], v[1], v[2]);
    ev["join"] = r(JoinSemilattice::join(&a, &b), 1);
    ev["meet"] = r(MeetSemilattice::meet(&a, &b), 1);
    ev["choose"] = r(BBSemiring::choose(&a, &b), 1);
    ev["choose_ba"] = r(BBSemiring::choose(&b, &a), 1);
    ev["rchoose"] = r(ring_choose(&a, &b), 1);
    ev["rchoose_ba"] = r(ring_choose(&b, &a), 1);
    ev["le"] = json!(a <= b);
    ev["ge"] = json!(a >= b);
    let j = |x: &T, y: &T| JoinSemilattice::join(x, y);
    let m = |x: &T, y: &T| MeetSemilattice::meet(x, y);
    ev["laws"]["join_idem"] = json!([r(j(&a, &a), 1), r(a, 1)]);
    ev["laws"]["meet_idem"] = json!([r(m(&a, &a), 1), r(a, 1)]);
    ev["laws"]["join_comm"] = json!([r(j(&a, &b), 1), r(j(&b, &a), 1)]);
    ev["laws"]["meet_comm"] = json!([r(m(&a, &b), 1), r(m(&b, &a), 1)]);
    ev["laws"]["join_assoc"] = json!([r(j(&j(&a, &b), &c), 1), r(j(&a, &j(&b, &c)), 1)]);
    ev["laws"]["meet_assoc"] = json!([r(m(&m(&a, &b), &c), 1), r(m(&a, &m(&b, &c)), 1)]);
}
