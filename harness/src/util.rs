//! Small shared helpers: deterministic RNG, ndjson output, panic capture.
use serde_json::Value;
use std::io::Write;
use std::panic::{catch_unwind, AssertUnwindSafe};

/// splitmix64: deterministic, dependency-free
#[derive(Clone)]
pub struct Rng(pub u64);

impl Rng {
    pub fn new(seed: u64) -> Rng {
        Rng(seed.wrapping_mul(0x9E3779B97F4A7C15).wrapping_add(0x1234_5678_9ABC_DEF1))
    }
    pub fn next(&mut self) -> u64 {
        self.0 = self.0.wrapping_add(0x9E3779B97F4A7C15);
        let mut z = self.0;
        z = (z ^ (z >> 30)).wrapping_mul(0xBF58476D1CE4E5B9);
        z = (z ^ (z >> 27)).wrapping_mul(0x94D049BB133111EB);
        z ^ (z >> 31)
    }
    /// uniform in 0..n (n > 0)
    pub fn below(&mut self, n: usize) -> usize {
        (self.next() % (n as u64)) as usize
    }
    pub fn range(&mut self, lo: usize, hi_incl: usize) -> usize {
        lo + self.below(hi_incl - lo + 1)
    }
    pub fn coin(&mut self) -> bool {
        self.next() & 1 == 1
    }
    pub fn chance(&mut self, num: usize, den: usize) -> bool {
        self.below(den) < num
    }
    pub fn pick<'a, T>(&mut self, xs: &'a [T]) -> &'a T {
        &xs[self.below(xs.len())]
    }
    pub fn perm(&mut self, n: usize) -> Vec<usize> {
        let mut v: Vec<usize> = (0..n).collect();
        for i in (1..n).rev() {
            let j = self.below(i + 1);
            v.swap(i, j);
        }
        v
    }
    /// weighted choice: index into `weights`
    pub fn weighted(&mut self, weights: &[usize]) -> usize {
        let total: usize = weights.iter().sum();
        let mut r = self.below(total.max(1));
        for (i, w) in weights.iter().enumerate() {
            if r < *w {
                return i;
            }
            r -= *w;
        }
        weights.len() - 1
    }
}

thread_local! {
    /// set when a value that must be exactly representable (an integer after scaling) was not
    static INEXACT: std::cell::Cell<bool> = const { std::cell::Cell::new(false) };
}

/// log an f64 that is expected to be an exact integer after scaling. A value that is not is logged as 0 and
/// the event it belongs to is marked `"inexact": true` (TLC compares integers only; the trace specifications
/// reject such an event under the property the value belongs to)
pub fn num(x: f64) -> Value {
    if x.is_finite() && x.fract() == 0.0 && x.abs() < 2_000_000_000.0 {
        serde_json::json!(x as i64)
    } else {
        INEXACT.with(|f| f.set(true));
        serde_json::json!(0)
    }
}

/// number of events emitted so far (the watchdog's notion of progress)
pub static PROGRESS: std::sync::atomic::AtomicU64 = std::sync::atomic::AtomicU64::new(0);

/// A call of the library that never returns is data, like a panic: when a `record` run emits no event for `secs` seconds, the
/// watchdog writes `<out>.hang` (how many events had been written) and ends the process with status 3.
pub fn start_watchdog(out_path: String, secs: u64) {
    std::thread::spawn(move || {
        let (mut last, mut idle) = (u64::MAX, 0u64);
        loop {
            std::thread::sleep(std::time::Duration::from_secs(1));
            let now = PROGRESS.load(std::sync::atomic::Ordering::Relaxed);
            if now == last {
                idle += 1;
            } else {
                last = now;
                idle = 0;
            }
            if idle >= secs {
                let _ = std::fs::write(format!("{out_path}.hang"), format!("{{\"ev\":\"hang\",\"events_written\":{now},\"idle_s\":{idle}}}\n"));
                std::process::exit(3);
            }
        }
    });
}

pub struct Out {
    w: Box<dyn Write>,
    pub lines: usize,
    /// when set, events are kept in memory instead of being written
    pub mem: Option<Vec<Value>>,
}

impl Out {
    pub fn new(path: &str) -> Out {
        let w: Box<dyn Write> = if path == "-" {
            Box::new(std::io::BufWriter::new(std::io::stdout()))
        } else {
            Box::new(std::io::BufWriter::new(
                std::fs::File::create(path).unwrap_or_else(|e| panic!("create {path}: {e}")),
            ))
        };
        Out { w, lines: 0, mem: None }
    }
    pub fn memory() -> Out {
        Out { w: Box::new(std::io::sink()), lines: 0, mem: Some(vec![]) }
    }
    pub fn emit(&mut self, mut v: Value) {
        PROGRESS.fetch_add(1, std::sync::atomic::Ordering::Relaxed);
        if INEXACT.with(|f| f.replace(false)) {
            v["inexact"] = serde_json::json!(true);
        }
        if let Some(m) = self.mem.as_mut() {
            m.push(v);
            return;
        }
        serde_json::to_writer(&mut self.w, &v).unwrap();
        self.w.write_all(b"\n").unwrap();
        // every event reaches the file at once: should a later call of the library never return, the watchdog ends the process and the
        // trace up to that call is the evidence
        self.w.flush().unwrap();
        self.lines += 1;
    }
    pub fn flush(&mut self) {
        self.w.flush().unwrap();
    }
}

/// Run `f`, turning a panic into Err(message). A panic is data, not a crash.
pub fn guarded<T>(f: impl FnOnce() -> T) -> Result<T, String> {
    match catch_unwind(AssertUnwindSafe(f)) {
        Ok(v) => Ok(v),
        Err(e) => {
            let msg = if let Some(s) = e.downcast_ref::<&str>() {
                s.to_string()
            } else if let Some(s) = e.downcast_ref::<String>() {
                s.clone()
            } else {
                "panic".to_string()
            };
            // keep it a short opaque token for TLC
            Err(msg.chars().take(120).collect())
        }
    }
}

pub fn quiet_panics() {
    std::panic::set_hook(Box::new(|info| abort_note(&info.to_string())));
}

thread_local! {
    /// set while an extern "C" function of the library is executing: a panic in there cannot unwind and aborts the process
    static IN_C: std::cell::RefCell<Option<String>> = std::cell::RefCell::new(None);
    static ABORT_FILE: std::cell::RefCell<Option<String>> = std::cell::RefCell::new(None);
}
pub fn set_abort_file(path: &str) {
    let _ = std::fs::remove_file(path);
    ABORT_FILE.with(|f| *f.borrow_mut() = Some(path.to_string()));
}
/// called from the panic hook: when the panic happens inside the C ABI, leave a note that survives the abort
pub fn abort_note(msg: &str) {
    let ctx = IN_C.with(|c| c.borrow().clone());
    if let (Some(ctx), Some(path)) = (ctx, ABORT_FILE.with(|f| f.borrow().clone())) {
        let line = serde_json::json!({"ev": "abort_in_c_abi", "call": ctx, "panic": msg.chars().take(200).collect::<String>()});
        let _ = std::fs::write(path, format!("{line}\n"));
    }
}
/// like `guarded`, for calls through the C ABI: `what` names the call for the abort note
pub fn cguard<T>(what: &str, f: impl FnOnce() -> T) -> Result<T, String> {
    IN_C.with(|c| *c.borrow_mut() = Some(what.to_string()));
    let r = guarded(f);
    IN_C.with(|c| *c.borrow_mut() = None);
    r
}

/// parse `--key value` style arguments
pub struct Args(pub Vec<String>);
impl Args {
    pub fn get(&self, key: &str) -> Option<&str> {
        let k = format!("--{key}");
        self.0
            .iter()
            .position(|a| *a == k)
            .and_then(|i| self.0.get(i + 1))
            .map(|s| s.as_str())
    }
    pub fn num(&self, key: &str, default: u64) -> u64 {
        self.get(key).map(|s| s.parse().unwrap()).unwrap_or(default)
    }
    pub fn str(&self, key: &str, default: &str) -> String {
        self.get(key).unwrap_or(default).to_string()
    }
    pub fn flag(&self, key: &str) -> bool {
        self.0.iter().any(|a| *a == format!("--{key}"))
    }
}

/// u128 -> little-endian base-10^4 limbs (TLC integers are 32-bit)
pub fn limbs(mut v: u128) -> Vec<u32> {
    let mut out = vec![];
    if v == 0 {
        return vec![0];
    }
    while v > 0 {
        out.push((v % 10_000) as u32);
        v /= 10_000;
    }
    out
}
