//! Recorder for `SATSolver` (unit propagation, decide / pop, satisfied flag, residual hash) and for
//! the top-down decision-DNNF compilers built on it.
use crate::bdd_rec::Ids;
use crate::util::*;
use rsdd::builder::decision_nnf::{DecisionNNFBuilder, SemanticDecisionNNFBuilder, StandardDecisionNNFBuilder};
use rsdd::builder::TopDownBuilder;
use rsdd::constants::primes;
use rsdd::repr::{BddPtr, Cnf, DDNNFPtr, DecisionResult, Literal, SATSolver, VarLabel, VarOrder};
use serde_json::{json, Value};

/// random CNF for solver histories: units, duplicates, tautologies, rare empty clauses;
/// at most `max_occ` literal occurrences so that the prime-product hash cannot wrap 128 bits
pub fn rand_cnf(rng: &mut Rng, max_vars: usize, max_clauses: usize, max_occ: usize) -> Vec<Vec<(usize, bool)>> {
    let nv = rng.range(1, max_vars);
    let nc = rng.below(max_clauses + 1);
    let mut occ = 0;
    let mut out: Vec<Vec<(usize, bool)>> = vec![];
    for _ in 0..nc {
        let w = if rng.chance(1, 40) { 0 } else if rng.chance(1, 5) { 1 } else { rng.range(2, 4) };
        if occ + w > max_occ {
            break;
        }
        occ += w;
        let mut cl: Vec<(usize, bool)> = (0..w).map(|_| (rng.below(nv), rng.coin())).collect();
        if !out.is_empty() && rng.chance(1, 12) {
            cl = out[rng.below(out.len())].clone(); // duplicate clause
        }
        out.push(cl);
    }
    out
}

/// clauses of 3..5 distinct variables (watches have to move several times before a clause becomes unit)
pub fn wide_cnf(rng: &mut Rng, max_vars: usize, max_occ: usize) -> Vec<Vec<(usize, bool)>> {
    let nv = rng.range(4.min(max_vars), max_vars);
    let mut occ = 0;
    let mut out: Vec<Vec<(usize, bool)>> = vec![];
    loop {
        let w = if rng.chance(1, 4) { 2 } else { rng.range(3, 5.min(nv)) };
        if occ + w > max_occ {
            break;
        }
        occ += w;
        let mut vars: Vec<usize> = (0..nv).collect();
        for i in 0..w {
            let j = i + rng.below(nv - i);
            vars.swap(i, j);
        }
        out.push(vars[..w].iter().map(|v| (*v, rng.coin())).collect());
        if out.len() >= 3 && rng.chance(1, 6) {
            break;
        }
    }
    out
}

/// "regrouping" CNFs: the same literals grouped into clauses in two ways, each grouping guarded by a selector literal.
/// Assigning the selectors one way or the other leaves residuals with the same literal multiset but different
/// clauses (a residual hash that forgets clause boundaries collides). Returns (clauses, selector literals whose
/// FALSIFICATION activates grouping 1 / grouping 2, number of variables). Variables are relabelled at random.
pub fn regroup_cnf(rng: &mut Rng, nmax: usize) -> Option<(Vec<Vec<(usize, bool)>>, Vec<(usize, bool)>, usize)> {
    let two = nmax >= 6 && rng.coin();
    let nv = if two { 6 } else { 5 };
    if nmax < nv {
        return None;
    }
    let relabel = rng.perm(nv);
    let lit = |v: usize, p: bool| (relabel[v], p);
    let base: Vec<(usize, bool)> = (0..4).map(|v| lit(v, rng.coin())).collect();
    let (a, b, c, d) = (base[0], base[1], base[2], base[3]);
    let s1 = lit(4, rng.coin());
    let s2 = if two { lit(5, rng.coin()) } else { (s1.0, !s1.1) };
    let mut cl = vec![vec![s1, a, b], vec![s1, c, d], vec![s2, a, c], vec![s2, b, d]];
    if rng.coin() {
        cl.push(vec![lit(rng.below(4), rng.coin()), lit(4, rng.coin())]); // a bystander clause
    }
    for i in (1..cl.len()).rev() {
        cl.swap(i, rng.below(i + 1));
    }
    Some((cl, vec![s1, s2], nv))
}

/// LONG clauses (needs >= 10 variables): an implication s -> x and a clause of 9 or more literals of mixed polarity that starts
/// with !x, plus a few short clauses (data structures that treat clauses of more than 8 literals differently)
pub fn long_clause_cnf(rng: &mut Rng, nmax: usize) -> (Vec<Vec<(usize, bool)>>, usize) {
    let p = rng.perm(nmax);
    let (s, x) = (p[0], p[1]);
    let k = rng.range(8, nmax - 2);
    let mut long: Vec<(usize, bool)> = vec![(x, false)];
    for i in 0..k {
        long.push((p[2 + i], (i % 2 == 0) ^ rng.chance(1, 4)));
    }
    let mut c = vec![vec![(s, false), (x, true)], long];
    for _ in 0..rng.below(3) {
        c.push((0..rng.range(1, 3)).map(|_| (rng.below(nmax), rng.coin())).collect());
    }
    for i in (1..c.len()).rev() {
        c.swap(i, rng.below(i + 1));
    }
    (c, s)
}

pub fn mk_cnf(c: &[Vec<(usize, bool)>]) -> Cnf {
    let cl: Vec<Vec<Literal>> = c
        .iter()
        .map(|cl| cl.iter().map(|(v, p)| Literal::new(VarLabel::new_usize(*v), *p)).collect())
        .collect();
    Cnf::new(&cl)
}

pub fn stored_json(cnf: &Cnf) -> Value {
    json!(cnf
        .clauses()
        .iter()
        .map(|cl| cl
            .iter()
            .map(|l| if l.polarity() { l.label().value() as i64 + 1 } else { -(l.label().value() as i64 + 1) })
            .collect::<Vec<_>>())
        .collect::<Vec<_>>())
}

/// observation itself must not bring the recorder down: a panic while reading the solver state
/// (e.g. a stack that was popped too far) is logged as a panic event
fn observe(s: &SATSolver, nv: usize, emb: &[usize], ev: &mut Value) {
    let mut tmp = ev.clone();
    match guarded(|| observe_raw(s, nv, emb, &mut tmp)) {
        Ok(()) => *ev = tmp,
        Err(m) => ev["panic"] = json!(format!("while observing: {m}")),
    }
}

fn observe_raw(s: &SATSolver, nv: usize, emb: &[usize], ev: &mut Value) {
    // emb[v] = the label on which variable v of the recorded (compact) CNF sits in the real solver; empty = identity
    let lab = |v: usize| if emb.is_empty() { v } else { emb[v] };
    let m = s.verif_model();
    ev["m"] = json!((0..nv)
        .map(|v| match m.get(VarLabel::new_usize(lab(v))) {
            None => -1,
            Some(false) => 0,
            Some(true) => 1,
        })
        .collect::<Vec<i32>>());
    ev["isset"] = json!((0..nv).map(|v| s.is_set(VarLabel::new_usize(lab(v)))).collect::<Vec<bool>>());
    ev["sat"] = json!(s.is_sat());
    ev["hash"] = json!(limbs(s.cur_hash()));
    ev["depth"] = json!(s.verif_depth());
    let (wp, wn) = s.verif_watches();
    // watch lists per variable, in the compact numbering (the lists of labels the CNF never mentions stay empty)
    let conv = |w: &[Vec<usize>]| json!((0..nv).map(|v| w.get(lab(v)).map(|l| l.iter().map(|c| c + 1).collect::<Vec<_>>()).unwrap_or_default()).collect::<Vec<_>>());
    ev["wp"] = conv(wp);
    ev["wn"] = conv(wn);
}

pub fn record_sat(args: &Args) {
    let seed = args.num("seed", 1);
    let segs = args.num("segments", 20) as usize;
    let len = args.num("len", 40) as usize;
    let nmax = args.num("nmax", 5) as usize;
    let attack = args.num("attack", 0) != 0;
    let wide = args.num("wide", 0) != 0;
    let regroup = args.num("regroup", 1) != 0;
    // --labels K: the solver works over K labels; the variables of each recorded CNF sit on scattered labels (two of them
    // congruent modulo 64, some beyond 63); the record is written in the compact numbering, so the specification is unchanged
    let nlabels = args.num("labels", 0) as usize;
    // --bulk N: the solver's CNF starts with the unit clause (z) and N copies of (z | f) over two fresh variables (satisfied from the
    // start, never decided), so that the recorded clauses are literal occurrences number 2N+2 and up; the record shows the recorded
    // clauses only (their residuals are the residuals of the whole formula). The implementation-shaped predictions (watch lists, numeric
    // hash) do not apply to such a record: `nol2`.
    let bulk = args.num("bulk", 0) as usize;
    let mut out = Out::new(&args.str("out", "-"));
    let mut rng = Rng::new(seed ^ 0x5a7);
    if bulk > 0 {
        out.emit(json!({"ev": "init", "kind": "sat", "nmax": nmax, "seed": seed, "nol2": true, "bulk": bulk}));
    } else {
        out.emit(json!({"ev": "init", "kind": "sat", "nmax": nmax, "seed": seed}));
    }
    for _ in 0..segs {
        let mut script: std::collections::VecDeque<Option<(usize, bool)>> = Default::default();
        let mut c = if wide { wide_cnf(&mut rng, nmax, 25) } else { rand_cnf(&mut rng, nmax, 8, 25) };
        let long = nmax >= 10 && rng.chance(2, 3);
        if long {
            let (cl, sel) = long_clause_cnf(&mut rng, nmax);
            c = cl;
            // scripted prefix: the selector both ways (the two states differ in the residual of the long clause)
            for p in [true, false] {
                script.push_back(Some((sel, p)));
                script.push_back(None);
            }
        }
        if !long && regroup && rng.chance(1, 4) {
            if let Some((cl, sels, _)) = regroup_cnf(&mut rng, nmax) {
                // scripted prefix: falsify selector 1 (and satisfy selector 2), look, undo; then the other way round
                c = cl;
                let (s1, s2) = (sels[0], sels[1]);
                for (f, t) in [(s1, s2), (s2, s1)] {
                    script.push_back(Some((f.0, !f.1)));
                    if t.0 != f.0 {
                        script.push_back(Some((t.0, t.1)));
                        script.push_back(None);
                    }
                    script.push_back(None);
                }
            }
        }
        let nv0 = mk_cnf(&c).num_vars();
        let emb: Vec<usize> = if nlabels > 0 && nv0 >= 2 {
            let base = rng.below(6);
            let mut e = vec![base, base + 64];
            while e.len() < nv0 {
                let l = rng.below(nlabels);
                if !e.contains(&l) {
                    e.push(l);
                }
            }
            e.truncate(nv0);
            // monotone: the compact numbering and the labels sort alike (the library orders literals by label, and variable nv0-1,
            // which the CNF mentions by construction of num_vars, gets the largest label, so every label stays below num_vars)
            e.sort();
            e
        } else {
            vec![]
        };
        let lab = |v: usize| if emb.is_empty() { v } else { emb[v] };
        let unlab = |l: usize| if emb.is_empty() { l as i64 } else { emb.iter().position(|x| *x == l).map(|i| i as i64).unwrap_or(900 + l as i64) };
        let mut real: Vec<Vec<(usize, bool)>> = c.iter().map(|cl| cl.iter().map(|(v, p)| (lab(*v), *p)).collect()).collect();
        // --bulk 1: per solver, a size that puts the 54th / 55th or the 6 542nd / 6 543rd literal occurrence (the last prime below 2^8 /
        // 2^16 and the first one above) on one of the first literals of the recorded clauses
        let bulk = if bulk == 1 { *rng.pick(&[22usize, 23, 24, 25, 26, 3266, 3267, 3268, 3269, 3270]) } else { bulk };
        if bulk > 0 && emb.is_empty() && nv0 > 0 {
            let mut pre: Vec<Vec<(usize, bool)>> = vec![vec![(nv0, true)]];
            pre.extend((0..bulk).map(|_| vec![(nv0, true), (nv0 + 1, true)]));
            pre.extend(real);
            real = pre;
        }
        let nbulk = if bulk > 0 && emb.is_empty() && nv0 > 0 { bulk + 1 } else { 0 };
        let cnf = mk_cnf(&real);
        let nv = nv0;
        // the stored clause list (literal order as the library keeps it), written in the compact numbering
        let stored: Vec<Vec<i64>> = cnf.clauses().iter().skip(nbulk).map(|cl| cl.iter().map(|l| { let v = unlab(l.label().value_usize()) + 1; if l.polarity() { v } else { -v } }).collect()).collect();
        let mut ev = json!({"ev": "snew", "nv": nv, "cnf": stored});
        if !emb.is_empty() {
            ev["emb"] = json!(emb);
        }
        let solver = match guarded(|| SATSolver::new(cnf.clone())) {
            Ok(s) => s,
            Err(m) => {
                ev["panic"] = json!(m);
                out.emit(ev);
                continue;
            }
        };
        let mut s = match solver {
            None => {
                ev["ok"] = json!(false);
                out.emit(ev);
                continue;
            }
            Some(s) => s,
        };
        ev["ok"] = json!(true);
        observe(&s, nv, &emb, &mut ev);
        out.emit(ev);
        if nv == 0 {
            continue;
        }
        let mut depth = 2usize;
        for _ in 0..len {
            let scripted = script.pop_front();
            let do_pop = match scripted {
                Some(None) => depth > 2,
                Some(Some(_)) => false,
                None => depth > 2 && rng.chance(2, 5),
            };
            if do_pop {
                let mut ev = json!({"ev": "pop"});
                if let Err(m) = guarded(|| s.pop()) {
                    ev["panic"] = json!(m);
                    out.emit(ev);
                    break;
                }
                depth -= 1;
                observe(&s, nv, &emb, &mut ev);
                let dead = ev.get("panic").is_some();
                out.emit(ev);
                if dead {
                    break;
                }
            } else {
                let (mut v, mut p) = (rng.below(nv), rng.coin());
                if let Some(Some((sv, sp))) = scripted {
                    // domain: decisions are on variables of the solver's CNF
                    if sv < nv {
                        v = sv;
                        p = sp;
                    }
                } else if attack && rng.chance(2, 3) {
                    // adversarial driver: falsify an unassigned literal of a clause that has no true literal yet, so that
                    // clauses are driven to unit / falsified through every one of their literals (watched or not)
                    let m = s.verif_model();
                    let val = |l: &(usize, bool)| m.get(VarLabel::new_usize(lab(l.0))).map(|b| b == l.1);
                    let open: Vec<&Vec<(usize, bool)>> = c
                        .iter()
                        .filter(|cl| !cl.iter().any(|l| val(l) == Some(true)) && cl.iter().filter(|l| val(l).is_none()).count() >= 2)
                        .collect();
                    if !open.is_empty() {
                        let cl = open[rng.below(open.len())];
                        let un: Vec<&(usize, bool)> = cl.iter().filter(|l| val(l).is_none()).collect();
                        let l = un[rng.below(un.len())];
                        v = l.0;
                        p = !l.1;
                    }
                }
                let lit = if p { v as i64 + 1 } else { -(v as i64 + 1) };
                let mut ev = json!({"ev": "decide", "lit": lit});
                match guarded(|| s.decide(Literal::new(VarLabel::new_usize(lab(v)), p))) {
                    Ok(r) => {
                        ev["res"] = json!(match r {
                            DecisionResult::SAT => "SAT",
                            DecisionResult::UNSAT => "UNSAT",
                            DecisionResult::Unknown => "Unknown",
                        });
                        if !matches!(r, DecisionResult::UNSAT) {
                            depth += 1;
                            match guarded(|| {
                                s.difference_iter()
                                    .map(|l| { let v = unlab(l.label().value_usize()) + 1; if l.polarity() { v } else { -v } })
                                    .collect::<Vec<_>>()
                            }) {
                                Ok(d) => {
                                    // a decision that implied other literals: (sometimes) go back and decide each of the implied
                                    // literals on its own - neighbouring states whose residuals differ in few literals, the states
                                    // a hash that mis-counts a step with several falsified literals of one clause collides with
                                    if attack && d.len() >= 2 && script.is_empty() && rng.chance(1, 3) {
                                        script.push_back(None);
                                        for x in d.iter().filter(|x| **x != lit).take(3) {
                                            script.push_back(Some(((x.unsigned_abs() - 1) as usize, *x > 0)));
                                            script.push_back(None);
                                        }
                                    }
                                    ev["diff"] = json!(d);
                                }
                                Err(m) => ev["panic"] = json!(format!("difference_iter: {m}")),
                            }
                        }
                        observe(&s, nv, &emb, &mut ev);
                        let dead = ev.get("panic").is_some();
                        out.emit(ev);
                        if dead {
                            break;
                        }
                    }
                    Err(m) => {
                        ev["panic"] = json!(m);
                        out.emit(ev);
                        break;
                    }
                }
            }
        }
    }
    out.flush();
}

/// spec -> impl: replay the decide / pop behaviours enumerated by spec/GenWatched.tla into the real SATSolver
/// and record what it does in the TraceUnitProp format (TLC then validates that record)
pub fn replay_satvec(args: &Args) {
    let text = std::fs::read_to_string(args.str("in", "")).expect("read vectors");
    let chunks = args.num("chunks", 1) as usize;
    let base = args.str("out", "/tmp/satvec");
    let lines: Vec<&str> = text.lines().collect();
    let per = (lines.len() + chunks - 1) / chunks.max(1);
    let mut total = 0usize;
    for (ci, chunk) in lines.chunks(per.max(1)).enumerate() {
        let mut out = Out::new(&format!("{base}_{ci}.ndjson"));
        out.emit(json!({"ev": "init", "kind": "sat", "nmax": args.num("nv", 3), "seed": 0}));
        for line in chunk {
            let v: Value = serde_json::from_str(line).expect("vector json");
            total += 1;
            let c: Vec<Vec<(usize, bool)>> = v["cnf"]
                .as_array()
                .unwrap()
                .iter()
                .map(|cl| cl.as_array().unwrap().iter().map(|l| { let x = l.as_i64().unwrap(); ((x.abs() - 1) as usize, x > 0) }).collect())
                .collect();
            let nvv = v["nv"].as_u64().unwrap() as usize;
            // pad so that num_vars equals the model's NV (a tautology-free way is not needed: the solver takes nv from the CNF)
            let cnf = mk_cnf(&c);
            let nv = cnf.num_vars();
            let mut ev = json!({"ev": "snew", "nv": nv, "cnf": stored_json(&cnf), "model_nv": nvv});
            let solver = match guarded(|| SATSolver::new(cnf.clone())) {
                Ok(s) => s,
                Err(m) => {
                    ev["panic"] = json!(m);
                    out.emit(ev);
                    continue;
                }
            };
            let mut s = match solver {
                None => {
                    ev["ok"] = json!(false);
                    out.emit(ev);
                    continue;
                }
                Some(s) => s,
            };
            ev["ok"] = json!(true);
            observe(&s, nv, &[], &mut ev);
            out.emit(ev);
            let mut depth = 2usize;
            for op in v["ops"].as_array().unwrap() {
                if op["op"] == "p" {
                    if depth <= 2 {
                        break;
                    }
                    let mut ev = json!({"ev": "pop"});
                    if let Err(m) = guarded(|| s.pop()) {
                        ev["panic"] = json!(m);
                        out.emit(ev);
                        break;
                    }
                    depth -= 1;
                    observe(&s, nv, &[], &mut ev);
                    let dead = ev.get("panic").is_some();
                    out.emit(ev);
                    if dead {
                        break;
                    }
                } else {
                    let lit = op["lit"].as_i64().unwrap();
                    if (lit.unsigned_abs() as usize) > nv {
                        break; // the CNF does not mention this variable: outside the solver's domain
                    }
                    let mut ev = json!({"ev": "decide", "lit": lit});
                    match guarded(|| s.decide(Literal::new(VarLabel::new_usize((lit.abs() - 1) as usize), lit > 0))) {
                        Ok(r) => {
                            ev["res"] = json!(match r {
                                DecisionResult::SAT => "SAT",
                                DecisionResult::UNSAT => "UNSAT",
                                DecisionResult::Unknown => "Unknown",
                            });
                            if !matches!(r, DecisionResult::UNSAT) {
                                depth += 1;
                                match guarded(|| {
                                    s.difference_iter()
                                        .map(|l| if l.polarity() { l.label().value() as i64 + 1 } else { -(l.label().value() as i64 + 1) })
                                        .collect::<Vec<_>>()
                                }) {
                                    Ok(d) => ev["diff"] = json!(d),
                                    Err(m) => ev["panic"] = json!(format!("difference_iter: {m}")),
                                }
                            }
                            observe(&s, nv, &[], &mut ev);
                            let dead = ev.get("panic").is_some();
                            out.emit(ev);
                            if dead {
                                break;
                            }
                        }
                        Err(m) => {
                            ev["panic"] = json!(m);
                            out.emit(ev);
                            break;
                        }
                    }
                }
            }
        }
        out.flush();
    }
    println!("{}", json!({"vectors": total, "chunks": chunks}));
}

// ------------------------------------------------------------------ top-down compilation (C06)

/// `emb`: empty, or the label on which each variable of the recorded CNFs sits in the real builder (wide label space; monotone)
fn td_segment<'a, B: DecisionNNFBuilder<'a>>(b: &'a B, cnfs: &[Cnf], nv: usize, emb: &[usize], rng: &mut Rng, out: &mut Out) {
    let mut ids = Ids::new();
    let lab = |v: usize| if emb.is_empty() { v } else { emb[v] };
    let nwide = if emb.is_empty() { nv } else { emb[nv - 1] + 1 };
    if !emb.is_empty() {
        ids.unlab = Some(emb.iter().enumerate().map(|(v, l)| (*l, v)).collect());
    }
    let embed = |c: &Cnf| -> Cnf {
        if emb.is_empty() {
            return c.clone();
        }
        Cnf::new(&c.clauses().iter().map(|cl| cl.iter().map(|l| Literal::new(VarLabel::new_usize(emb[l.label().value_usize()]), l.polarity())).collect()).collect::<Vec<Vec<Literal>>>())
    };
    // slots: 0 True, 1 False, then per compiled CNF its result and its negation, then conditioned diagrams
    let mut pool: Vec<BddPtr<'a>> = vec![BddPtr::PtrTrue, BddPtr::PtrFalse];
    for cnf in cnfs {
        let mut ev = json!({"ev": "compile", "cnf": stored_json(cnf)});
        let wide_cnf = embed(cnf);
        let r = match guarded(|| b.compile_cnf_topdown(&wide_cnf)) {
            Ok(r) => r,
            Err(m) => {
                ev["panic"] = json!(m);
                out.emit(ev);
                return;
            }
        };
        let mut newn = vec![];
        ev["root"] = json!(ids.ptr(r, &mut newn));
        ev["nodes"] = json!(newn);
        ev["res"] = json!(pool.len());
        out.emit(ev);
        pool.push(r);
        out.emit(json!({"ev": "tneg", "a": [pool.len() - 1], "res": pool.len(), "root": ids.ptr(r.neg(), &mut vec![]), "nodes": []}));
        pool.push(r.neg());
    }
    let base = pool.len();
    if nv == 0 {
        return;
    }
    for _ in 0..(4 * nv + 6) {
        let a = rng.below(pool.len());
        let (v, p) = (rng.below(nv), rng.coin());
        let x = pool[a];
        let mut ev = json!({"ev": "tcond", "a": [a, v, p as u8]});
        match guarded(|| b.condition(x, VarLabel::new_usize(lab(v)), p)) {
            Ok(c) => {
                let mut newn = vec![];
                ev["root"] = json!(ids.ptr(c, &mut newn));
                ev["nodes"] = json!(newn);
                ev["dirty"] = json!(ids.dirty());
                if pool.len() < base + 6 {
                    pool.push(c);
                    ev["res"] = json!(pool.len() - 1);
                } else {
                    let s = base + rng.below(6);
                    pool[s] = c;
                    ev["res"] = json!(s);
                }
                out.emit(ev);
            }
            Err(m) => {
                ev["panic"] = json!(m);
                out.emit(ev);
                return;
            }
        }
        // node counting (C10: a structural answer, and no residue of the conditioning above)
        if rng.chance(1, 3) {
            let a = rng.below(pool.len());
            let x = pool[a];
            let mut ev = json!({"ev": "count", "a": [a]});
            match guarded(|| x.count_nodes()) {
                Ok(v) => ev["val"] = json!(v),
                Err(m) => ev["panic"] = json!(m),
            }
            ev["dirty"] = json!(ids.dirty());
            out.emit(ev);
        }
        // evaluation and counting of top-down results (C07)
        if rng.chance(1, 3) {
            let a = rng.below(pool.len());
            let asg = rng.below(1 << nv);
            let mut inst: Vec<bool> = vec![rng.coin(); nwide];
            for i in 0..nv {
                inst[lab(i)] = (asg >> i) & 1 == 1;
            }
            let x = pool[a];
            let mut ev = json!({"ev": "eval", "a": [a, asg]});
            match guarded(|| x.evaluate(&inst)) {
                Ok(v) => ev["val"] = json!(v),
                Err(m) => ev["panic"] = json!(m),
            }
            out.emit(ev);
        }
        if rng.chance(1, 3) {
            let a = rng.below(pool.len());
            let x = pool[a];
            let kind = *rng.pick(&["real", "bool", "ff", "complex", "eu", "poly", "rat", "polyhi"]);
            let wq = crate::bdd_rec::gen_weights(rng, kind, nv, true);
            let mut ev = json!({"ev": "wmc", "a": [a]});
            wq.log(&mut ev);
            // in a wide label space every unmentioned label carries the weights of variable 0
            let wide_w = if emb.is_empty() { None } else {
                let mut w = vec![wq.w[0].clone(); nwide];
                for v in 0..nv {
                    w[emb[v]] = wq.w[v].clone();
                }
                Some(crate::bdd_rec::WeightSpec { kind: wq.kind, p: wq.p, wexp: wq.wexp, w })
            };
            if let Err(m) = crate::bdd_rec::count_in(x, wide_w.as_ref().unwrap_or(&wq), nv, &mut ev) {
                ev["panic"] = json!(m);
            }
            ev["dirty"] = json!(ids.dirty());
            out.emit(ev);
        }
    }
}

pub fn record_topdown(args: &Args) {
    let seed = args.num("seed", 1);
    let segs = args.num("segments", 20) as usize;
    let nmax = args.num("nmax", 5) as usize;
    // --labels K: the builders work over up to K labels, the CNFs' variables sit on scattered labels (monotone embedding; the record
    // is written in the compact numbering)
    let nlabels = args.num("labels", 0) as usize;
    let mut out = Out::new(&args.str("out", "-"));
    let mut rng = Rng::new(seed ^ 0x70d);
    out.emit(json!({"ev": "init", "kind": "topdown", "nmax": nmax, "seed": seed}));
    for _ in 0..segs {
        // families engineered to hit the component cache: few variables, many short clauses
        let mut c = rand_cnf(&mut rng, nmax, 9, 25);
        let long = nmax >= 10 && rng.chance(2, 3);
        let mut long_first: Vec<usize> = vec![];
        if long {
            let (cl, sel) = long_clause_cnf(&mut rng, nmax);
            c = cl;
            long_first = vec![sel]; // the selector is decided first
        }
        if !long && rng.chance(1, 4) && nmax >= 3 {
            // engineered family: unit clauses on some variables plus an (almost) complete set of
            // two-variable clauses on two others: (un)satisfiability is only found by search, after the
            // initial unit propagation has already implied literals
            let p = rng.perm(nmax);
            let (a, b) = (p[0], p[1]);
            c = vec![];
            for v in &p[2..] {
                if rng.coin() {
                    c.push(vec![(*v, rng.coin())]);
                }
            }
            let drop = rng.below(6);
            for (i, (pa, pb)) in [(true, true), (true, false), (false, true), (false, false)].iter().enumerate() {
                if i != drop {
                    c.push(vec![(a, *pa), (b, *pb)]);
                }
            }
            let k = c.len();
            if k > 1 {
                let i = rng.below(k);
                c.swap(0, i);
            }
        }
        // parity family: x_a ^ x_b ^ x_c = p as four clauses of width 3, optionally chained with a second constraint that shares
        // a variable, optionally among a few ordinary clauses: a sub-function occurs both plain and negated, so the semantic store
        // builds complemented edges INSIDE the diagram (conditioning below such a shared node is what a polarity slip needs)
        if !long && rng.chance(1, 5) && nmax >= 3 {
            let p = rng.perm(nmax);
            c = vec![];
            let mut xor3 = |c: &mut Vec<Vec<(usize, bool)>>, a: usize, b: usize, d: usize, par: bool| {
                for m in 0..8usize {
                    // forbid the assignments of the wrong parity: one clause each
                    let ones = (m & 1) + ((m >> 1) & 1) + ((m >> 2) & 1);
                    if (ones % 2 == 1) != par {
                        c.push(vec![(a, m & 1 == 0), (b, (m >> 1) & 1 == 0), (d, (m >> 2) & 1 == 0)]);
                    }
                }
            };
            xor3(&mut c, p[0], p[1], p[2], rng.coin());
            if nmax >= 5 && rng.coin() {
                xor3(&mut c, p[2], p[3], p[4], rng.coin());
            } else if nmax >= 4 && rng.coin() {
                c.push(vec![(p[3], rng.coin()), (p[rng.below(3)], rng.coin())]);
            }
            if rng.coin() {
                c.extend(rand_cnf(&mut rng, nmax, 2, 6));
            }
            for i in (1..c.len()).rev() {
                let j = rng.below(i + 1);
                c.swap(i, j);
            }
        }
        // regrouping family: two assignments of the selector variables leave residual CNFs with the same literals grouped
        // differently (a component-cache key that forgets clause boundaries answers one with the other's diagram);
        // the selectors are decided first
        let mut first: Vec<usize> = long_first;
        if !long && rng.chance(1, 6) {
            if let Some((cl, sels, _)) = regroup_cnf(&mut rng, nmax) {
                c = cl;
                first = vec![sels[0].0];
                if sels[1].0 != sels[0].0 {
                    first.push(sels[1].0);
                }
            }
        }
        let cnf = mk_cnf(&c);
        let nv = cnf.num_vars();
        // one builder may compile several CNFs over the same variables: later compilations meet the nodes
        // (and, in the semantic store, the hashes and negated hashes) of earlier ones
        let mut cnfs = vec![cnf.clone()];
        if nv > 0 {
            match rng.below(3) {
                0 => {
                    // the exact negation of a clause: a disjunction, then the units of its negated literals
                    let w = rng.range(1, nv.min(3));
                    let vars = rng.perm(nv);
                    let cl: Vec<(usize, bool)> = vars[..w].iter().map(|v| (*v, rng.coin())).collect();
                    let units: Vec<Vec<(usize, bool)>> = cl.iter().map(|(v, p)| vec![(*v, !*p)]).collect();
                    let mut pad = vec![cl];
                    // keep num_vars equal to nv: mention the last variable in a tautology-free way if needed
                    if !pad[0].iter().any(|(v, _)| *v == nv - 1) {
                        pad.push(vec![(nv - 1, true), (nv - 1, false)]);
                    }
                    let mut upad = units;
                    if !upad.iter().flatten().any(|(v, _)| *v == nv - 1) {
                        upad.push(vec![(nv - 1, true), (nv - 1, false)]);
                    }
                    cnfs = vec![mk_cnf(&pad), mk_cnf(&upad), cnf.clone()];
                }
                1 => {
                    let mut c2 = rand_cnf(&mut rng, nv, 6, 25);
                    c2.push(vec![(nv - 1, true), (nv - 1, false)]);
                    cnfs.push(mk_cnf(&c2));
                }
                2 if nv >= 2 && rng.coin() => {
                    // a CNF that only SEARCH refutes (no unit clause: all four clauses over two variables, or all eight over three)
                    // compiled FIRST in a builder that goes on to compile satisfiable CNFs: whatever a compilation leaves behind
                    // in the builder on its early exits meets the next compilation
                    let vars = rng.perm(nv);
                    let w = if nv >= 3 && rng.coin() { 3 } else { 2 };
                    let mut core: Vec<Vec<(usize, bool)>> = (0..(1usize << w))
                        .map(|m| (0..w).map(|k| (vars[k], (m >> k) & 1 == 1)).collect())
                        .collect();
                    if !vars[..w].contains(&(nv - 1)) {
                        core.push(vec![(nv - 1, true), (nv - 1, false)]);
                    }
                    for i in (1..core.len()).rev() {
                        let j = rng.below(i + 1);
                        core.swap(i, j);
                    }
                    let mut c2 = rand_cnf(&mut rng, nv, 5, 25);
                    c2.push(vec![(nv - 1, true), (nv - 1, false)]);
                    cnfs = vec![mk_cnf(&core), cnf.clone(), mk_cnf(&c2)];
                }
                _ => {}
            }
        }
        cnfs.retain(|c| c.num_vars() == nv);
        let mut order = rng.perm(nv);
        if !first.is_empty() && first.iter().all(|v| *v < nv) {
            order.retain(|v| !first.contains(v));
            let mut o = first.clone();
            o.extend(order);
            order = o;
        }
        let store = if rng.coin() { "std" } else { "sem" };
        let tcap = *rng.pick(&[0usize, 0, 2, 8]);
        rsdd::verif::set_table_capacity(tcap);
        out.emit(json!({"ev": "treset", "nv": nv, "order": order, "store": store, "tcap": tcap}));
        let emb: Vec<usize> = if nlabels > 0 && nv >= 2 {
            let base = rng.below(6);
            let mut e = vec![base, base + 64];
            while e.len() < nv {
                let l = rng.below(nlabels);
                if !e.contains(&l) {
                    e.push(l);
                }
            }
            e.truncate(nv);
            e.sort();
            e
        } else {
            vec![]
        };
        // the real decision order: the mentioned labels in the recorded relative order, the unmentioned ones interleaved at random
        let real_order: Vec<usize> = if emb.is_empty() { order.clone() } else {
            let nwide = emb[nv - 1] + 1;
            let mut full = rng.perm(nwide);
            let slots: Vec<usize> = full.iter().enumerate().filter(|(_, l)| emb.contains(l)).map(|(k, _)| k).collect();
            for (k, v) in slots.iter().zip(order.iter()) {
                full[*k] = emb[*v];
            }
            full
        };
        let ord = VarOrder::new(&real_order.iter().map(|v| VarLabel::new_usize(*v)).collect::<Vec<_>>());
        if store == "std" {
            let b = StandardDecisionNNFBuilder::new(ord);
            td_segment(&b, &cnfs, nv, &emb, &mut rng, &mut out);
        } else {
            let b = SemanticDecisionNNFBuilder::<{ primes::U64_LARGEST }>::new(ord);
            td_segment(&b, &cnfs, nv, &emb, &mut rng, &mut out);
        }
    }
    rsdd::verif::set_table_capacity(0);
    out.flush();
}
