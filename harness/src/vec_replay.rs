//! spec -> impl: replays the function-level transitions printed by spec/GenBdd.tla into real
//! builders. Expected results come from TLC (sets of satisfying assignments); the driver's own
//! truth-table walker is the projection of the implementation state (used in this direction only).
use crate::sdd_rec::rand_vtree;
use crate::util::*;
use rsdd::builder::bdd::{BddBuilder, RobddBuilder};
use rsdd::builder::cache::{AllIteTable, IteTable, LruIteTable};
use rsdd::builder::sdd::CompressionSddBuilder;
use rsdd::builder::BottomUpBuilder;
use rsdd::repr::{BddNode, BddPtr, DDNNFPtr, SddPtr, VTree, VarLabel, VarOrder};
use serde_json::{json, Value};
use std::collections::HashMap;

type TT = u64; // bit a = value on assignment a (a < 2^nv <= 64)

fn tt_of(v: &Value) -> TT {
    v.as_array().unwrap().iter().fold(0u64, |acc, x| acc | (1u64 << x.as_u64().unwrap()))
}

fn cof(tt: TT, v: usize, b: bool, nv: usize) -> TT {
    let mut r = 0u64;
    for a in 0..(1usize << nv) {
        let a2 = if b { a | (1 << v) } else { a & !(1 << v) };
        if (tt >> a2) & 1 == 1 {
            r |= 1 << a;
        }
    }
    r
}

fn full(nv: usize) -> TT {
    if nv == 6 { u64::MAX } else { (1u64 << (1usize << nv)) - 1 }
}

// ---------------------------------------------------------------- BDD

fn bdd_eval(p: BddPtr, a: usize) -> bool {
    match p {
        BddPtr::PtrTrue => true,
        BddPtr::PtrFalse => false,
        BddPtr::Reg(n) | BddPtr::Compl(n) => {
            let r = if (a >> n.var.value_usize()) & 1 == 1 { bdd_eval(n.high, a) } else { bdd_eval(n.low, a) };
            if matches!(p, BddPtr::Compl(_)) { !r } else { r }
        }
    }
}
fn bdd_tt(p: BddPtr, nv: usize) -> TT {
    (0..(1usize << nv)).fold(0u64, |acc, a| if bdd_eval(p, a) { acc | (1 << a) } else { acc })
}

/// truth table of a diagram whose labels are scattered: inv maps a label to the function's variable index
fn bdd_tt_emb(p: BddPtr, nv: usize, inv: &HashMap<usize, usize>) -> TT {
    fn ev(p: BddPtr, a: usize, inv: &HashMap<usize, usize>) -> bool {
        match p {
            BddPtr::PtrTrue => true,
            BddPtr::PtrFalse => false,
            BddPtr::Reg(n) | BddPtr::Compl(n) => {
                let v = *inv.get(&n.var.value_usize()).expect("a label outside the function's variables");
                let r = if (a >> v) & 1 == 1 { ev(n.high, a, inv) } else { ev(n.low, a, inv) };
                if matches!(p, BddPtr::Compl(_)) { !r } else { r }
            }
        }
    }
    (0..(1usize << nv)).fold(0u64, |acc, a| if ev(p, a, inv) { acc | (1 << a) } else { acc })
}

/// canonical diagram of a truth table, built through the public get_or_insert only
fn bdd_build<'a, T: IteTable<'a, BddPtr<'a>> + Default>(
    b: &'a RobddBuilder<'a, T>,
    tt: TT,
    lvl: usize,
    order: &[usize],
    nv: usize,
    memo: &mut HashMap<(TT, usize), BddPtr<'a>>,
) -> BddPtr<'a> {
    if tt == 0 {
        return BddPtr::PtrFalse;
    }
    if tt == full(nv) {
        return BddPtr::PtrTrue;
    }
    if let Some(p) = memo.get(&(tt, lvl)) {
        return *p;
    }
    let v = order[lvl];
    let (lo, hi) = (cof(tt, v, false, nv), cof(tt, v, true, nv));
    let r = if lo == hi {
        bdd_build(b, lo, lvl + 1, order, nv, memo)
    } else {
        let l = bdd_build(b, lo, lvl + 1, order, nv, memo);
        let h = bdd_build(b, hi, lvl + 1, order, nv, memo);
        b.get_or_insert(BddNode::new(VarLabel::new_usize(v), l, h))
    };
    memo.insert((tt, lvl), r);
    r
}

/// like bdd_build, with the function's variable i carried by the builder's label emb[i] (a builder over many more
/// labels than the function mentions: labels >= 64, labels congruent modulo 64, ...)
fn bdd_build_emb<'a, T: IteTable<'a, BddPtr<'a>> + Default>(
    b: &'a RobddBuilder<'a, T>,
    tt: TT,
    lvl: usize,
    order: &[usize],
    nv: usize,
    emb: &[usize],
    memo: &mut HashMap<(TT, usize), BddPtr<'a>>,
) -> BddPtr<'a> {
    if tt == 0 {
        return BddPtr::PtrFalse;
    }
    if tt == full(nv) {
        return BddPtr::PtrTrue;
    }
    if let Some(p) = memo.get(&(tt, lvl)) {
        return *p;
    }
    let v = order[lvl];
    let (lo, hi) = (cof(tt, v, false, nv), cof(tt, v, true, nv));
    let r = if lo == hi {
        bdd_build_emb(b, lo, lvl + 1, order, nv, emb, memo)
    } else {
        let l = bdd_build_emb(b, lo, lvl + 1, order, nv, emb, memo);
        let h = bdd_build_emb(b, hi, lvl + 1, order, nv, emb, memo);
        b.get_or_insert(BddNode::new(VarLabel::new_usize(emb[v]), l, h))
    };
    memo.insert((tt, lvl), r);
    r
}

struct Tally {
    vectors: usize,
    steps: usize,
    mismatches: usize,
    bad: Vec<Value>,
}

fn run_bdd<'a, T: IteTable<'a, BddPtr<'a>> + Default>(
    b: &'a RobddBuilder<'a, T>,
    cfgname: &str,
    order: &[usize],
    nv: usize,
    emb: &[usize],
    vecs: &[Value],
    t: &mut Tally,
) {
    let inv: HashMap<usize, usize> = emb.iter().enumerate().map(|(i, l)| (*l, i)).collect();
    let mut memo = HashMap::new();
    let mut canon: HashMap<TT, BddPtr<'a>> = HashMap::new();
    for v in vecs {
        let op = v["op"].as_str().unwrap();
        let f = bdd_build_emb(b, tt_of(&v["f"]), 0, order, nv, emb, &mut memo);
        let g = bdd_build_emb(b, tt_of(&v["g"]), 0, order, nv, emb, &mut memo);
        let h = bdd_build_emb(b, tt_of(&v["h"]), 0, order, nv, emb, &mut memo);
        let a: Vec<usize> = v["a"].as_array().unwrap().iter().map(|x| x.as_u64().unwrap() as usize).collect();
        let exp = tt_of(&v["exp"]);
        let vl = |i: usize| VarLabel::new_usize(emb[i]);
        t.steps += 1;
        let r = guarded(|| match op {
            "cond" => b.condition(f, vl(a[0]), a[1] == 1),
            "exists" => b.exists(f, vl(a[0])),
            "neg" => b.negate(f),
            "and" => b.and(f, g),
            "or" => b.or(f, g),
            "xor" => b.xor(f, g),
            "iff" => b.iff(f, g),
            "ite" => b.ite(f, g, h),
            "compose" => b.compose(f, vl(a[0]), g),
            _ => panic!("unknown op {op}"),
        });
        let (ok, got) = match r {
            Ok(p) => {
                let got = bdd_tt_emb(p, nv, &inv);
                // same function => same pointer, in this long-lived builder (canonicity of results)
                let c = *canon.entry(got).or_insert(p);
                (got == exp && c == p, json!(got))
            }
            Err(m) => (false, json!(m)),
        };
        if !ok {
            t.mismatches += 1;
            if t.bad.len() < 10 {
                t.bad.push(json!({"cfg": cfgname, "order": order, "vector": v, "got_tt": got, "exp_tt": exp}));
            }
        }
    }
}

pub fn replay_bddvec(args: &Args) {
    let text = std::fs::read_to_string(args.str("in", "")).expect("read vectors");
    let nv = args.num("nv", 3) as usize;
    let seed = args.num("seed", 1);
    let vecs: Vec<Value> = text.lines().map(|l| serde_json::from_str(l).unwrap()).collect();
    let mut rng = Rng::new(seed ^ 0xbddc);
    // orders: every permutation for nv <= 3, identity + reverse + random ones beyond
    let mut orders: Vec<Vec<usize>> = vec![];
    if nv <= 3 {
        fn perms(n: usize) -> Vec<Vec<usize>> {
            if n == 0 {
                return vec![vec![]];
            }
            let mut out = vec![];
            for p in perms(n - 1) {
                for i in 0..=p.len() {
                    let mut q = p.clone();
                    q.insert(i, n - 1);
                    out.push(q);
                }
            }
            out
        }
        orders = perms(nv);
    } else {
        orders.push((0..nv).collect());
        orders.push((0..nv).rev().collect());
        for _ in 0..2 {
            orders.push(rng.perm(nv));
        }
    }
    let mut t = Tally { vectors: vecs.len(), steps: 0, mismatches: 0, bad: vec![] };
    let mut configs = 0;
    let ident: Vec<usize> = (0..nv).collect();
    for order in &orders {
        for (cache, tcap, ccap) in [("all", 0usize, None), ("lru", 2usize, Some(1usize))] {
            rsdd::verif::set_table_capacity(tcap);
            rsdd::verif::set_lru_capacity(ccap);
            configs += 1;
            let ord = VarOrder::new(&order.iter().map(|v| VarLabel::new_usize(*v)).collect::<Vec<_>>());
            let name = format!("{cache}/tcap{tcap}");
            if cache == "all" {
                let b = RobddBuilder::<AllIteTable<BddPtr>>::new(ord);
                run_bdd(&b, &name, order, nv, &ident, &vecs, &mut t);
            } else {
                let b = RobddBuilder::<LruIteTable<BddPtr>>::new(ord);
                run_bdd(&b, &name, order, nv, &ident, &vecs, &mut t);
            }
        }
    }
    // a builder over 72 labels in which the function's variables sit on scattered labels (some beyond 63, two of them congruent
    // modulo 64): every fifth vector
    {
        configs += 1;
        rsdd::verif::set_table_capacity(0);
        rsdd::verif::set_lru_capacity(None);
        let nlabels = 72usize;
        let base = rng.below(8);
        let mut emb: Vec<usize> = vec![base, base + 64];
        while emb.len() < nv {
            let l = rng.below(nlabels);
            if !emb.contains(&l) {
                emb.push(l);
            }
        }
        emb.truncate(nv);
        for k in (1..emb.len()).rev() {
            emb.swap(k, rng.below(k + 1));
        }
        let order = orders[orders.len() - 1].clone();
        let mut full_order: Vec<usize> = order.iter().map(|v| emb[*v]).collect();
        full_order.extend((0..nlabels).filter(|l| !emb.contains(l)));
        let b = RobddBuilder::<AllIteTable<BddPtr>>::new(VarOrder::new(&full_order.iter().map(|v| VarLabel::new_usize(*v)).collect::<Vec<_>>()));
        let some: Vec<Value> = vecs.iter().step_by(5).cloned().collect();
        run_bdd(&b, "all/72 scattered labels", &order, nv, &emb, &some, &mut t);
    }
    rsdd::verif::set_table_capacity(0);
    rsdd::verif::set_lru_capacity(None);
    println!("{}", json!({"vectors": t.vectors, "steps": t.steps, "configs": configs, "mismatches": t.mismatches, "bad": t.bad}));
}

// ---------------------------------------------------------------- smoothing (spec/GenSmooth.tla)

/// the first `n` levels of a (smoothed) diagram as a tree with complement edges pushed down;
/// below level n - or at a constant met earlier - the function that hangs there
fn unfold(p: BddPtr, n: usize, nv: usize) -> Value {
    if n == 0 {
        return json!([-1, (0..(1usize << nv)).filter(|a| bdd_eval(p, *a)).collect::<Vec<_>>()]);
    }
    match p {
        BddPtr::PtrTrue | BddPtr::PtrFalse => json!([-2, if p.is_true() { 1 } else { 0 }]), // a path that ends early
        BddPtr::Reg(node) => json!([node.var.value_usize(), unfold(node.low, n - 1, nv), unfold(node.high, n - 1, nv)]),
        BddPtr::Compl(node) => json!([node.var.value_usize(), unfold(node.low.neg(), n - 1, nv), unfold(node.high.neg(), n - 1, nv)]),
    }
}

fn run_smooth<'a, T: IteTable<'a, BddPtr<'a>> + Default>(b: &'a RobddBuilder<'a, T>, cfgname: &str, order: &[usize], nv: usize, vecs: &[&Value], t: &mut Tally) {
    let mut memo = HashMap::new();
    for v in vecs {
        let f = bdd_build(b, tt_of(&v["f"]), 0, order, nv, &mut memo);
        let n = v["n"].as_u64().unwrap() as usize;
        t.steps += 1;
        let (ok, got) = match guarded(|| b.smooth(f, n)) {
            Ok(p) => {
                let got = unfold(p, n, nv);
                (got == v["tree"] && bdd_tt(p, nv) == tt_of(&v["f"]), got)
            }
            Err(m) => (false, json!(m)),
        };
        if !ok {
            t.mismatches += 1;
            if t.bad.len() < 10 {
                t.bad.push(json!({"cfg": cfgname, "vector": v, "got_tree": got}));
            }
        }
    }
}

pub fn replay_smoothvec(args: &Args) {
    let text = std::fs::read_to_string(args.str("in", "")).expect("read vectors");
    let nv = args.num("nv", 3) as usize;
    let vecs: Vec<Value> = text.lines().map(|l| serde_json::from_str(l).unwrap()).collect();
    let mut t = Tally { vectors: vecs.len(), steps: 0, mismatches: 0, bad: vec![] };
    // group by the order the vectors were generated for
    let mut orders: Vec<Vec<usize>> = vec![];
    for v in &vecs {
        let o: Vec<usize> = v["order"].as_array().unwrap().iter().map(|x| x.as_u64().unwrap() as usize).collect();
        if !orders.contains(&o) {
            orders.push(o);
        }
    }
    let mut configs = 0;
    for order in &orders {
        let mine: Vec<&Value> = vecs
            .iter()
            .filter(|v| v["order"].as_array().unwrap().iter().map(|x| x.as_u64().unwrap() as usize).collect::<Vec<_>>() == *order)
            .collect();
        for (cache, tcap, ccap) in [("all", 0usize, None), ("lru", 2usize, Some(1usize))] {
            rsdd::verif::set_table_capacity(tcap);
            rsdd::verif::set_lru_capacity(ccap);
            configs += 1;
            let ord = VarOrder::new(&order.iter().map(|v| VarLabel::new_usize(*v)).collect::<Vec<_>>());
            let name = format!("{cache}/tcap{tcap}");
            if cache == "all" {
                let b = RobddBuilder::<AllIteTable<BddPtr>>::new(ord);
                run_smooth(&b, &name, order, nv, &mine, &mut t);
            } else {
                let b = RobddBuilder::<LruIteTable<BddPtr>>::new(ord);
                run_smooth(&b, &name, order, nv, &mine, &mut t);
            }
        }
    }
    // WIDE: a builder over 70 labels; the printed function sits on scattered labels (two congruent modulo 64); smooth over the first n <= 10
    // levels. Checked structurally (every node on one of the first n levels has both children
    // exactly one level further down, or at the terminals when it is on level n - 1; nothing is tested twice), on the function (unchanged on
    // the printed variables, independent of every other label), and on the count with non-normalised weights in the field Z_32749:
    // (sum over the printed models of the product of their literal weights) x (product over every other smoothed level of low + high).
    {
        use rsdd::util::semirings::{FiniteField, Semiring};
        let mut rng = Rng::new(args.num("seed", 1) ^ 0x5007);
        let nlabels = 70usize;
        let distinct: Vec<&Value> = {
            let mut seen = std::collections::HashSet::new();
            vecs.iter().filter(|v| seen.insert(tt_of(&v["f"]))).collect()
        };
        configs += 1;
        rsdd::verif::set_table_capacity(0);
        rsdd::verif::set_lru_capacity(None);
        let base = rng.below(6);
        let mut emb: Vec<usize> = vec![base, base + 64];
        while emb.len() < nv {
            let l = rng.below(nlabels);
            if !emb.contains(&l) {
                emb.push(l);
            }
        }
        emb.truncate(nv);
        // smoothing is exponential in the number of levels it fills in: only the first `front` = 10 levels are ever smoothed; they hold the
        // function's labels and further labels (one congruent to a function label modulo 64), the other 60 labels follow
        let front = 10usize;
        let mut head: Vec<usize> = emb.clone();
        let twin = (emb[0] + 64) % 128 % nlabels;
        if !head.contains(&twin) {
            head.push(twin);
        }
        while head.len() < front {
            let l = rng.below(nlabels);
            if !head.contains(&l) {
                head.push(l);
            }
        }
        for k in (1..head.len()).rev() {
            head.swap(k, rng.below(k + 1));
        }
        let mut order: Vec<usize> = head.clone();
        order.extend(rng.perm(nlabels).into_iter().filter(|l| !head.contains(l)));
        let level_of: HashMap<usize, usize> = order.iter().enumerate().map(|(i, l)| (*l, i)).collect();
        let b = RobddBuilder::<AllIteTable<BddPtr>>::new(VarOrder::new(&order.iter().map(|v| VarLabel::new_usize(*v)).collect::<Vec<_>>()));
        // the function's variables in the builder's order
        let mut core_order: Vec<usize> = (0..nv).collect();
        core_order.sort_by_key(|v| level_of[&emb[*v]]);
        let w: Vec<(u128, u128)> = (0..nlabels).map(|_| (1 + rng.below(9) as u128, 1 + rng.below(9) as u128)).collect();
        let params = rsdd::repr::WmcParams::<FiniteField<32749>>::new(w.iter().enumerate().map(|(l, (lo, hi))| (VarLabel::new_usize(l), (FiniteField::new(*lo), FiniteField::new(*hi)))).collect());
        let mut memo = HashMap::new();
        for (k, v) in distinct.iter().enumerate().take(64) {
            let tt = tt_of(&v["f"]);
            let n = match k % 4 { 0 => front, 1 => front - 1, _ => rng.below(front + 1) };
            t.steps += 1;
            let r = guarded(|| {
                let f = bdd_build_emb(&b, tt, 0, &core_order, nv, &emb, &mut memo);
                let sm = b.smooth(f, n);
                // structure
                let mut seen: HashMap<usize, bool> = HashMap::new();
                fn walk(p: BddPtr, lvl: usize, n: usize, level_of: &HashMap<usize, usize>, seen: &mut HashMap<usize, bool>) -> bool {
                    match p {
                        BddPtr::PtrTrue | BddPtr::PtrFalse => lvl >= n, // a terminal above level n: a skipped level
                        BddPtr::Reg(nd) | BddPtr::Compl(nd) => {
                            let my = level_of[&nd.var.value_usize()];
                            if lvl < n && my != lvl {
                                return false; // some level in lvl .. my is skipped (or the order is violated)
                            }
                            if lvl >= n && my < lvl {
                                return false;
                            }
                            let key = nd as *const BddNode as usize;
                            if let Some(ok) = seen.get(&key) {
                                return *ok;
                            }
                            let next = my + 1;
                            let ok = walk(nd.low, next, n, level_of, seen) && walk(nd.high, next, n, level_of, seen);
                            seen.insert(key, ok);
                            ok
                        }
                    }
                }
                let structure = walk(sm, 0, n, &level_of, &mut seen);
                // function: on the printed variables, with every other label all-false / all-true
                let mut fun_ok = true;
                for fill in [false, true] {
                    for a in 0..(1usize << nv) {
                        let mut asg = vec![fill; nlabels];
                        for x in 0..nv {
                            asg[emb[x]] = (a >> x) & 1 == 1;
                        }
                        let mut cur = sm;
                        let mut neg = false;
                        let val = loop {
                            match cur {
                                BddPtr::PtrTrue => break !neg,
                                BddPtr::PtrFalse => break neg,
                                BddPtr::Reg(nd) | BddPtr::Compl(nd) => {
                                    if matches!(cur, BddPtr::Compl(_)) {
                                        neg = !neg;
                                    }
                                    cur = if asg[nd.var.value_usize()] { nd.high } else { nd.low };
                                }
                            }
                        };
                        if val != ((tt >> a) & 1 == 1) {
                            fun_ok = false;
                        }
                    }
                }
                // count: variables of the function below level n keep the unsmoothed semantics (only tested where f depends on them)
                let got = sm.unsmoothed_wmc(&params).value();
                (structure, fun_ok, got)
            });
            // expected count when every variable of the function lies on the first n levels (otherwise the count is not compared)
            let all_inside = (0..nv).all(|x| level_of[&emb[x]] < n);
            let p = 32749u128;
            let mut exp = 0u128;
            for a in 0..(1usize << nv) {
                if (tt >> a) & 1 == 1 {
                    let mut prod = 1u128;
                    for x in 0..nv {
                        prod = prod * (if (a >> x) & 1 == 1 { w[emb[x]].1 } else { w[emb[x]].0 }) % p;
                    }
                    exp = (exp + prod) % p;
                }
            }
            for lvl in 0..n {
                let l = order[lvl];
                if !emb.contains(&l) {
                    exp = exp * ((w[l].0 + w[l].1) % p) % p;
                }
            }
            let (ok, got) = match r {
                Ok((st, fu, cnt)) => (st && fu && (!all_inside || cnt == exp), json!({"levels_each_once_in_order": st, "function_kept": fu, "count_mod_32749": cnt.to_string(), "expected": if all_inside { exp.to_string() } else { "n/a".to_string() }})),
                Err(m) => (false, json!({"panic": m})),
            };
            if !ok {
                t.mismatches += 1;
                if t.bad.len() < 10 {
                    t.bad.push(json!({"cfg": format!("smooth over the first {n} of 70 levels, variables on labels {emb:?}"), "vector": v, "got": got}));
                }
            }
        }
    }
    rsdd::verif::set_table_capacity(0);
    rsdd::verif::set_lru_capacity(None);
    println!("{}", json!({"vectors": t.vectors, "steps": t.steps, "configs": configs, "mismatches": t.mismatches, "bad": t.bad}));
}

// ---------------------------------------------------------------- marginal MAP / branch and bound (spec/GenMmap.tla)

fn run_mmap<'a, T: IteTable<'a, BddPtr<'a>> + Default>(b: &'a RobddBuilder<'a, T>, cfgname: &str, order: &[usize], nv: usize, emb: &[usize], nlabels: usize, vecs: &[Value], t: &mut Tally) {
    use rsdd::util::semirings::RealSemiring;
    let mut memo = HashMap::new();
    for v in vecs {
        let f = bdd_build_emb(b, tt_of(&v["f"]), 0, order, nv, emb, &mut memo);
        let q: Vec<usize> = v["q"].as_array().unwrap().iter().map(|x| x.as_u64().unwrap() as usize).collect();
        let qv: Vec<VarLabel> = q.iter().map(|x| VarLabel::new_usize(emb[*x])).collect();
        let w: Vec<(f64, f64)> = v["w"].as_array().unwrap().iter().map(|p| (p[0][0].as_f64().unwrap() / 8.0, p[1][0].as_f64().unwrap() / 8.0)).collect();
        // labels the function does not mention carry normalised weights
        let mut wm: HashMap<VarLabel, (RealSemiring, RealSemiring)> = (0..nlabels).map(|l| (VarLabel::new_usize(l), (RealSemiring(0.5), RealSemiring(0.5)))).collect();
        for (i, (l, h)) in w.iter().enumerate() {
            wm.insert(VarLabel::new_usize(emb[i]), (RealSemiring(*l), RealSemiring(*h)));
        }
        let params = rsdd::repr::WmcParams::<RealSemiring>::new(wm);
        let nv_builder = nlabels;
        let scores: Vec<f64> = v["scores"].as_array().unwrap().iter().map(|x| x.as_f64().unwrap()).collect();
        let opt = v["opt"].as_f64().unwrap();
        let scale = 8f64.powi(nv as i32);
        for which in ["marginal_map", "bb"] {
            t.steps += 1;
            let r = guarded(|| {
                if which == "bb" {
                    let (val, m) = f.bb(&qv, nv_builder, &params);
                    (val.0, m)
                } else {
                    f.marginal_map(&qv, nv_builder, &params)
                }
            });
            let (ok, got) = match r {
                Ok((val, m)) => {
                    // the returned assignment: exactly the query variables, and its score is the optimum
                    let mut bits = 0usize;
                    let mut shape_ok = true;
                    for (k, x) in q.iter().enumerate() {
                        match m.get(VarLabel::new_usize(emb[*x])) {
                            Some(true) => bits |= 1 << k,
                            Some(false) => {}
                            None => shape_ok = false,
                        }
                    }
                    let qlabels: Vec<usize> = q.iter().map(|x| emb[*x]).collect();
                    for l in 0..nlabels {
                        if !qlabels.contains(&l) && m.get(VarLabel::new_usize(l)).is_some() {
                            shape_ok = false;
                        }
                    }
                    (shape_ok && val * scale == opt && scores[bits] == opt, json!({"value_x8^n": val * scale, "assignment_bits": bits, "call": which, "labels": emb}))
                }
                Err(m) => (false, json!({"panic": m, "call": which})),
            };
            if !ok {
                t.mismatches += 1;
                if t.bad.len() < 10 {
                    t.bad.push(json!({"cfg": cfgname, "order": order, "vector": v, "got": got}));
                }
            }
        }
    }
}

pub fn replay_mmapvec(args: &Args) {
    let text = std::fs::read_to_string(args.str("in", "")).expect("read vectors");
    let nv = args.num("nv", 3) as usize;
    let seed = args.num("seed", 1);
    let vecs: Vec<Value> = text.lines().map(|l| serde_json::from_str(l).unwrap()).collect();
    let mut rng = Rng::new(seed ^ 0x33a9);
    let orders: Vec<Vec<usize>> = vec![(0..nv).collect(), (0..nv).rev().collect(), rng.perm(nv)];
    let mut t = Tally { vectors: vecs.len(), steps: 0, mismatches: 0, bad: vec![] };
    let mut configs = 0;
    let ident: Vec<usize> = (0..nv).collect();
    for (i, order) in orders.iter().enumerate() {
        let (tcap, ccap) = if i == 1 { (2usize, Some(1usize)) } else { (0, None) };
        rsdd::verif::set_table_capacity(tcap);
        rsdd::verif::set_lru_capacity(ccap);
        configs += 1;
        let ord = VarOrder::new(&order.iter().map(|v| VarLabel::new_usize(*v)).collect::<Vec<_>>());
        if i == 1 {
            let b = RobddBuilder::<LruIteTable<BddPtr>>::new(ord);
            run_mmap(&b, "lru/tcap2", order, nv, &ident, nv, &vecs, &mut t);
        } else {
            let b = RobddBuilder::<AllIteTable<BddPtr>>::new(ord);
            run_mmap(&b, "all/tcap0", order, nv, &ident, nv, &vecs, &mut t);
        }
    }
    // the same functions in a builder over 72 labels: the function's variables sit on scattered labels, some beyond 63 and
    // congruent modulo 64 to another one (packed bit sets, truncated labels); every third vector
    {
        configs += 1;
        rsdd::verif::set_table_capacity(0);
        rsdd::verif::set_lru_capacity(None);
        let nlabels = 72usize;
        let base = rng.below(8);
        let mut emb: Vec<usize> = vec![base, base + 64];
        while emb.len() < nv {
            let l = rng.below(nlabels);
            if !emb.contains(&l) {
                emb.push(l);
            }
        }
        emb.truncate(nv);
        for k in (1..emb.len()).rev() {
            emb.swap(k, rng.below(k + 1));
        }
        let order = &orders[2];
        let mut full_order: Vec<usize> = order.iter().map(|v| emb[*v]).collect();
        full_order.extend((0..nlabels).filter(|l| !emb.contains(l)));
        let b = RobddBuilder::<AllIteTable<BddPtr>>::new(VarOrder::new(&full_order.iter().map(|v| VarLabel::new_usize(*v)).collect::<Vec<_>>()));
        let some: Vec<Value> = vecs.iter().step_by(3).cloned().collect();
        run_mmap(&b, "72 labels, scattered", order, nv, &emb, nlabels, &some, &mut t);
    }
    rsdd::verif::set_table_capacity(0);
    rsdd::verif::set_lru_capacity(None);
    println!("{}", json!({"vectors": t.vectors, "steps": t.steps, "configs": configs, "mismatches": t.mismatches, "bad": t.bad}));
}

// ---------------------------------------------------------------- maximum expected utility (spec/GenMeu.tla)

pub fn replay_meuvec(args: &Args) {
    use rsdd::util::semirings::ExpectedUtility;
    let text = std::fs::read_to_string(args.str("in", "")).expect("read vectors");
    let nv = args.num("nv", 3) as usize;
    let vecs: Vec<Value> = text.lines().map(|l| serde_json::from_str(l).unwrap()).collect();
    let mut t = Tally { vectors: vecs.len(), steps: 0, mismatches: 0, bad: vec![] };
    if vecs.is_empty() {
        println!("{}", json!({"vectors": 0, "steps": 0, "configs": 0, "mismatches": 0, "bad": []}));
        return;
    }
    let order: Vec<usize> = vecs[0]["order"].as_array().unwrap().iter().map(|x| x.as_u64().unwrap() as usize).collect();
    let ord = VarOrder::new(&order.iter().map(|v| VarLabel::new_usize(*v)).collect::<Vec<_>>());
    let b = RobddBuilder::<AllIteTable<BddPtr>>::new(ord);
    let mut memo = HashMap::new();
    let scale = 8f64.powi(nv as i32);
    for v in &vecs {
        let f = bdd_build(&b, tt_of(&v["f"]), 0, &order, nv, &mut memo);
        let q: Vec<usize> = v["q"].as_array().unwrap().iter().map(|x| x.as_u64().unwrap() as usize).collect();
        let qv: Vec<VarLabel> = q.iter().map(|x| VarLabel::new_usize(*x)).collect();
        let params = rsdd::repr::WmcParams::<ExpectedUtility>::new(HashMap::from_iter(v["w"].as_array().unwrap().iter().enumerate().map(|(i, p)| {
            let c = |x: &Value| x.as_f64().unwrap() / 8.0;
            (VarLabel::new_usize(i), (ExpectedUtility(c(&p[0][0]), c(&p[0][1])), ExpectedUtility(c(&p[1][0]), c(&p[1][1]))))
        })));
        let scores: Vec<f64> = v["scores"].as_array().unwrap().iter().map(|x| x.as_f64().unwrap()).collect();
        let opt = v["opt"].as_f64().unwrap();
        for which in ["meu", "bb"] {
            t.steps += 1;
            let r = guarded(|| if which == "bb" { f.bb(&qv, nv, &params) } else { f.meu(&qv, nv, &params) });
            let (ok, got) = match r {
                Ok((val, m)) => {
                    let mut bits = 0usize;
                    let mut complete = true;
                    for (k, x) in q.iter().enumerate() {
                        match m.get(VarLabel::new_usize(*x)) {
                            Some(true) => bits |= 1 << k,
                            Some(false) => {}
                            None => complete = false,
                        }
                    }
                    (complete && val.1 * scale == opt && scores[bits] == opt, json!({"utility_x8^n": val.1 * scale, "assignment_bits": bits, "call": which}))
                }
                Err(m) => (false, json!({"panic": m, "call": which})),
            };
            if !ok {
                t.mismatches += 1;
                if t.bad.len() < 10 {
                    t.bad.push(json!({"order": order, "vector": v, "got": got}));
                }
            }
        }
    }
    println!("{}", json!({"vectors": t.vectors, "steps": t.steps, "configs": 1, "mismatches": t.mismatches, "bad": t.bad}));
}

// ---------------------------------------------------------------- long histories of one hash-identified builder (spec/GenStress.tla)

fn sem_build<'a, B: rsdd::builder::sdd::SddBuilder<'a>>(b: &'a B, tt: TT, v: usize, nv: usize, memo: &mut HashMap<(TT, usize), SddPtr<'a>>) -> SddPtr<'a> {
    sem_build_emb(b, tt, v, nv, &[], memo)
}
fn sem_build_emb<'a, B: rsdd::builder::sdd::SddBuilder<'a>>(b: &'a B, tt: TT, v: usize, nv: usize, emb: &[usize], memo: &mut HashMap<(TT, usize), SddPtr<'a>>) -> SddPtr<'a> {
    if tt == 0 {
        return SddPtr::PtrFalse;
    }
    if tt == full(nv) {
        return SddPtr::PtrTrue;
    }
    if let Some(p) = memo.get(&(tt, v)) {
        return *p;
    }
    let (lo, hi) = (cof(tt, v, false, nv), cof(tt, v, true, nv));
    let r = if lo == hi {
        sem_build_emb(b, lo, v + 1, nv, emb, memo)
    } else {
        let l = sem_build_emb(b, lo, v + 1, nv, emb, memo);
        let h = sem_build_emb(b, hi, v + 1, nv, emb, memo);
        let x = SddPtr::Var(VarLabel::new_usize(if emb.is_empty() { v } else { emb[v] }), true);
        b.or(b.and(x, h), b.and(x.neg(), l))
    };
    memo.insert((tt, v), r);
    r
}

/// the same long histories in ONE canonical builder with its DEFAULT table sizes: the unique table really grows (at 91 751, 183 501,
/// 367 002, ... nodes) and clusters get long; every result must denote what TLC printed (C01 / C03) and two results denote the same
/// function iff they are the same pointer (C02 / C04)
fn stress_canonical(args: &Args, vecs: &[Value], nv: usize, which: &str) {
    let mut t = Tally { vectors: vecs.len(), steps: 0, mismatches: 0, bad: vec![] };
    let mut rng = Rng::new(args.num("seed", 1) ^ 0xb16);
    let mut configs = 0;
    rsdd::verif::set_table_capacity(0);
    rsdd::verif::set_lru_capacity(None);
    let mut nodes_seen = 0usize;
    // --check canon (default, C02 / C04) | fn (C01: every result denotes what TLC printed) | twin (C16: the builder with the lossy cache
    // and the one that caches every application return the same functions, vector by vector)
    let check = args.str("check", "canon");
    let mut twin_tts: Vec<Vec<TT>> = vec![];
    if which == "bdd" {
        for cache in ["all", "lru"] {
            configs += 1;
            let order = rng.perm(nv);
            let ord = VarOrder::new(&order.iter().map(|v| VarLabel::new_usize(*v)).collect::<Vec<_>>());
            macro_rules! run {
                ($b:expr) => {{
                    let b = $b;
                    let mut memo = HashMap::new();
                    let mut canon: HashMap<TT, BddPtr> = HashMap::new();
                    for v in vecs {
                        let (tf, tg) = (tt_of(&v["f"]), tt_of(&v["g"]));
                        t.steps += 1;
                        let r = guarded(|| {
                            let f = bdd_build(&b, tf, 0, &order, nv, &mut memo);
                            let g = bdd_build(&b, tg, 0, &order, nv, &mut memo);
                            [f, g, b.and(f, g), b.or(f, g), b.negate(f), b.xor(f, g)]
                        });
                        // canonicity (C02): the key is the function a result ACTUALLY denotes (a wrong function is C01's business)
                        let want: Vec<TT> = match &r { Ok(ps) => ps.iter().map(|p| bdd_tt(*p, nv)).collect(), Err(_) => vec![] };
                        let printed = [tf, tg, tt_of(&v["conj"]), tt_of(&v["disj"]), !tf & full(nv), (tf ^ tg) & full(nv)];
                        let ok = match &r {
                            Ok(ps) => match check.as_str() {
                                "fn" => want.iter().zip(printed.iter()).all(|(a, b)| a == b),
                                "twin" => {
                                    if cache == "all" {
                                        twin_tts.push(want.clone());
                                        true
                                    } else {
                                        twin_tts.get(t.steps - 1 - vecs.len()).map_or(true, |x| *x == want)
                                    }
                                }
                                _ => ps.iter().zip(want.iter()).all(|(p, w)| *canon.entry(*w).or_insert(*p) == *p),
                            },
                            Err(_) => false,
                        };
                        if !ok {
                            t.mismatches += 1;
                            if t.bad.len() < 10 {
                                t.bad.push(json!({"cfg": format!("one RobddBuilder ({cache} cache, default table sizes, order {order:?}) for the whole history"), "vector": v,
                                    "got": match r { Ok(ps) => json!({"tts": ps.iter().map(|p| bdd_tt(*p, nv)).collect::<Vec<_>>(),
                                                                      "same_pointer_as_first_seen": ps.iter().zip(want.iter()).map(|(p, w)| canon.get(w).map_or(true, |c| c == p)).collect::<Vec<_>>()}),
                                                     Err(m) => json!({"panic": m}) }}));
                            }
                        }
                    }
                    nodes_seen = nodes_seen.max(canon.len());
                }};
            }
            if cache == "all" {
                run!(RobddBuilder::<AllIteTable<BddPtr>>::new(ord));
            } else {
                run!(RobddBuilder::<rsdd::builder::cache::LruIteTable<BddPtr>>::new(ord));
            }
        }
    } else {
        let labels: Vec<VarLabel> = rng.perm(nv).into_iter().map(VarLabel::new_usize).collect();
        for (name, vt) in [("right-linear", VTree::right_linear(&labels)), ("even split", VTree::even_split(&labels, 2))] {
            configs += 1;
            let bm = CompressionSddBuilder::new(vt);
            let b = &bm;
            let mut memo = HashMap::new();
            let mut canon: HashMap<TT, SddPtr> = HashMap::new();
            for v in vecs {
                let (tf, tg) = (tt_of(&v["f"]), tt_of(&v["g"]));
                t.steps += 1;
                let r = guarded(|| {
                    let f = sdd_build(b, tf, 0, nv, &mut memo);
                    let g = sdd_build(b, tg, 0, nv, &mut memo);
                    [f, g, b.and(f, g), b.or(f, g), b.negate(f)]
                });
                let want: Vec<TT> = match &r { Ok(ps) => ps.iter().map(|p| sdd_tt(*p, nv)).collect(), Err(_) => vec![] };
                let ok = match &r {
                    Ok(ps) => ps.iter().zip(want.iter()).all(|(p, w)| *canon.entry(*w).or_insert(*p) == *p),
                    Err(_) => false,
                };
                if !ok {
                    t.mismatches += 1;
                    if t.bad.len() < 10 {
                        t.bad.push(json!({"cfg": format!("one CompressionSddBuilder ({name} vtree, default table sizes) for the whole history"), "vector": v,
                            "got": match r { Ok(ps) => json!({"tts": ps.iter().map(|p| sdd_tt(*p, nv)).collect::<Vec<_>>(),
                                                              "same_pointer_as_first_seen": ps.iter().zip(want.iter()).map(|(p, w)| canon.get(w).map_or(true, |c| c == p)).collect::<Vec<_>>()}),
                                             Err(m) => json!({"panic": m}) }}));
                    }
                }
            }
            nodes_seen = nodes_seen.max(canon.len());
        }
    }
    println!("{}", json!({"vectors": t.vectors, "steps": t.steps, "configs": configs, "mismatches": t.mismatches, "bad": t.bad, "distinct_functions": nodes_seen}));
}

pub fn replay_stressvec(args: &Args) {
    use rsdd::builder::sdd::SemanticSddBuilder;
    let text = std::fs::read_to_string(args.str("in", "")).expect("read vectors");
    let nv = args.num("nv", 6) as usize;
    let vecs: Vec<Value> = text.lines().map(|l| serde_json::from_str(l).unwrap()).collect();
    let which = args.str("which", "sem");
    if which != "sem" {
        return stress_canonical(args, &vecs, nv, &which);
    }
    let mut t = Tally { vectors: vecs.len(), steps: 0, mismatches: 0, bad: vec![] };
    let labels: Vec<VarLabel> = (0..nv).map(VarLabel::new_usize).collect();
    let mut configs = 0;
    // the third builder works over 70 labels (random vtree); the functions' variables sit on scattered labels, two of them congruent
    // modulo 64, some beyond 63: a hash-identified builder must stay correct whatever the size of the label space (a quarter of the vectors)
    let mut rng = Rng::new(args.num("seed", 1) ^ 0x57e5);
    let nlabels = 70usize;
    let base = rng.below(6);
    let mut wemb: Vec<usize> = vec![base, base + 64];
    while wemb.len() < nv {
        let l = rng.below(nlabels);
        if !wemb.contains(&l) {
            wemb.push(l);
        }
    }
    for k in (1..wemb.len()).rev() {
        wemb.swap(k, rng.below(k + 1));
    }
    let wlab = rng.perm(nlabels);
    let wide_vt = rand_vtree(&mut rng, &wlab);
    for (name, vt, emb, stride) in [("right-linear", VTree::right_linear(&labels), vec![], 1usize), ("even split", VTree::even_split(&labels, 2), vec![], 1),
                                    ("random vtree over 70 labels, scattered variables", wide_vt, wemb, 4)] {
        configs += 1;
        let b = SemanticSddBuilder::<{ rsdd::constants::primes::U64_LARGEST }>::new(vt);
        let mut memo = HashMap::new();
        for v in vecs.iter().step_by(stride) {
            let (tf, tg) = (tt_of(&v["f"]), tt_of(&v["g"]));
            t.steps += 1;
            let r = guarded(|| {
                let f = sem_build_emb(&b, tf, 0, nv, &emb, &mut memo);
                let g = sem_build_emb(&b, tg, 0, nv, &emb, &mut memo);
                (sdd_tt_emb(f, nv, &emb), sdd_tt_emb(g, nv, &emb), sdd_tt_emb(b.and(f, g), nv, &emb), sdd_tt_emb(b.or(f, g), nv, &emb), sdd_tt_emb(b.negate(f), nv, &emb))
            });
            let ok = match &r {
                Ok((a, c, x, y, n)) => *a == tf && *c == tg && *x == tt_of(&v["conj"]) && *y == tt_of(&v["disj"]) && *n == (!tf & full(nv)),
                Err(_) => false,
            };
            if !ok {
                t.mismatches += 1;
                if t.bad.len() < 10 {
                    t.bad.push(json!({"cfg": format!("semantic SDD builder, {name} vtree, one builder for the whole history"), "vector": v,
                                      "got": match r { Ok(x) => json!({"f_g_and_or_neg_tts": [x.0, x.1, x.2, x.3, x.4]}), Err(m) => json!({"panic": m}) }}));
                }
            }
        }
    }
    println!("{}", json!({"vectors": t.vectors, "steps": t.steps, "configs": configs, "mismatches": t.mismatches, "bad": t.bad}));
}

// ---------------------------------------------------------------- weighted counts (spec/GenWmc.tla)

fn weight_spec(v: &Value) -> crate::bdd_rec::WeightSpec {
    let kind: &'static str = match v["sr"].as_str().unwrap() {
        "real" => "real",
        "complex" => "complex",
        "eu" => "eu",
        "ff" => "ff",
        "bool" => "bool",
        "poly" => "poly",
        "rat" => "rat",
        k => panic!("unknown semiring kind {k}"),
    };
    let comps = |x: &Value| x.as_array().unwrap().iter().map(|c| c.as_i64().unwrap()).collect::<Vec<i64>>();
    crate::bdd_rec::WeightSpec {
        kind,
        p: v["p"].as_u64().unwrap(),
        wexp: v["wexp"].as_u64().unwrap() as u32,
        w: v["w"].as_array().unwrap().iter().map(|p| (comps(&p[0]), comps(&p[1]))).collect(),
    }
}

/// count with the library and compare, component by component, with what TLC computed from the definition
fn count_matches<'a, P: DDNNFPtr<'a>>(x: P, ws: &crate::bdd_rec::WeightSpec, nv: usize, exp: &Value) -> Result<(), Value> {
    let mut ev = json!({});
    match crate::bdd_rec::count_in(x, ws, nv, &mut ev) {
        Ok(()) => {
            let ok = ev["val"] == *exp && ev.get("den").map_or(true, |d| d == 1) && ev.get("tail0").map_or(true, |t| t == true);
            if ok { Ok(()) } else { Err(ev) }
        }
        Err(m) => Err(json!({"panic": m})),
    }
}

fn td_wmc<'a, B: rsdd::builder::decision_nnf::DecisionNNFBuilder<'a>>(b: &'a B, name: String, nv: usize, vecs: &[Value], t: &mut Tally) {
    use rsdd::repr::{Cnf, Literal};
    for v in vecs.iter().filter(|v| v["op"] == "wmc") {
        let tt = tt_of(&v["f"]);
        let mut cl: Vec<Vec<Literal>> = (0..(1usize << nv))
            .filter(|a| (tt >> a) & 1 == 0)
            .map(|a| (0..nv).map(|x| Literal::new(VarLabel::new_usize(x), (a >> x) & 1 == 0)).collect())
            .collect();
        if cl.is_empty() {
            cl.push(vec![Literal::new(VarLabel::new_usize(nv - 1), true), Literal::new(VarLabel::new_usize(nv - 1), false)]);
        }
        let cnf = Cnf::new(&cl);
        t.steps += 1;
        let got = match guarded(|| b.compile_cnf_topdown(&cnf)) {
            Ok(x) => count_matches(x, &weight_spec(v), nv, &v["val"]).err(),
            Err(m) => Some(json!({"panic": m})),
        };
        if let Some(got) = got {
            t.mismatches += 1;
            if t.bad.len() < 10 {
                t.bad.push(json!({"cfg": name, "vector": v, "got": got}));
            }
        }
    }
}

pub fn replay_wmcvec(args: &Args) {
    use rsdd::builder::decision_nnf::{SemanticDecisionNNFBuilder, StandardDecisionNNFBuilder};
    let text = std::fs::read_to_string(args.str("in", "")).expect("read vectors");
    let nv = args.num("nv", 3) as usize;
    let vecs: Vec<Value> = text.lines().map(|l| serde_json::from_str(l).unwrap()).collect();
    let mut t = Tally { vectors: vecs.len(), steps: 0, mismatches: 0, bad: vec![] };
    let mut configs = 0;
    let mut bad = |t: &mut Tally, cfg: String, v: &Value, got: Value| {
        t.mismatches += 1;
        if t.bad.len() < 10 {
            t.bad.push(json!({"cfg": cfg, "vector": v, "got": got}));
        }
    };
    // every order named by the vectors (TLC prints all permutations)
    let mut orders: Vec<(String, Vec<usize>)> = vec![];
    if let Some(v) = vecs.iter().find(|v| v["op"] == "uwmc") {
        for (k, o) in v["orders"].as_object().unwrap() {
            orders.push((k.clone(), o.as_array().unwrap().iter().map(|x| x.as_u64().unwrap() as usize).collect()));
        }
    } else {
        orders.push(("identity".into(), (0..nv).collect()));
    }
    let vo = |o: &Vec<usize>| VarOrder::new(&o.iter().map(|v| VarLabel::new_usize(*v)).collect::<Vec<_>>());
    // --- BDDs under every order: normalised counts = wmc, arbitrary weights = the order's unsmoothed count
    for (i, (key, o)) in orders.iter().enumerate() {
        configs += 1;
        rsdd::verif::set_table_capacity(if i % 2 == 0 { 0 } else { 2 });
        let b = RobddBuilder::<AllIteTable<BddPtr>>::new(vo(o));
        let mut memo = HashMap::new();
        for v in &vecs {
            let f = bdd_build(&b, tt_of(&v["f"]), 0, o, nv, &mut memo);
            let ws = weight_spec(v);
            let exp = if v["op"] == "wmc" { &v["val"] } else { &v["vals"][key.as_str()] };
            t.steps += 1;
            if let Err(got) = count_matches(f, &ws, nv, exp) {
                bad(&mut t, format!("bdd order {o:?}"), v, got);
            }
            // the complement shares every node: its count under normalised weights is checked through the same fold
            if v["op"] == "wmc" && ws.kind == "real" {
                t.steps += 1;
                let total: i64 = 8i64.pow(nv as u32 * ws.wexp);
                let e = json!([total - v["val"][0].as_i64().unwrap()]);
                if let Err(got) = count_matches(f.neg(), &ws, nv, &e) {
                    bad(&mut t, format!("bdd order {o:?} (negation)"), v, got);
                }
            }
        }
    }
    // --- WIDE: the same functions and weights in builders over 72 labels; variable i sits on label emb[i] (two labels congruent modulo 64,
    // some beyond 63), every other label carries the weights of variable 0 and is mentioned by no diagram: BDD counts (both kinds of
    // vectors) and SDD counts (normalised weights) must not change
    if nv >= 2 {
        let nlabels = 72usize;
        let mut rng = Rng::new(args.num("seed", 1) ^ 0x3a1d);
        for (i, (key, o)) in orders.iter().enumerate().take(2) {
            configs += 1;
            let base = rng.below(8);
            let mut emb: Vec<usize> = vec![base, base + 64];
            while emb.len() < nv {
                let l = rng.below(nlabels);
                if !emb.contains(&l) {
                    emb.push(l);
                }
            }
            for k in (1..emb.len()).rev() {
                emb.swap(k, rng.below(k + 1));
            }
            let widen = |ws: &crate::bdd_rec::WeightSpec| {
                let mut w = vec![ws.w[0].clone(); nlabels];
                for (v, l) in emb.iter().enumerate() {
                    w[*l] = ws.w[v].clone();
                }
                crate::bdd_rec::WeightSpec { kind: ws.kind, p: ws.p, wexp: ws.wexp, w }
            };
            rsdd::verif::set_table_capacity(0);
            if i == 0 {
                let mut full_order: Vec<usize> = rng.perm(nlabels);
                // the mentioned labels keep the relative order o
                let slots: Vec<usize> = full_order.iter().enumerate().filter(|(_, l)| emb.contains(l)).map(|(k, _)| k).collect();
                for (k, v) in slots.iter().zip(o.iter()) {
                    full_order[*k] = emb[*v];
                }
                let b = RobddBuilder::<AllIteTable<BddPtr>>::new(vo(&full_order));
                let mut memo = HashMap::new();
                for v in vecs.iter().step_by(2) {
                    let f = bdd_build_emb(&b, tt_of(&v["f"]), 0, o, nv, &emb, &mut memo);
                    let exp = if v["op"] == "wmc" { &v["val"] } else { &v["vals"][key.as_str()] };
                    t.steps += 1;
                    if let Err(got) = count_matches(f, &widen(&weight_spec(v)), nv, exp) {
                        bad(&mut t, format!("bdd WIDE 72 labels emb {emb:?} order {o:?}"), v, got);
                    }
                }
            } else {
                let lab = rng.perm(nlabels);
                let bm = CompressionSddBuilder::new(rand_vtree(&mut rng, &lab));
                let b = &bm;
                let mut memo = HashMap::new();
                for v in vecs.iter().filter(|v| v["op"] == "wmc").step_by(2) {
                    let f = sdd_build_emb(b, tt_of(&v["f"]), 0, nv, &emb, &mut memo);
                    t.steps += 1;
                    if let Err(got) = count_matches(f, &widen(&weight_spec(v)), nv, &v["val"]) {
                        bad(&mut t, format!("sdd WIDE random vtree over 72 labels emb {emb:?}"), v, got);
                    }
                }
            }
        }
    }
    // --- SDDs under three vtree shapes, normalised weights
    for (i, (_, o)) in orders.iter().enumerate().take(3) {
        configs += 1;
        let labels: Vec<VarLabel> = o.iter().map(|v| VarLabel::new_usize(*v)).collect();
        let vt = match i {
            0 => VTree::right_linear(&labels),
            1 => VTree::left_linear(&labels),
            _ => VTree::even_split(&labels, 1),
        };
        rsdd::verif::set_table_capacity(0);
        let bm = CompressionSddBuilder::new(vt);
        let b = &bm;
        let mut memo = HashMap::new();
        for v in vecs.iter().filter(|v| v["op"] == "wmc") {
            let f = sdd_build(b, tt_of(&v["f"]), 0, nv, &mut memo);
            t.steps += 1;
            if let Err(got) = count_matches(f, &weight_spec(v), nv, &v["val"]) {
                bad(&mut t, format!("sdd vtree shape {i} over {o:?}"), v, got);
            }
        }
    }
    // --- top-down d-DNNFs of the canonical CNF of f (one clause per falsifying assignment), normalised weights
    for (i, (_, o)) in orders.iter().enumerate().take(4) {
        configs += 1;
        if i % 2 == 0 {
            let b = StandardDecisionNNFBuilder::new(vo(o));
            td_wmc(&b, format!("top-down std order {o:?}"), nv, &vecs, &mut t);
        } else {
            let b = SemanticDecisionNNFBuilder::<{ rsdd::constants::primes::U64_LARGEST }>::new(vo(o));
            td_wmc(&b, format!("top-down sem order {o:?}"), nv, &vecs, &mut t);
        }
    }
    rsdd::verif::set_table_capacity(0);
    println!("{}", json!({"vectors": t.vectors, "steps": t.steps, "configs": configs, "mismatches": t.mismatches, "bad": t.bad}));
}

// ---------------------------------------------------------------- standard triples (Ite::new)

pub fn replay_itevec(args: &Args) {
    use rsdd::builder::cache::Ite;
    let text = std::fs::read_to_string(args.str("in", "")).expect("read vectors");
    let nv = args.num("nv", 2) as usize;
    let vecs: Vec<Value> = text.lines().map(|l| serde_json::from_str(l).unwrap()).collect();
    let (mut mismatches, mut ndrift) = (0usize, 0usize);
    let mut bad: Vec<Value> = vec![];
    let mut drift: Vec<Value> = vec![];
    if vecs.is_empty() {
        println!("{}", json!({"vectors": 0, "steps": 0, "mismatches": 0, "bad": [], "ndrift": 0, "drift": []}));
        return;
    }
    let order: Vec<usize> = vecs[0]["order"].as_array().unwrap().iter().map(|x| x.as_u64().unwrap() as usize).collect();
    let ord = VarOrder::new(&order.iter().map(|v| VarLabel::new_usize(*v)).collect::<Vec<_>>());
    let b = RobddBuilder::<AllIteTable<BddPtr>>::new(ord);
    let mut memo = HashMap::new();
    let fullm = full(nv);
    for v in &vecs {
        let (tf, tg, th) = (tt_of(&v["f"]), tt_of(&v["g"]), tt_of(&v["h"]));
        let f = bdd_build(&b, tf, 0, &order, nv, &mut memo);
        let g = bdd_build(&b, tg, 0, &order, nv, &mut memo);
        let h = bdd_build(&b, th, 0, &order, nv, &mut memo);
        let exp = tt_of(&v["exp"]);
        // the order predicate ite_helper passes: constants first, otherwise by the level of the top variable
        let o = |a: BddPtr, c: BddPtr| match (a, c) {
            (BddPtr::PtrTrue, _) | (BddPtr::PtrFalse, _) => true,
            (_, BddPtr::PtrTrue) | (_, BddPtr::PtrFalse) => false,
            (BddPtr::Reg(x) | BddPtr::Compl(x), BddPtr::Reg(y) | BddPtr::Compl(y)) => b.order().lt(x.var, y.var),
        };
        let (kind, kf, kg, kh) = match guarded(|| Ite::new(o, f, g, h)) {
            Ok(Ite::IteConst(c)) => ("const", bdd_tt(c, nv), 0, 0),
            Ok(Ite::IteChoice { f, g, h }) => ("choice", bdd_tt(f, nv), bdd_tt(g, nv), bdd_tt(h, nv)),
            Ok(Ite::IteComplChoice { f, g, h }) => ("compl", bdd_tt(f, nv), bdd_tt(g, nv), bdd_tt(h, nv)),
            Err(_) => ("panic", 0, 0, 0),
        };
        let ite = |a: TT, b2: TT, c: TT| (a & b2) | (!a & c & fullm);
        let value = match kind {
            "const" => kf,
            "choice" => ite(kf, kg, kh),
            "compl" => !ite(kf, kg, kh) & fullm,
            _ => u64::MAX,
        };
        if value != exp {
            mismatches += 1;
            if bad.len() < 10 {
                bad.push(json!({"vector": v, "code_key": [kind, kf, kg, kh], "key_value": value, "exp_tt": exp}));
            }
        } else if kind != v["kind"].as_str().unwrap()
            || kf != tt_of(&v["kf"])
            || (kind != "const" && (kg != tt_of(&v["kg"]) || kh != tt_of(&v["kh"])))
        {
            ndrift += 1;
            if drift.len() < 3 {
                drift.push(json!({"vector": v, "code_key": [kind, kf, kg, kh]}));
            }
        }
    }
    println!("{}", json!({"vectors": vecs.len(), "steps": vecs.len(), "mismatches": mismatches, "bad": bad, "ndrift": ndrift, "drift": drift}));
}

// ---------------------------------------------------------------- SDD

fn sdd_eval(p: SddPtr, a: usize) -> bool {
    sdd_eval_emb(p, a, &[])
}
/// emb[i] = label of the function's variable i (empty = identity); a label outside emb reads as false AND marks the result wrong
fn sdd_eval_emb(p: SddPtr, a: usize, emb: &[usize]) -> bool {
    match p {
        SddPtr::PtrTrue => true,
        SddPtr::PtrFalse => false,
        SddPtr::Var(l, pol) => {
            let v = if emb.is_empty() { l.value_usize() } else { emb.iter().position(|x| *x == l.value_usize()).unwrap_or(63) };
            ((a >> v) & 1 == 1) == pol
        }
        _ => {
            let mut r = false;
            let reg = if p.is_neg() { p.neg() } else { p };
            for e in reg.node_iter() {
                if sdd_eval_emb(e.prime(), a, emb) && sdd_eval_emb(e.sub(), a, emb) {
                    r = true;
                    break;
                }
            }
            if p.is_neg() { !r } else { r }
        }
    }
}
fn sdd_tt(p: SddPtr, nv: usize) -> TT {
    (0..(1usize << nv)).fold(0u64, |acc, a| if sdd_eval(p, a) { acc | (1 << a) } else { acc })
}
fn sdd_tt_emb(p: SddPtr, nv: usize, emb: &[usize]) -> TT {
    (0..(1usize << nv)).fold(0u64, |acc, a| if sdd_eval_emb(p, a, emb) { acc | (1 << a) } else { acc })
}

fn sdd_build<'a>(b: &'a CompressionSddBuilder<'a>, tt: TT, v: usize, nv: usize, memo: &mut HashMap<(TT, usize), SddPtr<'a>>) -> SddPtr<'a> {
    sdd_build_emb(b, tt, v, nv, &[], memo)
}
fn sdd_build_emb<'a>(b: &'a CompressionSddBuilder<'a>, tt: TT, v: usize, nv: usize, emb: &[usize], memo: &mut HashMap<(TT, usize), SddPtr<'a>>) -> SddPtr<'a> {
    if tt == 0 {
        return SddPtr::PtrFalse;
    }
    if tt == full(nv) {
        return SddPtr::PtrTrue;
    }
    if let Some(p) = memo.get(&(tt, v)) {
        return *p;
    }
    let (lo, hi) = (cof(tt, v, false, nv), cof(tt, v, true, nv));
    let r = if lo == hi {
        sdd_build_emb(b, lo, v + 1, nv, emb, memo)
    } else {
        let l = sdd_build_emb(b, lo, v + 1, nv, emb, memo);
        let h = sdd_build_emb(b, hi, v + 1, nv, emb, memo);
        let x = SddPtr::Var(VarLabel::new_usize(if emb.is_empty() { v } else { emb[v] }), true);
        b.or(b.and(x, h), b.and(x.neg(), l))
    };
    memo.insert((tt, v), r);
    r
}

fn all_vtrees(leaves: &[usize]) -> Vec<VTree> {
    // every shape over the given leaf sequence
    if leaves.len() == 1 {
        return vec![VTree::new_leaf(VarLabel::new_usize(leaves[0]))];
    }
    let mut out = vec![];
    for s in 1..leaves.len() {
        for l in all_vtrees(&leaves[..s]) {
            for r in all_vtrees(&leaves[s..]) {
                out.push(VTree::new_node(Box::new(l.clone()), Box::new(r)));
            }
        }
    }
    out
}

fn wide_minterm<'a>(b: &'a CompressionSddBuilder<'a>, m: usize, nl: usize) -> SddPtr<'a> {
    let mut acc = SddPtr::PtrTrue;
    for k in 0..nl {
        acc = b.and(acc, SddPtr::Var(VarLabel::new_usize(3 + k), (m >> k) & 1 == 1));
    }
    acc
}
fn wide_lift<'a>(b: &'a CompressionSddBuilder<'a>, tts: &[TT], nl: usize, memo: &mut HashMap<(TT, usize), SddPtr<'a>>) -> SddPtr<'a> {
    let mut acc = SddPtr::PtrFalse;
    for (m, tt) in tts.iter().enumerate() {
        let s = sdd_build(b, *tt, 0, 3, memo);
        acc = b.or(acc, b.and(wide_minterm(b, m, nl), s));
    }
    acc
}
fn lifted_round<'a>(b: &'a CompressionSddBuilder<'a>, pick: &[&Value], op: &str, nl: usize, canon_mode: bool) -> (Vec<Value>, usize, usize) {
    let mut memo: HashMap<(TT, usize), SddPtr<'a>> = HashMap::new();
    let fs: Vec<TT> = pick.iter().map(|v| tt_of(&v["f"])).collect();
    let gs: Vec<TT> = pick.iter().map(|v| tt_of(&v["g"])).collect();
    let es: Vec<TT> = pick.iter().map(|v| tt_of(&v["exp"])).collect();
    let (a, bb) = (wide_lift(b, &fs, nl, &mut memo), wide_lift(b, &gs, nl, &mut memo));
    let width = |p: SddPtr| if p.is_const() || p.is_var() { 0 } else { (if p.is_neg() { p.neg() } else { p }).node_iter().count() };
    let res = match op { "and" => b.and(a, bb), "or" => b.or(a, bb), "xor" => b.xor(a, bb), _ => b.iff(a, bb) };
    let mut bad: Vec<Value> = vec![];
    let f7 = full(3);
    let anb: Vec<TT> = fs.iter().zip(gs.iter()).map(|(f, g)| f & !g & f7).collect();
    let nab: Vec<TT> = fs.iter().zip(gs.iter()).map(|(f, g)| (!f | g) & f7).collect();
    let nn: Vec<TT> = fs.iter().zip(gs.iter()).map(|(f, g)| !f & !g & f7).collect();
    let cases: Vec<(String, SddPtr<'a>, &Vec<TT>)> = vec![
        (op.to_string(), res, &es),
        ("and(A, not B)".to_string(), b.and(a, b.negate(bb)), &anb),
        ("or(not A, B)".to_string(), b.or(b.negate(a), bb), &nab),
        ("and(not A, not B)".to_string(), b.and(b.negate(a), b.negate(bb)), &nn),
    ];
    for (name, got, want) in cases {
        let mut wrong = None;
        for asg in 0..1024usize {
            let (y, m) = (asg & 7, asg >> 3);
            if sdd_eval(got, asg) != ((want[m] >> y) & 1 == 1) {
                wrong = Some(asg);
                break;
            }
        }
        if let Some(asg) = wrong {
            if !canon_mode {
                bad.push(json!({"what": name, "assignment": asg, "sdd_says": sdd_eval(got, asg)}));
            }
        } else if canon_mode && wide_lift(b, want, nl, &mut memo) != got {
            bad.push(json!({"what": name, "same_pointer_as_the_disjunction_built_directly": false}));
        }
    }
    (bad, width(a), width(bb))
}

/// --check hash (C11): the hash is a function of the denotation also on VERY wide decision nodes. Nine further variables under the left
/// child of the root (512-element nodes); A, B lifted from 512 TLC-printed vectors of one operation, op(A, B) and its negation: for each,
/// the cached SDD hash, the fold-based SDD hash and the hash of the same function built as a BDD over the same weight map must coincide,
/// in the 32-bit and the 64-bit field, and hash(not f) + hash(f) = 1.
fn sdd_hash_wide(args: &Args, vecs: &[Value]) {
    use rsdd::builder::sdd::SddBuilder;
    use rsdd::constants::primes;
    use rsdd::repr::create_semantic_hash_map;
    let nr = args.num("nv", 4) as usize; // variables of the printed functions: under the right child
    let mut rng = Rng::new(args.num("seed", 1) ^ 0x4a5);
    let mut t = Tally { vectors: vecs.len(), steps: 0, mismatches: 0, bad: vec![] };
    let nl = 9usize;
    let n = nl + nr;
    // 1024 pairwise different printed functions (so that the lifted nodes keep all their elements after compression)
    let mut distinct: Vec<TT> = vec![];
    let mut seen = std::collections::HashSet::new();
    for v in vecs {
        for k in ["f", "exp"] {
            let tt = tt_of(&v[k]);
            if tt != 0 && tt != full(nr) && seen.insert(tt) {
                distinct.push(tt);
            }
        }
        if distinct.len() >= 1024 {
            break;
        }
    }
    let mut configs = 0;
    if distinct.len() >= 1024 {
        // one field per builder: the per-node cache holds one value, for one field and weight map
        for round in 0..3usize {
            configs += 1;
            let left_labels: Vec<VarLabel> = rng.perm(nl).into_iter().map(|v| VarLabel::new_usize(v + nr)).collect();
            let right_labels: Vec<VarLabel> = rng.perm(nr).into_iter().map(VarLabel::new_usize).collect();
            let left = if round % 2 == 0 { VTree::right_linear(&left_labels) } else { VTree::even_split(&left_labels, 1) };
            let vt = VTree::new_node(Box::new(left), Box::new(VTree::right_linear(&right_labels)));
            rsdd::verif::set_table_capacity(0);
            let mut bm = CompressionSddBuilder::new(vt);
            SddBuilder::set_compression(&mut bm, true);
            let b = &bm;
            let bb = RobddBuilder::<AllIteTable<BddPtr>>::new(VarOrder::linear_order(n));
            t.steps += 1;
            let fs: Vec<TT> = distinct[..512].to_vec();
            let gs: Vec<TT> = distinct[512..1024].to_vec();
            let r = guarded(|| {
                let mut memo: HashMap<(TT, usize), SddPtr> = HashMap::new();
                let mut lift = |tts: &[TT]| {
                    let mut acc = SddPtr::PtrFalse;
                    for (m, tt) in tts.iter().enumerate() {
                        let s = sdd_build(b, *tt, 0, nr, &mut memo);
                        let mut mt = SddPtr::PtrTrue;
                        for k in 0..nl {
                            mt = b.and(mt, SddPtr::Var(VarLabel::new_usize(nr + k), (m >> k) & 1 == 1));
                        }
                        acc = b.or(acc, b.and(mt, s));
                    }
                    acc
                };
                let (a, c) = (lift(&fs), lift(&gs));
                let res = b.and(a, c);
                let mut bmemo = HashMap::new();
                let ident: Vec<usize> = (0..nr).collect();
                let mut blift = |tts: &[TT]| {
                    let mut acc = BddPtr::PtrFalse;
                    for (m, tt) in tts.iter().enumerate() {
                        let mut term = bdd_build(&bb, *tt, 0, &ident, nr, &mut bmemo);
                        for k in 0..nl {
                            term = bb.and(term, bb.var(VarLabel::new_usize(nr + k), (m >> k) & 1 == 1));
                        }
                        acc = bb.or(acc, term);
                    }
                    acc
                };
                let (ba, bc) = (blift(&fs), blift(&gs));
                let bres = bb.and(ba, bc);
                let mut bad: Vec<Value> = vec![];
                macro_rules! cmp {
                    ($P:expr, $name:literal) => {{
                        let map = create_semantic_hash_map::<{ $P }>(n);
                        for (what, s, d) in [("A", a, ba), ("B", c, bc), ("and(A, B)", res, bres), ("not A", b.negate(a), bb.negate(ba))] {
                            let cached = s.cached_semantic_hash(b.vtree_manager(), &map).value();
                            let fold = s.semantic_hash(&map).value();
                            let asbdd = d.semantic_hash(&map).value();
                            if cached != fold || fold != asbdd {
                                bad.push(json!({"field": $name, "diagram": what, "sdd_cached": cached.to_string(), "sdd_fold": fold.to_string(), "same_function_as_bdd": asbdd.to_string()}));
                            }
                        }
                        let (h, hn) = (a.cached_semantic_hash(b.vtree_manager(), &map).value(), b.negate(a).cached_semantic_hash(b.vtree_manager(), &map).value());
                        if (h + hn) % $P != 1 {
                            bad.push(json!({"field": $name, "hash_plus_hash_of_negation": ((h + hn) % $P).to_string()}));
                        }
                    }};
                }
                if round < 2 {
                    cmp!(primes::U32_SMALL, "U32_SMALL");
                } else {
                    cmp!(primes::U64_LARGEST, "U64_LARGEST");
                }
                let width = |p: SddPtr| if p.is_const() || p.is_var() { 0 } else { (if p.is_neg() { p.neg() } else { p }).node_iter().count() };
                (bad, width(a), width(res))
            });
            match r {
                Ok((bad, wa, wr)) => {
                    if !bad.is_empty() {
                        t.mismatches += 1;
                        if t.bad.len() < 10 {
                            t.bad.push(json!({"cfg": format!("hashes of lifted wide SDDs ({wa} / {wr} elements at the root), round {round}"), "bad": bad}));
                        }
                    } else if wa < 400 {
                        t.bad.push(json!({"note": format!("round {round}: the lifted node has only {wa} elements")}));
                    }
                }
                Err(m) => {
                    t.mismatches += 1;
                    t.bad.push(json!({"cfg": format!("hashes of lifted wide SDDs, round {round}"), "panic": m}));
                }
            }
        }
    }
    rsdd::verif::set_table_capacity(0);
    println!("{}", json!({"vectors": t.vectors, "steps": t.steps, "configs": configs, "mismatches": t.mismatches, "bad": t.bad}));
}

pub fn replay_sddvec(args: &Args) {
    let text = std::fs::read_to_string(args.str("in", "")).expect("read vectors");
    if args.str("check", "fn") == "hash" {
        let vecs: Vec<Value> = text.lines().map(|l| serde_json::from_str(l).unwrap()).collect();
        return sdd_hash_wide(args, &vecs);
    }
    let nv = args.num("nv", 3) as usize;
    let seed = args.num("seed", 1);
    let max_cfg = args.num("configs", 12) as usize;
    // --check fn (default): the returned SDD denotes what TLC printed (C03); --check canon: two results of one compressing builder
    // that denote the same function are the same pointer (C04) - judged on the function a result actually denotes
    let canon_mode = args.str("check", "fn") == "canon";
    let vecs: Vec<Value> = text.lines().map(|l| serde_json::from_str(l).unwrap()).collect();
    let mut rng = Rng::new(seed ^ 0x5ddc);
    let mut vtrees: Vec<VTree> = vec![];
    if nv <= 3 {
        // all shapes x all leaf labellings (12 for 3 variables)
        let mut perms = vec![];
        fn heap(k: usize, a: &mut Vec<usize>, out: &mut Vec<Vec<usize>>) {
            if k == 1 {
                out.push(a.clone());
                return;
            }
            for i in 0..k {
                heap(k - 1, a, out);
                if k % 2 == 0 { a.swap(i, k - 1) } else { a.swap(0, k - 1) }
            }
        }
        heap(nv, &mut (0..nv).collect(), &mut perms);
        for p in perms {
            vtrees.extend(all_vtrees(&p));
        }
    } else {
        for _ in 0..max_cfg {
            let p = rng.perm(nv);
            vtrees.push(rand_vtree(&mut rng, &p));
        }
    }
    if vtrees.len() > max_cfg {
        // deterministic thinning
        let step = vtrees.len() as f64 / max_cfg as f64;
        vtrees = (0..max_cfg).map(|i| vtrees[(i as f64 * step) as usize].clone()).collect();
    }
    let mut t = Tally { vectors: vecs.len(), steps: 0, mismatches: 0, bad: vec![] };
    let mut configs = 0;
    // WIDE: vtrees over 70 labels (right-linear, left-linear, random) in which the function's variables sit on scattered labels
    // (two of them congruent modulo 64, some beyond 63); every third vector
    let mut wide: Vec<(VTree, Vec<usize>)> = vec![];
    if nv >= 2 {
        for kind in 0..4 {
            // kind 3: a right-linear vtree over 160 labels (in-order node indices up to 318), the variables at the deep end
            let nlabels = if kind == 3 { 160usize } else { 70 };
            let base = rng.below(6);
            let mut emb: Vec<usize> = vec![base, base + 64];
            while emb.len() < nv {
                let l = rng.below(nlabels);
                if !emb.contains(&l) {
                    emb.push(l);
                }
            }
            for k in (1..emb.len()).rev() {
                emb.swap(k, rng.below(k + 1));
            }
            let mut lab = rng.perm(nlabels);
            if kind < 2 || kind == 3 {
                // on a spine the function's variables go to the DEEP end (depths 60 .. 69: beyond the width of a machine word)
                lab.retain(|l| !emb.contains(l));
                let at = lab.len() - rng.below(3);
                let mut tail = emb.clone();
                for k in (1..tail.len()).rev() {
                    tail.swap(k, rng.below(k + 1));
                }
                for (k, l) in tail.into_iter().enumerate() {
                    lab.insert((at + k).min(lab.len()), l);
                }
                if kind == 1 {
                    lab.reverse(); // left_linear puts the first label deepest
                }
            }
            let labels: Vec<VarLabel> = lab.iter().map(|v| VarLabel::new_usize(*v)).collect();
            let vt = match kind {
                0 | 3 => VTree::right_linear(&labels),
                1 => VTree::left_linear(&labels),
                _ => rand_vtree(&mut rng, &lab),
            };
            wide.push((vt, emb));
        }
    }
    let all: Vec<(usize, &VTree, Vec<usize>, usize)> = vtrees.iter().enumerate().map(|(i, vt)| (i, vt, vec![], 1usize))
        .chain(wide.iter().enumerate().map(|(i, (vt, emb))| (3 * i, vt, emb.clone(), 3usize))).collect();
    for (i, vt, emb, stride) in all {
        for compress in [true, false] {
            if !compress && i % 3 != 0 {
                continue;
            }
            configs += 1;
            rsdd::verif::set_table_capacity(if i % 2 == 0 { 0 } else { 2 });
            let mut bm = CompressionSddBuilder::new(vt.clone());
            rsdd::builder::sdd::SddBuilder::set_compression(&mut bm, compress);
            let b = &bm;
            let mut memo = HashMap::new();
            let mut canon: HashMap<TT, SddPtr> = HashMap::new();
            for v in vecs.iter().step_by(stride) {
                let op = v["op"].as_str().unwrap();
                let a: Vec<usize> = v["a"].as_array().unwrap().iter().map(|x| x.as_u64().unwrap() as usize).collect();
                let exp = tt_of(&v["exp"]);
                let vl = |i: usize| VarLabel::new_usize(if emb.is_empty() { i } else { emb[i] });
                t.steps += 1;
                // the arguments are built with the library too (and / or of literals): a panic there is data as well
                let args3 = guarded(|| {
                    (sdd_build_emb(b, tt_of(&v["f"]), 0, nv, &emb, &mut memo), sdd_build_emb(b, tt_of(&v["g"]), 0, nv, &emb, &mut memo), sdd_build_emb(b, tt_of(&v["h"]), 0, nv, &emb, &mut memo))
                });
                let (f, g, h) = match args3 {
                    Ok(x) => x,
                    Err(m) => {
                        t.mismatches += 1;
                        if t.bad.len() < 10 {
                            t.bad.push(json!({"vtree": crate::sdd_rec::vtree_json(vt), "emb": emb, "compress": compress, "vector": v, "panic_while_building_the_arguments": m}));
                        }
                        break; // the builder may be in any state now
                    }
                };
                let r = guarded(|| match op {
                    "cond" => b.condition(f, vl(a[0]), a[1] == 1),
                    "exists" => b.exists(f, vl(a[0])),
                    "neg" => b.negate(f),
                    "and" => b.and(f, g),
                    "or" => b.or(f, g),
                    "xor" => b.xor(f, g),
                    "iff" => b.iff(f, g),
                    "ite" => b.ite(f, g, h),
                    "compose" => b.compose(f, vl(a[0]), g),
                    _ => panic!("unknown op {op}"),
                });
                let (ok, got) = match r.and_then(|p| guarded(|| (p, sdd_tt_emb(p, nv, &emb)))) {
                    Ok((p, got)) => {
                        let c = *canon.entry(got).or_insert(p);
                        (if canon_mode { !compress || c == p } else { got == exp }, json!(got))
                    }
                    Err(m) => (false, json!(m)),
                };
                if !ok {
                    t.mismatches += 1;
                    if t.bad.len() < 10 {
                        t.bad.push(json!({"vtree": crate::sdd_rec::vtree_json(vt), "emb": emb, "compress": compress, "vector": v, "got_tt": got, "exp_tt": exp}));
                    }
                }
            }
        }
    }
    // LIFTED WIDE NODES (binary vectors of 3-variable functions only): decision nodes with 128 elements. Seven further variables
    // x3..x9 sit under the left child of the root, x0..x2 under the right; A = OR_m (minterm_m(x3..x9) AND f_m), B likewise with g_m,
    // where (f_m, g_m, op, exp_m) are 128 vectors TLC printed for one operation. Then op(A, B) must be OR_m (minterm_m AND exp_m): on
    // every one of the 1024 assignments, and as the SAME pointer as that disjunction built directly; the same for A AND NOT B, NOT A OR B
    // (complemented wide operands sharing every prime by pointer).
    if nv == 3 && vecs.iter().any(|v| v["op"] == "and") {
        use rsdd::builder::sdd::SddBuilder;
        let nl = 7usize;
        for round in 0..4usize {
            configs += 1;
            let op = ["and", "or", "xor", "iff"][round % 4];
            let pool: Vec<&Value> = vecs.iter().filter(|v| v["op"] == op).collect();
            if pool.len() < 128 {
                continue;
            }
            let pick: Vec<&Value> = (0..128).map(|_| pool[rng.below(pool.len())]).collect();
            let left_labels: Vec<VarLabel> = rng.perm(nl).into_iter().map(|v| VarLabel::new_usize(v + 3)).collect();
            let right_labels: Vec<VarLabel> = rng.perm(3).into_iter().map(VarLabel::new_usize).collect();
            let left = if round % 2 == 0 { VTree::right_linear(&left_labels) } else { VTree::even_split(&left_labels, 2) };
            let vt = VTree::new_node(Box::new(left), Box::new(VTree::right_linear(&right_labels)));
            rsdd::verif::set_table_capacity(if round == 1 { 2 } else { 0 });
            let mut bm = CompressionSddBuilder::new(vt);
            SddBuilder::set_compression(&mut bm, true);
            let b = &bm;
            t.steps += 1;
            let r = guarded(|| lifted_round(b, &pick, op, nl, canon_mode));
            match r {
                Ok((bad, wa, wb)) => {
                    if !bad.is_empty() {
                        t.mismatches += 1;
                        if t.bad.len() < 10 {
                            t.bad.push(json!({"cfg": format!("lifted wide nodes ({wa} and {wb} elements), op {op}, round {round}"), "bad": bad}));
                        }
                    }
                }
                Err(m) => {
                    t.mismatches += 1;
                    t.bad.push(json!({"cfg": format!("lifted wide nodes, op {op}, round {round}"), "panic": m}));
                }
            }
        }
    }
    rsdd::verif::set_table_capacity(0);
    println!("{}", json!({"vectors": t.vectors, "steps": t.steps, "configs": configs, "mismatches": t.mismatches, "bad": t.bad}));
}
