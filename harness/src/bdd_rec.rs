//! Recorder for the bottom-up BDD builder (`RobddBuilder`): runs seeded random
//! programs against the real code and logs raw observations as ndjson.
//! The recorder never judges: denotations, canonicity, shapes, counts and
//! optima are recomputed by TLC from the raw node dumps (spec/TraceBdd.tla).
use crate::util::*;
use rsdd::builder::bdd::{BddBuilder, RobddBuilder};
use rsdd::builder::cache::{AllIteTable, IteTable, LruIteTable};
use rsdd::builder::BottomUpBuilder;
use rsdd::constants::primes;
use rsdd::plan::BottomUpPlan;
use rsdd::repr::{
    create_semantic_hash_map, BddNode, BddPtr, Cnf, DDNNFPtr, DTree, Literal, LogicalExpr,
    PartialModel, VarLabel, VarOrder, WmcParams,
};
use rsdd::util::semirings::{
    BooleanSemiring, Complex, ExpectedUtility, FiniteField, Polynomial, RationalSemiring,
    RealSemiring, Semiring,
};
use serde_json::{json, Value};
use std::collections::HashMap;

/// Stable node ids: assigned in post-order at first sight; the arena never
/// moves or frees a node, so the address identifies it.
pub struct Ids<'a> {
    map: HashMap<usize, usize>,
    pub all: Vec<BddPtr<'a>>,
    /// label -> variable of the recorded (compact) universe, when the builder works over a wider label space; a label outside the
    /// embedding is logged as 900 + label (no specification accepts it)
    pub unlab: Option<HashMap<usize, usize>>,
}

impl<'a> Ids<'a> {
    pub fn new() -> Self {
        Ids {
            map: HashMap::new(),
            all: vec![],
            unlab: None,
        }
    }
    fn var_of(&self, label: usize) -> usize {
        match &self.unlab {
            None => label,
            Some(m) => m.get(&label).copied().unwrap_or(900 + label),
        }
    }
    /// encode a pointer (0 = True, 1 = False, 2*id + compl), dumping unseen nodes into `newn`
    pub fn ptr(&mut self, p: BddPtr<'a>, newn: &mut Vec<Value>) -> usize {
        match p {
            BddPtr::PtrTrue => 0,
            BddPtr::PtrFalse => 1,
            BddPtr::Reg(n) | BddPtr::Compl(n) => {
                let addr = n as *const BddNode as usize;
                let id = if let Some(id) = self.map.get(&addr) {
                    *id
                } else {
                    let lo = self.ptr(n.low, newn);
                    let hi = self.ptr(n.high, newn);
                    let id = self.map.len() + 1;
                    self.map.insert(addr, id);
                    self.all.push(BddPtr::Reg(n));
                    newn.push(json!([id, self.var_of(n.var.value_usize()), lo, hi]));
                    id
                };
                2 * id + if matches!(p, BddPtr::Compl(_)) { 1 } else { 0 }
            }
        }
    }
    /// re-read every node reachable from `p` (all must be known already)
    pub fn redump(&mut self, p: BddPtr<'a>, seen: &mut Vec<usize>, out: &mut Vec<Value>) {
        if let BddPtr::Reg(n) | BddPtr::Compl(n) = p {
            let addr = n as *const BddNode as usize;
            let id = *self.map.get(&addr).expect("redump of unknown node");
            if seen.contains(&id) {
                return;
            }
            seen.push(id);
            let mut dummy = vec![];
            let lo = self.ptr(n.low, &mut dummy);
            let hi = self.ptr(n.high, &mut dummy);
            out.push(json!([id, self.var_of(n.var.value_usize()), lo, hi]));
            self.redump(n.low, seen, out);
            self.redump(n.high, seen, out);
        }
    }
    /// ids of known nodes whose scratch slot is not empty
    pub fn dirty(&self) -> Vec<usize> {
        self.all
            .iter()
            .enumerate()
            .filter(|(_, p)| !p.is_scratch_cleared())
            .map(|(i, _)| i + 1)
            .collect()
    }
}

#[derive(Clone, Debug)]
pub struct SegCfg {
    pub n0: usize,
    pub nmax: usize,
    pub order: Vec<usize>,
    pub cache: &'static str,
    pub tcap: usize,
    pub ccap: Option<usize>,
}

pub const K: usize = 12; // pool slots; 0 = True, 1 = False are fixed

/// Per-mode operation weights. Order of ops must match `OPS`.
const OPS: [&str; 31] = [
    "var", "neg", "and", "or", "xor", "iff", "ite", "cond", "condm", "exists", "compose", "andl",
    "orl", "newvar", "eq", "recheck", "cnf", "cnfa", "expr", "plan", "smooth", "wmc", "eval",
    "count", "semhash", "mmap", "meu", "bb", "uwmc", "cmpl", "bfold",
];

fn weights(mode: &str) -> [usize; 31] {
    //                 var neg and or xor iff ite cond condm ex comp andl orl newv eq rechk cnf cnfa expr plan smooth wmc eval count semh mmap meu bb uwmc cmpl
    match mode {
        "c01" => [5, 3, 8, 8, 6, 6, 10, 6, 4, 6, 6, 3, 3, 1, 0, 2, 0, 0, 0, 0, 0, 0, 0, 0, 0, 0, 0, 0, 0, 0, 0],
        "c02" | "c16" => [5, 3, 8, 8, 6, 6, 10, 6, 3, 6, 5, 2, 2, 1, 8, 2, 1, 0, 1, 0, 0, 0, 0, 0, 0, 0, 0, 0, 0, 0, 0],
        "c05" => [2, 1, 2, 2, 1, 1, 2, 1, 1, 1, 0, 0, 0, 0, 0, 0, 8, 8, 8, 8, 0, 0, 0, 0, 0, 0, 0, 0, 0, 0, 0],
        "c07" => [4, 2, 5, 5, 4, 4, 6, 3, 1, 3, 2, 1, 1, 1, 0, 0, 2, 0, 1, 0, 0, 12, 6, 0, 3, 0, 0, 0, 6, 0, 3],
        "c08" => [4, 2, 5, 5, 4, 4, 6, 3, 1, 3, 2, 1, 1, 2, 0, 0, 1, 0, 1, 0, 14, 0, 0, 0, 0, 0, 0, 0, 12, 0, 0],
        "c10" => [3, 2, 4, 4, 3, 3, 5, 5, 4, 3, 2, 1, 1, 0, 1, 1, 1, 1, 0, 0, 12, 6, 4, 5, 5, 4, 4, 4, 4, 0, 5],
        "c11" => [4, 2, 5, 5, 4, 4, 6, 3, 1, 3, 2, 1, 1, 0, 0, 0, 2, 0, 1, 0, 0, 0, 0, 0, 14, 0, 0, 0, 0, 0, 0],
        "c12" => [4, 2, 5, 5, 4, 4, 6, 3, 1, 3, 2, 1, 1, 0, 0, 0, 2, 0, 1, 0, 0, 0, 0, 0, 0, 8, 8, 8, 0, 0, 0],
        _ => panic!("unknown bdd mode {mode}"),
    }
}

pub fn lits_json(c: &[Vec<(usize, bool)>]) -> Value {
    json!(c
        .iter()
        .map(|cl| cl
            .iter()
            .map(|(v, p)| if *p { *v as i64 + 1 } else { -(*v as i64 + 1) })
            .collect::<Vec<_>>())
        .collect::<Vec<_>>())
}

pub fn mk_cnf(c: &[Vec<(usize, bool)>]) -> Cnf {
    let cl: Vec<Vec<Literal>> = c
        .iter()
        .map(|cl| {
            cl.iter()
                .map(|(v, p)| Literal::new(VarLabel::new_usize(*v), *p))
                .collect()
        })
        .collect();
    Cnf::new(&cl)
}

/// random clause list over variables 0..nv (nv >= 1)
pub fn rand_clauses(rng: &mut Rng, nv: usize, max_clauses: usize, max_width: usize) -> Vec<Vec<(usize, bool)>> {
    let nc = rng.below(max_clauses + 1);
    (0..nc)
        .map(|_| {
            // width 0 (empty clause) is rare but legal
            let w = if rng.chance(1, 25) { 0 } else { rng.range(1, max_width) };
            (0..w).map(|_| (rng.below(nv), rng.coin())).collect()
        })
        .collect()
}

/// random expression tree; returns (json, LogicalExpr)
pub fn rand_expr(rng: &mut Rng, nv: usize, depth: usize) -> (Value, LogicalExpr) {
    if depth == 0 || rng.chance(1, 4) {
        let v = rng.below(nv);
        let p = rng.coin();
        return (json!(["lit", v, p]), LogicalExpr::Literal(v, p));
    }
    let b = |e: LogicalExpr| Box::new(e);
    match rng.below(6) {
        0 => {
            let (j, e) = rand_expr(rng, nv, depth - 1);
            (json!(["not", j]), LogicalExpr::Not(b(e)))
        }
        1 => {
            let (j1, e1) = rand_expr(rng, nv, depth - 1);
            let (j2, e2) = rand_expr(rng, nv, depth - 1);
            (json!(["and", j1, j2]), LogicalExpr::And(b(e1), b(e2)))
        }
        2 => {
            let (j1, e1) = rand_expr(rng, nv, depth - 1);
            let (j2, e2) = rand_expr(rng, nv, depth - 1);
            (json!(["or", j1, j2]), LogicalExpr::Or(b(e1), b(e2)))
        }
        3 => {
            let (j1, e1) = rand_expr(rng, nv, depth - 1);
            let (j2, e2) = rand_expr(rng, nv, depth - 1);
            (json!(["iff", j1, j2]), LogicalExpr::Iff(b(e1), b(e2)))
        }
        4 => {
            let (j1, e1) = rand_expr(rng, nv, depth - 1);
            let (j2, e2) = rand_expr(rng, nv, depth - 1);
            (json!(["xor", j1, j2]), LogicalExpr::Xor(b(e1), b(e2)))
        }
        _ => {
            let (j1, e1) = rand_expr(rng, nv, depth - 1);
            let (j2, e2) = rand_expr(rng, nv, depth - 1);
            let (j3, e3) = rand_expr(rng, nv, depth - 1);
            (
                json!(["ite", j1, j2, j3]),
                LogicalExpr::Ite {
                    guard: b(e1),
                    thn: b(e2),
                    els: b(e3),
                },
            )
        }
    }
}

pub fn plan_json(p: &BottomUpPlan) -> Value {
    match p {
        BottomUpPlan::And(a, b) => json!(["and", plan_json(a), plan_json(b)]),
        BottomUpPlan::Or(a, b) => json!(["or", plan_json(a), plan_json(b)]),
        BottomUpPlan::Iff(a, b) => json!(["iff", plan_json(a), plan_json(b)]),
        BottomUpPlan::Ite(a, b, c) => json!(["ite", plan_json(a), plan_json(b), plan_json(c)]),
        BottomUpPlan::Not(a) => json!(["not", plan_json(a)]),
        BottomUpPlan::ConstTrue => json!(["t"]),
        BottomUpPlan::ConstFalse => json!(["f"]),
        BottomUpPlan::Literal(v, p) => json!(["lit", v.value_usize(), p]),
    }
}

/// random hand-made plan (uses every constructor, including the constants)
pub fn rand_plan(rng: &mut Rng, nv: usize, depth: usize) -> BottomUpPlan {
    if depth == 0 || rng.chance(1, 4) {
        return match rng.below(8) {
            0 => BottomUpPlan::ConstTrue,
            1 => BottomUpPlan::ConstFalse,
            _ => BottomUpPlan::literal(VarLabel::new_usize(rng.below(nv)), rng.coin()),
        };
    }
    match rng.below(5) {
        0 => BottomUpPlan::not(rand_plan(rng, nv, depth - 1)),
        1 => BottomUpPlan::and(rand_plan(rng, nv, depth - 1), rand_plan(rng, nv, depth - 1)),
        2 => BottomUpPlan::or(rand_plan(rng, nv, depth - 1), rand_plan(rng, nv, depth - 1)),
        3 => BottomUpPlan::iff(rand_plan(rng, nv, depth - 1), rand_plan(rng, nv, depth - 1)),
        _ => BottomUpPlan::ite(
            rand_plan(rng, nv, depth - 1),
            rand_plan(rng, nv, depth - 1),
            rand_plan(rng, nv, depth - 1),
        ),
    }
}

/// partial model over nv variables as a list of Option<bool>; json: -1 unset, 0 false, 1 true
fn rand_pm(rng: &mut Rng, nv: usize) -> (Vec<Option<bool>>, Value) {
    let v: Vec<Option<bool>> = (0..nv)
        .map(|_| match rng.below(3) {
            0 => None,
            1 => Some(false),
            _ => Some(true),
        })
        .collect();
    let j = json!(v
        .iter()
        .map(|x| match x {
            None => -1,
            Some(false) => 0,
            Some(true) => 1,
        })
        .collect::<Vec<i32>>());
    (v, j)
}

pub struct Session<'a, T: IteTable<'a, BddPtr<'a>> + Default> {
    pub b: &'a RobddBuilder<'a, T>,
    pub ids: Ids<'a>,
    pub pool: Vec<BddPtr<'a>>,
    pub smoothed: Vec<bool>,
    pub nv: usize,
    pub nmax: usize,
    pub next_slot: usize,
    /// the field used for the CACHED semantic hash in this builder (the per-node cache holds one value, for one field and map):
    /// 0 = the 64-bit prime, 1..4 = the exported ~2^96 primes
    pub cached_prime: usize,
}

impl<'a, T: IteTable<'a, BddPtr<'a>> + Default> Session<'a, T> {
    /// A long fuse: count a diagram, run exactly 2^8 - 1 or 2^16 - 1 folds that do not touch its nodes, count it again with other
    /// weights (a per-fold generation counter that is too narrow wraps around to the stamp the first count left on the nodes).
    /// The two counts are ordinary `wmc` events; the burst is one `burst` event (a stuttering step of the specification).
    fn wrap_script(&mut self, rng: &mut Rng, out: &mut Out) {
        let nv = self.nv;
        let cands: Vec<usize> = (2..K).filter(|i| !self.pool[*i].is_const() && !self.smoothed[*i]).collect();
        if cands.is_empty() || nv == 0 {
            return;
        }
        let a = *cands.iter().max_by_key(|i| self.pool[**i].count_nodes()).unwrap();
        let x = self.pool[a];
        let mut count = |rng: &mut Rng, out: &mut Out| {
            let wq = gen_weights(rng, "real", nv, true);
            let mut ev = json!({"ev": "wmc", "a": [a]});
            wq.log(&mut ev);
            if let Err(m) = count_in(x, &wq, nv, &mut ev) {
                ev["panic"] = json!(m);
            }
            ev["dirty"] = json!(self.ids.dirty());
            out.emit(ev);
        };
        count(rng, out);
        // the burst: folds on a literal held by ANOTHER builder (no node in common with x), or on the true constant of this one
        let n = if rng.coin() { 255usize } else { 65535 };
        let other = RobddBuilder::<AllIteTable<BddPtr>>::new(VarOrder::linear_order(1));
        let lit = other.var(VarLabel::new(0), true);
        let inst = vec![true; nv.max(1)];
        let r = guarded(|| {
            let mut acc = 0usize;
            for _ in 0..n {
                acc += lit.evaluate(&inst) as usize;
            }
            acc
        });
        let mut ev = json!({"ev": "burst", "n": n, "a": []});
        match r {
            Ok(acc) => ev["val"] = json!(acc),
            Err(m) => ev["panic"] = json!(m),
        }
        out.emit(ev);
        count(rng, out);
    }

    fn order_now(&self) -> Vec<usize> {
        self.b.order().in_order_iter().map(|v| v.value_usize()).collect()
    }

    /// pick an argument slot; prefers non-constant, never a smoothed diagram when `logical`
    fn arg(&self, rng: &mut Rng, logical: bool) -> usize {
        for _ in 0..8 {
            let s = rng.below(K);
            if logical && self.smoothed[s] {
                continue;
            }
            if self.pool[s].is_const() && rng.chance(2, 3) {
                continue;
            }
            return s;
        }
        rng.below(2)
    }

    /// one random operation; returns false when the segment has to end (panic)
    pub fn step(&mut self, rng: &mut Rng, mode: &str, out: &mut Out) -> bool {
        let w = weights(mode);
        let mut op = OPS[rng.weighted(&w)];
        if self.nv == 0 && op != "newvar" {
            op = "newvar";
        }
        // seed the pool with literals first, so programs do not start from constants only
        let seeding = self.next_slot < self.nv.min(K - 2) && self.next_slot < 6;
        if seeding {
            op = "var";
        }
        if op == "newvar" && self.nv >= self.nmax {
            op = "var";
        }
        let b = self.b;
        let nv = self.nv;
        let vl = |v: usize| VarLabel::new_usize(v);
        let res_slot = 2 + (self.next_slot % (K - 2));
        let mut ev = json!({ "ev": op, "a": [] });
        // ---------------- operations that produce a diagram ----------------
        let produced: Option<Result<BddPtr<'a>, String>> = match op {
            "var" => {
                let (v, p) = if seeding { (self.next_slot, rng.coin()) } else { (rng.below(nv), rng.coin()) };
                ev["a"] = json!([v, p as u8]);
                Some(guarded(|| b.var(vl(v), p)))
            }
            "neg" => {
                let a = self.arg(rng, true);
                ev["a"] = json!([a]);
                let x = self.pool[a];
                Some(guarded(|| b.negate(x)))
            }
            "and" | "or" | "xor" | "iff" => {
                let (a, c) = (self.arg(rng, true), self.arg(rng, true));
                ev["a"] = json!([a, c]);
                let (x, y) = (self.pool[a], self.pool[c]);
                Some(guarded(|| match op {
                    "and" => b.and(x, y),
                    "or" => b.or(x, y),
                    "xor" => b.xor(x, y),
                    _ => b.iff(x, y),
                }))
            }
            "ite" => {
                let (a, c, d) = (self.arg(rng, true), self.arg(rng, true), self.arg(rng, true));
                ev["a"] = json!([a, c, d]);
                let (x, y, z) = (self.pool[a], self.pool[c], self.pool[d]);
                Some(guarded(|| b.ite(x, y, z)))
            }
            "cond" => {
                let (a, v, p) = (self.arg(rng, true), rng.below(nv), rng.coin());
                ev["a"] = json!([a, v, p as u8]);
                let x = self.pool[a];
                Some(guarded(|| b.condition(x, vl(v), p)))
            }
            "condm" => {
                let a = self.arg(rng, true);
                let (pm, pj) = rand_pm(rng, nv);
                ev["a"] = json!([a]);
                ev["pm"] = pj;
                let x = self.pool[a];
                let m = PartialModel::from_assignments(&pm);
                Some(guarded(|| b.condition_model(x, &m)))
            }
            "exists" => {
                let (a, v) = (self.arg(rng, true), rng.below(nv));
                ev["a"] = json!([a, v]);
                let x = self.pool[a];
                Some(guarded(|| b.exists(x, vl(v))))
            }
            "compose" => {
                let (a, v, c) = (self.arg(rng, true), rng.below(nv), self.arg(rng, true));
                ev["a"] = json!([a, v, c]);
                let (x, y) = (self.pool[a], self.pool[c]);
                Some(guarded(|| b.compose(x, vl(v), y)))
            }
            "andl" | "orl" => {
                // mostly short lists (incl. the empty one); one call in four passes 17 .. 40 operands (slots repeat)
                let n = if rng.chance(1, 4) { rng.range(17, 40) } else { rng.below(5) };
                let slots: Vec<usize> = (0..n).map(|_| self.arg(rng, true)).collect();
                ev["a"] = json!(slots);
                let xs: Vec<BddPtr<'a>> = slots.iter().map(|s| self.pool[*s]).collect();
                Some(guarded(|| if op == "andl" { b.and_lst(&xs) } else { b.or_lst(&xs) }))
            }
            "newvar" => {
                let p = rng.coin();
                ev["a"] = json!([p as u8]);
                // new_pos / new_neg are the documented shorthands of new_var(true / false)
                let short = rng.coin();
                let r = guarded(|| if !short { b.new_var(p) } else if p { b.new_pos() } else { b.new_neg() });
                match r {
                    Ok((lbl, ptr)) => {
                        ev["label"] = json!(lbl.value_usize());
                        self.nv += 1;
                        Some(Ok(ptr))
                    }
                    Err(m) => Some(Err(m)),
                }
            }
            "cnf" => {
                let c = rand_clauses(rng, nv, 6, 4);
                ev["cnf"] = lits_json(&c);
                let cnf = mk_cnf(&c);
                Some(guarded(|| b.compile_cnf(&cnf)))
            }
            "cnfa" => {
                let c = rand_clauses(rng, nv, 6, 4);
                let (pm, pj) = rand_pm(rng, nv);
                ev["cnf"] = lits_json(&c);
                ev["pm"] = pj;
                let cnf = mk_cnf(&c);
                let m = PartialModel::from_assignments(&pm);
                // C05: compiling under a partial assignment = compiling, then conditioning on it (same diagram)
                match guarded(|| b.condition_model(b.compile_cnf(&cnf), &m)) {
                    Ok(y) => {
                        let mut pre = vec![];
                        let cm = self.ids.ptr(y, &mut pre);
                        ev["cm_root"] = json!(cm);
                        ev["pre_nodes"] = json!(pre);
                        Some(guarded(|| b.compile_cnf_with_assignments(&cnf, &m)))
                    }
                    Err(msg) => Some(Err(msg)),
                }
            }
            "expr" => {
                let (j, e) = rand_expr(rng, nv, 3);
                ev["expr"] = j;
                Some(guarded(|| b.compile_logical_expr(&e)))
            }
            "plan" => {
                if rng.coin() {
                    // plan derived from a dtree of a random CNF with at least one clause
                    let mut c = rand_clauses(rng, nv, 6, 4);
                    if c.is_empty() {
                        c.push(vec![(rng.below(nv), rng.coin())]);
                    }
                    let cnf = mk_cnf(&c);
                    let elim: Vec<VarLabel> =
                        rng.perm(cnf.num_vars()).into_iter().map(vl).collect();
                    let r = guarded(|| {
                        let dtree = DTree::from_cnf(&cnf, &VarOrder::new(&elim));
                        BottomUpPlan::from_dtree(&dtree)
                    });
                    match r {
                        Ok(plan) => {
                            ev["expr"] = plan_json(&plan);
                            ev["cnf"] = lits_json(&c);
                            Some(guarded(|| b.compile_plan(&plan)))
                        }
                        Err(m) => Some(Err(m)),
                    }
                } else {
                    let plan = rand_plan(rng, nv, 3);
                    ev["expr"] = plan_json(&plan);
                    Some(guarded(|| b.compile_plan(&plan)))
                }
            }
            "smooth" => {
                let a = self.arg(rng, true);
                let n = rng.below(nv + 1);
                ev["a"] = json!([a, n]);
                let x = self.pool[a];
                Some(guarded(|| b.smooth(x, n)))
            }
            _ => None,
        };
        if let Some(r) = produced {
            return match r {
                Ok(ptr) => {
                    let mut newn = vec![];
                    let root = self.ids.ptr(ptr, &mut newn);
                    self.pool[res_slot] = ptr;
                    self.smoothed[res_slot] = op == "smooth";
                    self.next_slot += 1;
                    ev["res"] = json!(res_slot);
                    ev["root"] = json!(root);
                    if let Some(pre) = ev.get("pre_nodes").cloned() {
                        let mut all = pre.as_array().unwrap().clone();
                        all.extend(newn);
                        newn = all;
                        ev.as_object_mut().unwrap().remove("pre_nodes");
                    }
                    ev["nodes"] = json!(newn);
                    ev["dirty"] = json!(self.ids.dirty());
                    out.emit(ev);
                    true
                }
                Err(m) => {
                    ev["panic"] = json!(m);
                    out.emit(ev);
                    false
                }
            };
        }
        // ---------------- queries ----------------
        let r: Result<(), String> = match op {
            "eq" => {
                let (a, c) = (self.arg(rng, true), self.arg(rng, true));
                ev["a"] = json!([a, c]);
                let (x, y) = (self.pool[a], self.pool[c]);
                guarded(|| b.eq(x, y)).map(|r| ev["val"] = json!(r))
            }
            "recheck" => {
                let a = rng.below(K);
                ev["a"] = json!([a]);
                let mut dummy = vec![];
                let root = self.ids.ptr(self.pool[a], &mut dummy);
                let mut nodes = vec![];
                self.ids.redump(self.pool[a], &mut vec![], &mut nodes);
                ev["root"] = json!(root);
                ev["nodes"] = json!(nodes);
                Ok(())
            }
            "wmc" | "uwmc" => {
                let a = self.arg(rng, false);
                ev["a"] = json!([a]);
                let x = self.pool[a];
                let kind = *rng.pick(&["real", "bool", "ff", "complex", "eu", "poly", "rat", "polyhi"]);
                let wq = gen_weights(rng, kind, nv, op == "wmc");
                wq.log(&mut ev);
                count_in(x, &wq, nv, &mut ev)
            }
            "eval" => {
                let a = self.arg(rng, false);
                let asg = rng.below(1 << nv);
                ev["a"] = json!([a, asg]);
                let x = self.pool[a];
                let inst: Vec<bool> = (0..nv).map(|i| (asg >> i) & 1 == 1).collect();
                guarded(|| x.evaluate(&inst)).map(|v| ev["val"] = json!(v))
            }
            "count" => {
                let a = self.arg(rng, false);
                ev["a"] = json!([a]);
                let x = self.pool[a];
                guarded(|| x.count_nodes()).map(|v| ev["val"] = json!(v))
            }
            "bfold" => {
                // the public generic fold (per-node memo for both polarities, cleared on return) with two integer folds:
                //   0: low_v = 0, high_v = 1, f(v, l, h) = l + h           (number of paths to the true terminal)
                //   1: low_v = 1, high_v = 2, f(v, l, h) = l + 2 h + v + 1
                // smoothed (deliberately unreduced) diagrams are left out: the fold follows the structure
                let mut a = self.arg(rng, false);
                if self.smoothed[a] {
                    a = 0;
                }
                let which = rng.below(2);
                ev["a"] = json!([a, which]);
                let x = self.pool[a];
                guarded(|| {
                    if which == 0 {
                        x.bdd_fold(&|_v: VarLabel, l: i64, h: i64| l + h, 0i64, 1i64)
                    } else {
                        x.bdd_fold(&|v: VarLabel, l: i64, h: i64| l + 2 * h + v.value() as i64 + 1, 1i64, 2i64)
                    }
                })
                .map(|v| ev["val"] = json!(v))
            }
            "semhash" => {
                let a = self.arg(rng, true);
                ev["a"] = json!([a]);
                let x = self.pool[a];
                let which = rng.below(3);
                match which {
                    0 => {
                        // small prime: TLC recomputes the defining sum natively
                        ev["p"] = json!("32749");
                        let map = create_semantic_hash_map::<32749>(nv);
                        ev["w"] = json!((0..nv)
                            .map(|i| {
                                let (l, h) = map.var_weight(vl(i));
                                vec![vec![l.value() as u64], vec![h.value() as u64]]
                            })
                            .collect::<Vec<_>>());
                        guarded(|| x.semantic_hash(&map)).map(|v| ev["val"] = json!(v.value() as u64))
                    }
                    1 => {
                        ev["p"] = json!("U32_SMALL");
                        let map = create_semantic_hash_map::<{ primes::U32_SMALL }>(nv);
                        guarded(|| (x.semantic_hash(&map), x.neg().semantic_hash(&map))).map(|(v, n)| {
                            ev["limbs"] = json!(limbs(v.value()));
                            ev["nlimbs"] = json!(limbs(n.value()));
                        })
                    }
                    _ => {
                        // fold-based and cached hash (and those of the negation) over this builder's field for cached hashes
                        let order = b.order().clone();
                        macro_rules! both {
                            ($name:literal, $P:expr) => {{
                                ev["p"] = json!($name);
                                let map = create_semantic_hash_map::<{ $P }>(nv);
                                guarded(|| {
                                    (
                                        x.semantic_hash(&map),
                                        x.neg().semantic_hash(&map),
                                        x.cached_semantic_hash(&order, &map),
                                        x.neg().cached_semantic_hash(&order, &map),
                                    )
                                })
                                .map(|(v, n, c, nc)| {
                                    ev["limbs"] = json!(limbs(v.value()));
                                    ev["nlimbs"] = json!(limbs(n.value()));
                                    ev["climbs"] = json!(limbs(c.value()));
                                    ev["nclimbs"] = json!(limbs(nc.value()));
                                })
                            }};
                        }
                        match self.cached_prime {
                            0 => both!("U64_LARGEST", primes::U64_LARGEST),
                            1 => both!("U128_LARGE_1", primes::U128_LARGE_1),
                            2 => both!("U128_LARGE_2", primes::U128_LARGE_2),
                            3 => both!("U128_LARGE_3", primes::U128_LARGE_3),
                            _ => both!("U128_LARGE_4", primes::U128_LARGE_4),
                        }
                    }
                }
            }
            "mmap" | "bb" | "meu" => self.optimise(rng, op, &mut ev),
            _ => unreachable!("{op}"),
        };
        match r {
            Ok(()) => {
                ev["dirty"] = json!(self.ids.dirty());
                out.emit(ev);
                true
            }
            Err(m) => {
                ev["panic"] = json!(m);
                out.emit(ev);
                false
            }
        }
    }

    /// marginal MAP / MEU / generic branch and bound on the stated domain
    fn optimise(&mut self, rng: &mut Rng, op: &str, ev: &mut Value) -> Result<(), String> {
        let nv = self.nv;
        let vl = |v: usize| VarLabel::new_usize(v);
        let a = self.arg(rng, true);
        let x = self.pool[a];
        ev["a"] = json!([a]);
        let is_eu = op == "meu" || (op == "bb" && rng.coin());
        let order = self.order_now();
        // EU domain: the last nr variables of the order bear utilities, they are never decisions
        let nr = if is_eu { rng.range(1, 2).min(nv) } else { 0 };
        let reward: Vec<usize> = order[nv - nr..].to_vec();
        // query / decision variables: random subset in random listing order
        let mut q: Vec<usize> = rng.perm(nv).into_iter().filter(|v| !reward.contains(v)).collect();
        q.truncate(rng.below(q.len() + 1).min(4));
        ev["q"] = json!(q);
        ev["sr"] = json!(if is_eu { "eu" } else { "real" });
        ev["wexp"] = json!(1);
        let qv: Vec<VarLabel> = q.iter().map(|v| vl(*v)).collect();
        let model_json = |m: &PartialModel| {
            json!((0..nv)
                .map(|i| match m.get(vl(i)) {
                    None => -1,
                    Some(false) => 0,
                    Some(true) => 1,
                })
                .collect::<Vec<i32>>())
        };
        let scale = 8f64.powi(nv as i32);
        if !is_eu {
            // probabilities k/8: lo+hi = 1 off the query variables, anything in [0,1] on them.
            // "tiny" runs put the query weights on the scale 1/512 (k <= 2), so that every candidate value is far
            // below any absolute epsilon a pruning test might use; each variable then has its own exponent
            let tiny = rng.chance(1, 3) && !q.is_empty();
            // (1/512 per query variable, or 1/8^7: three such factors are below the f64 machine epsilon)
            let texp = if rng.coin() { 3 } else { 7 };
            let wexps: Vec<u32> = (0..nv).map(|i| if tiny && q.contains(&i) { texp } else { 1 }).collect();
            let ws: Vec<(i64, i64)> = (0..nv)
                .map(|i| {
                    if q.contains(&i) {
                        if tiny { (rng.below(3) as i64, rng.below(3) as i64) } else { (rng.below(9) as i64, rng.below(9) as i64) }
                    } else {
                        let lo = rng.below(9) as i64;
                        (lo, 8 - lo)
                    }
                })
                .collect();
            ev["w"] = json!(ws.iter().map(|(l, h)| vec![vec![*l], vec![*h]]).collect::<Vec<_>>());
            ev["wexps"] = json!(wexps);
            let scale = 8f64.powi(wexps.iter().sum::<u32>() as i32);
            let p = WmcParams::<RealSemiring>::new(HashMap::from_iter(ws.iter().enumerate().map(|(i, (l, h))| {
                let d = 8f64.powi(wexps[i] as i32);
                (vl(i), (RealSemiring(*l as f64 / d), RealSemiring(*h as f64 / d)))
            })));
            let r = if op == "mmap" {
                guarded(|| x.marginal_map(&qv, nv, &p))
            } else {
                guarded(|| {
                    let (v, m) = x.bb(&qv, nv, &p);
                    (v.0, m)
                })
            };
            r.map(|(v, m)| {
                ev["val"] = json!([num(v * scale)]);
                ev["model"] = model_json(&m);
            })
        } else {
            let ws: Vec<((i64, i64), (i64, i64))> = (0..nv)
                .map(|i| {
                    if q.contains(&i) {
                        ((8, 0), (8, 0))
                    } else if reward.contains(&i) {
                        ((8, 0), (8, 8 * rng.below(5) as i64))
                    } else {
                        let lo = rng.below(9) as i64;
                        ((lo, 0), (8 - lo, 0))
                    }
                })
                .collect();
            ev["w"] = json!(ws
                .iter()
                .map(|((lp, lu), (hp, hu))| vec![vec![*lp, *lu], vec![*hp, *hu]])
                .collect::<Vec<_>>());
            let p = WmcParams::<ExpectedUtility>::new(HashMap::from_iter(ws.iter().enumerate().map(
                |(i, ((lp, lu), (hp, hu)))| {
                    (
                        vl(i),
                        (
                            ExpectedUtility(*lp as f64 / 8.0, *lu as f64 / 8.0),
                            ExpectedUtility(*hp as f64 / 8.0, *hu as f64 / 8.0),
                        ),
                    )
                },
            )));
            let r = if op == "meu" {
                guarded(|| x.meu(&qv, nv, &p))
            } else {
                guarded(|| x.bb(&qv, nv, &p))
            };
            r.map(|(v, m)| {
                ev["val"] = json!([num(v.0 * scale), num(v.1 * scale)]);
                ev["model"] = model_json(&m);
            })
        }
    }
}

/// Weights as small integers: component c of a weight is `c / 8^wexp`.
/// `w[v] = (lo components, hi components)`.
pub struct WeightSpec {
    pub kind: &'static str,
    pub p: u64,
    pub wexp: u32,
    pub w: Vec<(Vec<i64>, Vec<i64>)>,
}

impl WeightSpec {
    pub fn log(&self, ev: &mut Value) {
        ev["sr"] = json!(self.kind);
        ev["p"] = json!(self.p);
        ev["wexp"] = json!(self.wexp);
        ev["w"] = json!(self.w.iter().map(|(l, h)| vec![l.clone(), h.clone()]).collect::<Vec<_>>());
    }
}

pub const POLY_D: usize = 6; // logged polynomial coefficients 0..=POLY_D

/// normalised = low + high is the semiring's one on every variable
pub fn gen_weights(rng: &mut Rng, kind: &'static str, nv: usize, normalised: bool) -> WeightSpec {
    let signed = |rng: &mut Rng, m: usize| rng.below(2 * m + 1) as i64 - m as i64;
    let (p, wexp): (u64, u32) = match kind {
        "ff" => (*rng.pick(&[7u64, 13, 251, 32749]), 0),
        "bool" | "rat" => (0, 0),
        _ => (0, if normalised { 1 } else { rng.below(2) as u32 }),
    };
    let w = (0..nv)
        .map(|_| match (kind, normalised) {
            ("real", true) => {
                let k = rng.below(9) as i64;
                (vec![k], vec![8 - k])
            }
            ("real", false) => (vec![rng.below(7) as i64], vec![rng.below(7) as i64]),
            ("bool", true) => match rng.below(3) {
                0 => (vec![1], vec![1]),
                1 => (vec![1], vec![0]),
                _ => (vec![0], vec![1]),
            },
            ("bool", false) => (vec![rng.below(2) as i64], vec![rng.below(2) as i64]),
            ("ff", true) => {
                let k = rng.below(p as usize) as i64;
                (vec![k], vec![(p as i64 + 1 - k) % p as i64])
            }
            ("ff", false) => (vec![rng.below(p as usize) as i64], vec![rng.below(p as usize) as i64]),
            ("rat", true) => {
                if rng.coin() {
                    (vec![0], vec![1])
                } else {
                    (vec![1], vec![0])
                }
            }
            ("rat", false) => (vec![rng.below(5) as i64], vec![rng.below(5) as i64]),
            ("complex", true) | ("eu", true) => {
                let (a, c) = (rng.below(9) as i64, signed(rng, 4));
                (vec![a, c], vec![8 - a, -c])
            }
            ("complex", false) | ("eu", false) => (
                vec![signed(rng, 5), signed(rng, 4)],
                vec![signed(rng, 5), signed(rng, 4)],
            ),
            ("poly", true) => {
                let (a, c) = (rng.below(9) as i64, signed(rng, 3));
                (vec![a, c], vec![8 - a, -c])
            }
            // high-degree weights a + c*t^k: the degrees of the variables add up to about 31, the last coefficient slot
            ("polyhi", nrm) => {
                let base = (31 + nv - 1) / nv.max(1); // degrees add up to 31 +- nv over all variables
                let k = (base + rng.below(3)).saturating_sub(1).clamp(1, 16);
                let (a, c) = (rng.below(9) as i64, if rng.chance(1, 6) { 0 } else { *rng.pick(&[-2i64, -1, 1, 2]) });
                let mut lo = vec![0i64; k + 1];
                let mut hi = vec![0i64; k + 1];
                lo[0] = a;
                lo[k] = c;
                if nrm {
                    hi[0] = 8 - a;
                    hi[k] = -c;
                } else {
                    hi[0] = rng.below(5) as i64;
                    hi[k] = *rng.pick(&[-1i64, 0, 1, 2]);
                }
                (lo, hi)
            }
            ("poly", false) => (
                vec![rng.below(4) as i64, signed(rng, 3)],
                vec![rng.below(4) as i64, signed(rng, 3)],
            ),
            _ => unreachable!(),
        })
        .collect();
    WeightSpec { kind, p, wexp, w }
}

fn params<T: Semiring>(ws: &WeightSpec, f: impl Fn(&[i64]) -> T) -> WmcParams<T> {
    WmcParams::new(HashMap::from_iter(
        ws.w.iter()
            .enumerate()
            .map(|(i, (l, h))| (VarLabel::new_usize(i), (f(l), f(h)))),
    ))
}

/// count `x` under `ws` in the semiring named by `ws.kind`; logs `val` (integer components scaled by 8^(nv*wexp))
pub fn count_in<'a, P: DDNNFPtr<'a>>(x: P, ws: &WeightSpec, nv: usize, ev: &mut Value) -> Result<(), String> {
    let d = 8f64.powi(ws.wexp as i32);
    let total = 8f64.powi((nv as u32 * ws.wexp) as i32);
    match ws.kind {
        "real" => {
            let p = params(ws, |c| RealSemiring(c[0] as f64 / d));
            guarded(|| x.unsmoothed_wmc(&p)).map(|v| ev["val"] = json!([num(v.0 * total)]))
        }
        "bool" => {
            let p = params(ws, |c| BooleanSemiring(c[0] != 0));
            guarded(|| x.unsmoothed_wmc(&p)).map(|v| ev["val"] = json!([v.0 as u8]))
        }
        "rat" => {
            // only naturals are constructible from the public API: one, zero, +, *
            let nat = |c: &[i64]| {
                let mut r = RationalSemiring::zero();
                for _ in 0..c[0] {
                    r = r + RationalSemiring::one();
                }
                r
            };
            let p = params(ws, nat);
            guarded(|| x.unsmoothed_wmc(&p)).map(|v| {
                // Display is "numerator/denominator"
                let s = format!("{}", v);
                let mut it = s.split('/');
                let n: i64 = it.next().unwrap().parse().unwrap();
                let dd: i64 = it.next().unwrap().parse().unwrap();
                ev["val"] = json!([n]);
                ev["den"] = json!(dd);
            })
        }
        "ff" => {
            macro_rules! ff {
                ($P:literal) => {{
                    let p = params(ws, |c| FiniteField::<$P>::new(c[0] as u128));
                    guarded(|| x.unsmoothed_wmc(&p)).map(|v| ev["val"] = json!([v.value() as u64]))
                }};
            }
            match ws.p {
                7 => ff!(7),
                13 => ff!(13),
                251 => ff!(251),
                32749 => ff!(32749),
                _ => unreachable!(),
            }
        }
        "complex" => {
            let p = params(ws, |c| Complex { re: c[0] as f64 / d, im: c[1] as f64 / d });
            guarded(|| x.unsmoothed_wmc(&p)).map(|v| ev["val"] = json!([num(v.re * total), num(v.im * total)]))
        }
        "eu" => {
            let p = params(ws, |c| ExpectedUtility(c[0] as f64 / d, c[1] as f64 / d));
            guarded(|| x.unsmoothed_wmc(&p)).map(|v| ev["val"] = json!([num(v.0 * total), num(v.1 * total)]))
        }
        "polyhi" => {
            let p = params(ws, |c| {
                let mut q = Polynomial::<RealSemiring>::zero();
                for (i, x) in c.iter().enumerate() {
                    q.coefficients[i] = RealSemiring(*x as f64 / d);
                }
                q.len = c.len();
                q
            });
            guarded(|| x.unsmoothed_wmc(&p)).map(|v| {
                ev["val"] = json!((0..32).map(|i| num(v.coefficients[i].0 * total)).collect::<Vec<_>>());
            })
        }
        "poly" => {
            let p = params(ws, |c| {
                let mut q = Polynomial::<RealSemiring>::zero();
                q.coefficients[0] = RealSemiring(c[0] as f64 / d);
                q.coefficients[1] = RealSemiring(c[1] as f64 / d);
                q.len = 2;
                q
            });
            guarded(|| x.unsmoothed_wmc(&p)).map(|v| {
                ev["val"] = json!((0..=POLY_D).map(|i| num(v.coefficients[i].0 * total)).collect::<Vec<_>>());
                // everything beyond the logged prefix must be zero
                ev["tail0"] = json!(v.coefficients[POLY_D + 1..].iter().all(|c| c.0 == 0.0));
                ev["plen"] = json!(v.len);
            })
        }
        _ => unreachable!(),
    }
}

pub fn run_segment<'a, T: IteTable<'a, BddPtr<'a>> + Default>(
    b: &'a RobddBuilder<'a, T>,
    cfg: &SegCfg,
    rng: &mut Rng,
    mode: &str,
    len: usize,
    out: &mut Out,
) {
    out.emit(json!({
        "ev": "reset", "n0": cfg.n0, "order": cfg.order, "cache": cfg.cache,
        "tcap": cfg.tcap, "ccap": cfg.ccap.map(|c| c as i64).unwrap_or(-1),
    }));
    let mut pool = vec![BddPtr::PtrTrue; K];
    pool[1] = BddPtr::PtrFalse;
    let mut s = Session {
        b,
        ids: Ids::new(),
        pool,
        smoothed: vec![false; K],
        nv: cfg.n0,
        nmax: cfg.nmax,
        next_slot: 0,
        cached_prime: rng.below(5),
    };
    for step_no in 0..len {
        if mode == "c07" && step_no == len / 2 {
            s.wrap_script(rng, out);
        }
        if mode == "c10" {
            // purity (C10): the same call, with the same parameters, is repeated on a freshly built copy of the
            // whole pool in a fresh builder; both raw answers are logged side by side
            let r0 = rng.clone();
            let before = s.pool.clone();
            let (sm, nv, ns) = (s.smoothed.clone(), s.nv, s.next_slot);
            let order = s.order_now();
            let mut o1 = Out::memory();
            let alive = s.step(rng, mode, &mut o1);
            let mut e = o1.mem.unwrap().pop().unwrap();
            if e.get("panic").is_none() {
                let slot = e.get("res").and_then(|x| x.as_u64()).map(|x| x as usize);
                if let Some(sl) = slot {
                    e["shape"] = json!(shape(s.pool[sl]).to_string());
                }
                match guarded(|| fresh_answer(&order, &before, &sm, nv, ns, s.cached_prime, r0, mode)) {
                    Ok(f) => {
                        for k in ["val", "model", "limbs", "nlimbs", "climbs", "nclimbs", "shape", "panic"] {
                            if let Some(v) = f.get(k) {
                                e[format!("f_{k}")] = v.clone();
                            }
                        }
                        e["fresh"] = json!(true);
                    }
                    Err(m) => e["f_panic"] = json!(m),
                }
            }
            out.emit(e);
            if !alive {
                break;
            }
            continue;
        }
        if !s.step(rng, mode, out) {
            break;
        }
    }
}

/// structure of a diagram unfolded into a tree (independent of node identities)
fn shape(p: BddPtr) -> Value {
    match p {
        BddPtr::PtrTrue => json!("T"),
        BddPtr::PtrFalse => json!("F"),
        BddPtr::Reg(n) | BddPtr::Compl(n) => {
            json!([n.var.value_usize(), shape(n.low), shape(n.high), matches!(p, BddPtr::Compl(_)) as u8])
        }
    }
}

fn copy_into<'a, 'b, T: IteTable<'b, BddPtr<'b>> + Default>(
    b2: &'b RobddBuilder<'b, T>,
    p: BddPtr<'a>,
    memo: &mut HashMap<usize, BddPtr<'b>>,
) -> BddPtr<'b> {
    match p {
        BddPtr::PtrTrue => BddPtr::PtrTrue,
        BddPtr::PtrFalse => BddPtr::PtrFalse,
        BddPtr::Reg(n) | BddPtr::Compl(n) => {
            let addr = n as *const BddNode as usize;
            let r = if let Some(r) = memo.get(&addr) {
                *r
            } else {
                let lo = copy_into(b2, n.low, memo);
                let hi = copy_into(b2, n.high, memo);
                let r = b2.get_or_insert(BddNode::new(n.var, lo, hi));
                memo.insert(addr, r);
                r
            };
            if matches!(p, BddPtr::Compl(_)) { r.neg() } else { r }
        }
    }
}

/// run the step that `r0` determines on fresh copies of `pool` in a fresh builder (always with the
/// cache-everything table: the cache kind is irrelevant to purity); returns its event
fn fresh_answer(order: &[usize], pool: &[BddPtr], smoothed: &[bool], nv: usize, next_slot: usize, cached_prime: usize, mut r0: Rng, mode: &str) -> Value {
    let b2 = RobddBuilder::<AllIteTable<BddPtr>>::new(VarOrder::new(&order.iter().map(|v| VarLabel::new_usize(*v)).collect::<Vec<_>>()));
    let mut memo = HashMap::new();
    let p2: Vec<BddPtr> = pool.iter().map(|p| copy_into(&b2, *p, &mut memo)).collect();
    let mut s2 = Session { b: &b2, ids: Ids::new(), pool: p2, smoothed: smoothed.to_vec(), nv, nmax: nv, next_slot, cached_prime };
    let mut o = Out::memory();
    s2.step(&mut r0, mode, &mut o);
    let mut e = o.mem.unwrap().pop().unwrap();
    if let Some(sl) = e.get("res").and_then(|x| x.as_u64()) {
        e["shape"] = json!(shape(s2.pool[sl as usize]).to_string());
    }
    e
}

pub fn rand_cfg(rng: &mut Rng, nmax: usize, mode: &str) -> SegCfg {
    // C02 wants table growth in almost every segment; C16 is driven by lock-step (see main)
    let n0 = match mode {
        // c08: builders that start with fewer variables and grow (new_var / new_pos / new_neg) before they smooth
        "c01" | "c02" | "c08" => rng.range(nmax.saturating_sub(3).max(1), nmax),
        _ => nmax,
    };
    let order = rng.perm(n0);
    let cache = if rng.coin() { "all" } else { "lru" };
    let tcap = match mode {
        "c02" => *rng.pick(&[1usize, 2, 3, 4, 8, 16]),
        _ => *rng.pick(&[0usize, 0, 2, 4, 16, 64]),
    };
    let ccap = if cache == "lru" { Some(*rng.pick(&[0usize, 1, 2, 4, 16])) } else { None };
    SegCfg { n0, nmax, order, cache, tcap, ccap }
}

fn run_cfg(cfg: &SegCfg, rng: &mut Rng, mode: &str, len: usize, out: &mut Out) {
    rsdd::verif::set_table_capacity(cfg.tcap);
    rsdd::verif::set_lru_capacity(cfg.ccap);
    let order: Vec<VarLabel> = cfg.order.iter().map(|v| VarLabel::new_usize(*v)).collect();
    if cfg.cache == "all" {
        let b = RobddBuilder::<AllIteTable<BddPtr>>::new(VarOrder::new(&order));
        run_segment(&b, cfg, rng, mode, len, out);
    } else {
        let b = RobddBuilder::<LruIteTable<BddPtr>>::new(VarOrder::new(&order));
        run_segment(&b, cfg, rng, mode, len, out);
    }
}

/// purity at SIZE (mode c10): a builder of its own over 2k variables, the CNF AND_i (x_i | y_i) with every x ordered before every y
/// (a BDD of 2^(k+1) - 2 nodes; k = 12 or 13), compiled plainly and under an (empty or small) partial assignment, then queried; after every
/// call the recorder walks ALL nodes reachable from the diagrams built so far and reports how many scratch slots are not empty, and for
/// `count_nodes` the number of reachable nodes of its argument. One `bigpure` event per call (a stuttering step of the specification).
fn big_purity(rng: &mut Rng, out: &mut Out) {
    use std::collections::HashSet;
    let k = 12 + rng.below(2);
    let n = 2 * k;
    let b = RobddBuilder::<AllIteTable<BddPtr>>::new(VarOrder::linear_order(n));
    let cl: Vec<Vec<Literal>> = (0..k).map(|i| vec![Literal::new(VarLabel::new_usize(i), true), Literal::new(VarLabel::new_usize(i + k), true)]).collect();
    let cnf = Cnf::new(&cl);
    let mut roots: Vec<BddPtr> = vec![];
    fn reach<'a>(p: BddPtr<'a>, seen: &mut HashSet<usize>, dirty: &mut usize) {
        if let BddPtr::Reg(nd) | BddPtr::Compl(nd) = p {
            if seen.insert(nd as *const BddNode as usize) {
                if !BddPtr::Reg(nd).is_scratch_cleared() {
                    *dirty += 1;
                }
                reach(nd.low, seen, dirty);
                reach(nd.high, seen, dirty);
            }
        }
    }
    let w = WmcParams::<RealSemiring>::new((0..n).map(|v| (VarLabel::new_usize(v), (RealSemiring(0.5), RealSemiring(0.5)))).collect());
    for op in ["cnf", "cnfa", "count", "wmc", "cnfa1", "count", "cond", "count", "eval", "count"] {
        let mut ev = json!({"ev": "bigpure", "op": op, "k": k, "count": -1, "reach": -1});
        let last = roots.last().copied().unwrap_or(BddPtr::PtrTrue);
        let r: Result<Option<BddPtr>, String> = match op {
            "cnf" => guarded(|| Some(b.compile_cnf(&cnf))),
            "cnfa" => guarded(|| Some(b.compile_cnf_with_assignments(&cnf, &PartialModel::new(n)))),
            "cnfa1" => {
                let mut m = PartialModel::new(n);
                m.set(VarLabel::new_usize(rng.below(k)), false);
                guarded(|| Some(b.compile_cnf_with_assignments(&cnf, &m)))
            }
            "cond" => guarded(|| Some(b.condition(last, VarLabel::new_usize(k + rng.below(k)), rng.coin()))),
            "count" => guarded(|| {
                let c = last.count_nodes();
                let (mut s, mut d) = (HashSet::new(), 0usize);
                reach(last, &mut s, &mut d);
                ev["count"] = json!(c);
                ev["reach"] = json!(s.len());
                None
            }),
            "wmc" => guarded(|| {
                let _ = last.unsmoothed_wmc(&w);
                None
            }),
            _ => guarded(|| {
                let _ = last.evaluate(&vec![true; n]);
                None
            }),
        };
        match r {
            Ok(Some(p)) => roots.push(p),
            Ok(None) => {}
            Err(m) => ev["panic"] = json!(m),
        }
        let (mut seen, mut dirty) = (HashSet::new(), 0usize);
        for p in &roots {
            reach(*p, &mut seen, &mut dirty);
        }
        ev["dirty"] = json!(dirty);
        ev["nodes"] = json!(seen.len());
        out.emit(ev);
    }
}

pub fn record(args: &Args) {
    let seed = args.num("seed", 1);
    let segs = args.num("segments", 4) as usize;
    let len = args.num("len", 300) as usize;
    let nmax = args.num("nmax", 5) as usize;
    let mode = args.str("mode", "c01");
    let mut out = Out::new(&args.str("out", "-"));
    let mut rng = Rng::new(seed);
    out.emit(json!({"ev": "init", "kind": "bdd", "nmax": nmax, "k": K, "mode": mode, "seed": seed}));
    if mode == "c10" {
        let mut r2 = Rng::new(seed ^ 0xb19);
        big_purity(&mut r2, &mut out);
    }
    for _ in 0..segs {
        let cfg = rand_cfg(&mut rng, nmax, &mode);
        if mode == "c16" {
            // lock-step: the same program (same random stream) under the cache-everything table and
            // under a tiny lossy cache; the twin's raw answers are attached to the primary's events
            let mut primary = cfg.clone();
            primary.cache = "all";
            primary.ccap = None;
            let mut twin = cfg.clone();
            twin.cache = "lru";
            twin.ccap = Some(*rng.pick(&[0usize, 1, 2, 4]));
            let mut r1 = rng.clone();
            let mut r2 = rng.clone();
            let mut o1 = Out::memory();
            let mut o2 = Out::memory();
            run_cfg(&primary, &mut r1, &mode, len, &mut o1);
            run_cfg(&twin, &mut r2, &mode, len, &mut o2);
            rng = r1;
            let (a, b) = (o1.mem.unwrap(), o2.mem.unwrap());
            for (i, mut e) in a.into_iter().enumerate() {
                if i == 0 {
                    e["twin_ccap"] = json!(twin.ccap.unwrap());
                } else if let Some(t) = b.get(i) {
                    e["tev"] = t["ev"].clone();
                    e["ta"] = t.get("a").cloned().unwrap_or(json!([]));
                    for k in ["root", "nodes", "val", "panic"] {
                        if let Some(v) = t.get(k) {
                            e[format!("t{k}")] = v.clone();
                        }
                    }
                } else {
                    e["tev"] = json!("missing");
                }
                out.emit(e);
            }
        } else {
            run_cfg(&cfg, &mut rng, &mode, len, &mut out);
        }
    }
    rsdd::verif::set_table_capacity(0);
    rsdd::verif::set_lru_capacity(None);
    out.flush();
}
