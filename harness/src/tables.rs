//! Drivers for the two stateful containers behind the builders:
//! `BackedRobinhoodTable` (unique table, through the rsdd_verif re-export) and `util::lru::Lru`.
//!   record: seeded random histories -> ndjson (validated by spec/TraceTable.tla, spec/TraceLru.tla)
//!   replay: behaviours enumerated by TLC from the bounded models -> replayed into the real code
use crate::util::*;
use rsdd::util::lru::Lru;
use rsdd::verif::BackedRobinhoodTable;
use serde_json::{json, Value};
use std::collections::HashMap;

struct RealTable {
    tbl: *mut BackedRobinhoodTable<'static, u64>,
    ids: HashMap<usize, usize>,
}

impl RealTable {
    fn new(cap: usize) -> RealTable {
        RealTable {
            tbl: Box::into_raw(Box::new(BackedRobinhoodTable::with_capacity(cap))),
            ids: HashMap::new(),
        }
    }
    fn id_of(&mut self, addr: usize) -> usize {
        let n = self.ids.len() + 1;
        *self.ids.entry(addr).or_insert(n)
    }
    fn goi(&mut self, h: u64, k: u64, byhash: bool) -> Result<usize, String> {
        let t = self.tbl;
        let r = guarded(|| unsafe { (&mut *t).get_or_insert_by_hash(h, k, byhash) as *const u64 as usize })?;
        Ok(self.id_of(r))
    }
    fn gbh(&mut self, h: u64) -> Result<usize, String> {
        let t = self.tbl;
        let r = guarded(|| unsafe { (&mut *t).get_by_hash(h).map(|p| p as *const u64 as usize) })?;
        Ok(match r {
            None => 0,
            Some(a) => self.id_of(a),
        })
    }
    fn slots(&mut self) -> Value {
        let v = unsafe { (&*self.tbl).dump_slots() };
        json!(v
            .iter()
            .map(|s| {
                let id = if s.occupied { *self.ids.get(&s.addr).unwrap_or(&0) } else { 0 };
                vec![s.occupied as u64, s.hash & 0xffff_ffff, s.psl as u64, id as u64, s.hash >> 32]
            })
            .collect::<Vec<_>>())
    }
}

impl Drop for RealTable {
    fn drop(&mut self) {
        unsafe { drop(Box::from_raw(self.tbl)) }
    }
}

pub fn record_table(args: &Args) {
    let seed = args.num("seed", 1);
    let segs = args.num("segments", 20) as usize;
    let len = args.num("len", 60) as usize;
    let mut out = Out::new(&args.str("out", "-"));
    let byhash_mode = args.str("byhash", "mixed");
    let mut rng = Rng::new(seed ^ 0x7ab1e);
    out.emit(json!({"ev": "init", "kind": "table", "seed": seed}));
    for _ in 0..segs {
        let byhash = match byhash_mode.as_str() {
            "only" => true,
            "never" => false,
            _ => rng.chance(1, 3),
        };
        // hashes are 64-bit: hi * 2^32 + lo. With "wide" hashes different keys may agree on the low
        // 32 bits only (a table that compares a truncated hash would confuse them); then capacities are
        // powers of two so that the home slot depends on lo alone
        let wide = rng.chance(1, 2);
        let cap = if wide { *rng.pick(&[1usize, 2, 2, 4, 4, 8]) } else { *rng.pick(&[1usize, 2, 2, 3, 4, 4, 5, 8]) };
        let nkeys = rng.range(2, 12);
        let hrange = rng.range(1, 8) as u64;
        let hfun: Vec<u64> = (0..nkeys)
            .map(|_| {
                let lo = rng.below(hrange as usize) as u64;
                let hi = if wide { rng.below(3) as u64 } else { 0 };
                (hi << 32) | lo
            })
            .collect();
        out.emit(json!({"ev": "treset", "cap": cap, "byhash": byhash, "wide": wide}));
        let mut t = RealTable::new(cap);
        for _ in 0..len {
            if rng.chance(1, 7) {
                let h = if rng.coin() { hfun[rng.below(nkeys)] } else { rng.below(hrange as usize) as u64 };
                match t.gbh(h) {
                    Ok(r) => out.emit(json!({"ev": "gbh", "h": [h >> 32, h & 0xffff_ffff], "ret": r})),
                    Err(m) => {
                        out.emit(json!({"ev": "gbh", "h": [h >> 32, h & 0xffff_ffff], "panic": m}));
                        break;
                    }
                }
            } else {
                let k = rng.below(nkeys);
                let h = hfun[k];
                match t.goi(h, k as u64 + 1, byhash) {
                    Ok(r) => {
                        let s = t.slots();
                        out.emit(json!({"ev": "goi", "h": [h >> 32, h & 0xffff_ffff], "k": k + 1, "ret": r, "slots": s}))
                    }
                    Err(m) => {
                        out.emit(json!({"ev": "goi", "h": [h >> 32, h & 0xffff_ffff], "k": k + 1, "panic": m}));
                        break;
                    }
                }
            }
        }
    }
    out.flush();
}

/// vectors: one JSON object per line {"cap":c,"byhash":b,"ops":[[k,h,ret],..],"slots":[[occ,hash,psl,id]..]}
pub fn replay_table(args: &Args) {
    let path = args.str("in", "");
    let text = std::fs::read_to_string(&path).expect("read vectors");
    let (mut n, mut steps) = (0usize, 0usize);
    let mut bad: Vec<Value> = vec![];
    let mut drift: Vec<Value> = vec![];
    for line in text.lines() {
        let v: Value = serde_json::from_str(line).expect("vector json");
        n += 1;
        let cap = v["cap"].as_u64().unwrap() as usize;
        let byhash = v["byhash"].as_bool().unwrap();
        let mut t = RealTable::new(cap);
        let mut got = vec![];
        let mut failed = false;
        for op in v["ops"].as_array().unwrap() {
            let (k, h, exp) = (op[0].as_u64().unwrap(), op[1].as_u64().unwrap(), op[2].as_u64().unwrap());
            steps += 1;
            match t.goi(h, k, byhash) {
                Ok(r) => {
                    got.push(json!(r));
                    if r as u64 != exp {
                        failed = true;
                    }
                }
                Err(m) => {
                    got.push(json!(m));
                    failed = true;
                    break;
                }
            }
        }
        if failed {
            if bad.len() < 20 {
                bad.push(json!({"vector": v, "got": got}));
            } else {
                bad.push(json!(null));
            }
        } else if t.slots() != v["slots"] && drift.len() < 5 {
            drift.push(json!({"vector": v, "got_slots": t.slots()}));
        }
    }
    let nbad = bad.len();
    bad.retain(|b| !b.is_null());
    println!("{}", json!({"vectors": n, "steps": steps, "mismatches": nbad, "bad": bad, "drift": drift}));
}

// ------------------------------------------------------------------ Lru

pub fn record_lru(args: &Args) {
    let seed = args.num("seed", 1);
    let segs = args.num("segments", 20) as usize;
    let len = args.num("len", 80) as usize;
    let mut out = Out::new(&args.str("out", "-"));
    let mut rng = Rng::new(seed ^ 0x1a0);
    out.emit(json!({"ev": "init", "kind": "lru", "seed": seed}));
    // --big 1: tables of 2^9 .. 2^11 slots filled up to and across their growth; around the growth keys that sit in high slots are
    // re-inserted with a NEW value, a key that collides with them in the grown table is inserted, and they are read back (a growth that
    // is spread over several calls must not bring an older value back)
    if args.num("big", 0) != 0 {
        for _ in 0..segs {
            let cap = 9 + rng.below(3);
            let slots = 1usize << cap;
            out.emit(json!({"ev": "lreset", "cap": cap}));
            let mut lru: Lru<u64, u64> = Lru::new(cap);
            let mut next_val = 1u64;
            let t0 = (slots * 7) / 10;
            let mut ins = |lru: &mut Lru<u64, u64>, k: u64, out: &mut Out, next_val: &mut u64| -> bool {
                let v = *next_val;
                *next_val += 1;
                match guarded(|| lru.insert(k, v, k)) {
                    Ok(()) => {
                        out.emit(json!({"ev": "lins", "k": k, "v": v, "h": k}));
                        true
                    }
                    Err(m) => {
                        out.emit(json!({"ev": "lins", "k": k, "v": v, "h": k, "panic": m}));
                        false
                    }
                }
            };
            let get = |lru: &Lru<u64, u64>, k: u64, out: &mut Out| match guarded(|| lru.get(k, k)) {
                Ok(r) => out.emit(json!({"ev": "lget", "k": k, "h": k, "ret": r.map(|x| x as i64).unwrap_or(-1)})),
                Err(m) => out.emit(json!({"ev": "lget", "k": k, "h": k, "panic": m})),
            };
            let mut alive = true;
            for k in 0..(t0 + 12) {
                if !alive {
                    break;
                }
                alive = ins(&mut lru, k as u64, &mut out, &mut next_val);
                if alive && k + 6 >= t0 {
                    // around the growth: a resident key of a high slot gets a new value, its collider in the doubled table follows, read back
                    let victim = (k - 1 - rng.below(40)) as u64;
                    alive = ins(&mut lru, victim, &mut out, &mut next_val);
                    if alive && rng.coin() {
                        alive = ins(&mut lru, victim + 2 * slots as u64, &mut out, &mut next_val);
                    }
                    get(&lru, victim, &mut out);
                    get(&lru, rng.below(k + 1) as u64, &mut out);
                }
            }
            for _ in 0..60 {
                get(&lru, rng.below(t0 + 12) as u64, &mut out);
            }
        }
        out.flush();
        return;
    }
    for _ in 0..segs {
        let cap = rng.below(4);
        let nkeys = rng.range(2, 10);
        let hrange = rng.range(1, 12);
        // mostly a function of the key, sometimes a fresh hash per call (the statement allows arbitrary hashes)
        let hfun: Vec<u64> = (0..nkeys).map(|_| rng.below(hrange) as u64).collect();
        let per_call = false; // domain of C16: the hash is a function of the key
        out.emit(json!({"ev": "lreset", "cap": cap}));
        let mut lru: Lru<u64, u64> = Lru::new(cap);
        let mut next_val = 1u64;
        // the keys given to the cache: in half of the segments the recorded key k stands for a 64-bit key whose LOW 32 bits are k % 3,
        // i.e. several keys differ only above bit 32 (address-like keys; a cache that keeps a 32-bit digest of the key confuses them)
        let wide_keys = rng.coin();
        let key_of = move |k: usize| -> u64 { if wide_keys { (k % 3) as u64 | ((k as u64 + 1) << 33) } else { k as u64 } };
        if cap >= 1 && rng.chance(1, 3) {
            // scripted: key K sits in slot i of a table of S slots and its hash has bit S set and bit 2S clear; filler keys (hash = key)
            // run through every hash that is NOT congruent to i modulo S, so no filler ever lands in slot i or in K's later home, and every
            // filler gets a slot of its own (the table keeps filling up); K gets a NEW value after
            // every filler and is read back every time, while the fillers push the table through several growths (a growth that leaves
            // a copy behind, or brings an old copy back, shows as a value older than the last one stored)
            let slots = 1u64 << cap;
            let i = rng.below(slots as usize) as u64;
            let kk = i + slots;
            let ins = |lru: &mut Lru<u64, u64>, k: u64, out: &mut Out, next_val: &mut u64| {
                let v = *next_val;
                *next_val += 1;
                match guarded(|| lru.insert(k, v, k)) {
                    Ok(()) => out.emit(json!({"ev": "lins", "k": k, "v": v, "h": k})),
                    Err(m) => out.emit(json!({"ev": "lins", "k": k, "v": v, "h": k, "panic": m})),
                }
            };
            let get = |lru: &Lru<u64, u64>, k: u64, out: &mut Out| match guarded(|| lru.get(k, k)) {
                Ok(r) => out.emit(json!({"ev": "lget", "k": k, "h": k, "ret": r.map(|x| x as i64).unwrap_or(-1)})),
                Err(m) => out.emit(json!({"ev": "lget", "k": k, "h": k, "panic": m})),
            };
            ins(&mut lru, kk, &mut out, &mut next_val);
            for t in (0..(9 * slots)).filter(|t| t % slots != i) {
                ins(&mut lru, t, &mut out, &mut next_val);
                get(&lru, kk, &mut out);
                if t % 2 == 0 {
                    ins(&mut lru, kk, &mut out, &mut next_val);
                    get(&lru, kk, &mut out);
                }
            }
            continue;
        }
        for _ in 0..len {
            let k = rng.below(nkeys);
            let h = if per_call { rng.below(hrange) as u64 } else { hfun[k] };
            if rng.coin() {
                let v = next_val;
                next_val += 1;
                match guarded(|| lru.insert(key_of(k), v, h)) {
                    Ok(()) => out.emit(json!({"ev": "lins", "k": k, "v": v, "h": h})),
                    Err(m) => {
                        out.emit(json!({"ev": "lins", "k": k, "v": v, "h": h, "panic": m}));
                        break;
                    }
                }
            } else {
                match guarded(|| lru.get(key_of(k), h)) {
                    Ok(r) => out.emit(json!({"ev": "lget", "k": k, "h": h, "ret": r.map(|x| x as i64).unwrap_or(-1)})),
                    Err(m) => {
                        out.emit(json!({"ev": "lget", "k": k, "h": h, "panic": m}));
                        break;
                    }
                }
            }
        }
    }
    out.flush();
}

/// vectors: {"cap":c,"ops":[["i",k,v,h] | ["g",k,h,ret,last]]}; ret = model's answer (-1 none),
/// last = value last inserted under k (-1 none). Alarm: real answer not in {-1, last}. Drift: != ret.
pub fn replay_lru(args: &Args) {
    let path = args.str("in", "");
    let text = std::fs::read_to_string(&path).expect("read vectors");
    let (mut n, mut steps, mut nbad, mut ndrift) = (0usize, 0usize, 0usize, 0usize);
    let mut bad: Vec<Value> = vec![];
    let mut drift: Vec<Value> = vec![];
    for line in text.lines() {
        let v: Value = serde_json::from_str(line).expect("vector json");
        n += 1;
        let cap = v["cap"].as_u64().unwrap() as usize;
        let mut lru: Lru<u64, u64> = Lru::new(cap);
        let (mut failed, mut drifted) = (false, false);
        let mut got = vec![];
        // every other behaviour is replayed with 64-bit keys that differ only above bit 32 (low 32 bits = k % 2)
        let wide_keys = n % 2 == 0;
        let key_of = |k: u64| -> u64 { if wide_keys { (k % 2) | ((k + 1) << 33) } else { k } };
        for op in v["ops"].as_array().unwrap() {
            steps += 1;
            if op[0] == "i" {
                let (k, val, h) = (key_of(op[1].as_u64().unwrap()), op[2].as_u64().unwrap(), op[3].as_u64().unwrap());
                if guarded(|| lru.insert(k, val, h)).is_err() {
                    failed = true;
                    break;
                }
            } else {
                let (k, h, ret, last) = (key_of(op[1].as_u64().unwrap()), op[2].as_u64().unwrap(), op[3].as_i64().unwrap(), op[4].as_i64().unwrap());
                match guarded(|| lru.get(k, h)) {
                    Ok(r) => {
                        let r = r.map(|x| x as i64).unwrap_or(-1);
                        got.push(r);
                        if r != -1 && r != last {
                            failed = true;
                        }
                        if r != ret {
                            drifted = true;
                        }
                    }
                    Err(_) => {
                        failed = true;
                        break;
                    }
                }
            }
        }
        if failed {
            nbad += 1;
            if bad.len() < 20 {
                bad.push(json!({"vector": v, "got": got}));
            }
        } else if drifted {
            ndrift += 1;
            if drift.len() < 5 {
                drift.push(json!({"vector": v, "got": got}));
            }
        }
    }
    println!("{}", json!({"vectors": n, "steps": steps, "mismatches": nbad, "bad": bad, "ndrift": ndrift, "drift": drift}));
}
