//! `rv record machine`: sessions of a real `RobddBuilder<AllIteTable>` for spec/TraceMachine.tla (the binding of BddMachine.tla).
//! One variable order per trace (the order is a constant of the instantiated specification), several fresh builders per trace.
//! Every public call is logged with its arguments and result as structural pointers and the builder's public recursion counter
//! after the call. The recorder judges nothing.
use crate::util::{guarded, Args, Out, Rng};
use rsdd::builder::bdd::RobddBuilder;
use rsdd::builder::cache::AllIteTable;
use rsdd::builder::BottomUpBuilder;
use rsdd::builder::bdd::BddBuilder;
use rsdd::repr::{BddPtr, Cnf, DDNNFPtr, Literal, PartialModel, VarLabel, VarOrder};
use serde_json::{json, Value};

/// [0] = true, [1] = false, [compl, var, low_raw, high_raw] otherwise (unfolded: the diagrams are tiny)
fn sp(p: BddPtr) -> Value {
    match p {
        BddPtr::PtrTrue => json!([0]),
        BddPtr::PtrFalse => json!([1]),
        BddPtr::Reg(n) | BddPtr::Compl(n) => {
            json!([if p.is_neg() { 1 } else { 0 }, n.var.value_usize(), sp(n.low), sp(n.high)])
        }
    }
}

pub fn record(args: &Args) {
    let seed = args.num("seed", 1);
    let segments = args.num("segments", 6) as usize;
    let len = args.num("len", 40) as usize;
    let nmax = (args.num("nmax", 3) as usize).clamp(2, 4);
    let c05 = args.str("mode", "c01") == "c05";
    let mut out = Out::new(&args.str("out", "-"));
    let mut rng = Rng::new(seed);
    let nv = rng.range(2, nmax);
    let ord = rng.perm(nv);
    out.emit(json!({"ev": "init", "kind": "machine", "seed": seed, "nv": nv, "ord": ord}));
    for _ in 0..segments {
        let order = VarOrder::new(&ord.iter().map(|v| VarLabel::new_usize(*v)).collect::<Vec<_>>());
        let b: &'static RobddBuilder<'static, AllIteTable<BddPtr<'static>>> = Box::leak(Box::new(RobddBuilder::new(order)));
        let mut pool: Vec<BddPtr<'static>> = vec![BddPtr::PtrTrue, BddPtr::PtrFalse];
        for v in 0..nv {
            let x = b.var(VarLabel::new_usize(v), true);
            pool.push(x);
            pool.push(x.neg());
        }
        out.emit(json!({"ev": "reset", "calls": b.num_recursive_calls()}));
        for _ in 0..len {
            let f = *rng.pick(&pool);
            let g = *rng.pick(&pool);
            let h = *rng.pick(&pool);
            let v = rng.below(nv);
            let pol = rng.coin();
            // --mode c05: compilations only (their L1 conjunct is C05's statement); default: the operations of C01
            let op = if c05 { "cnf" } else { *rng.pick(&["ite", "ite", "and", "or", "xor", "iff", "cond", "exists", "compose", "and_lst", "or_lst", "cond_model"]) };
            let lst: Vec<BddPtr<'static>> = (0..rng.below(5)).map(|_| *rng.pick(&pool)).collect();
            // a partial model: each variable unassigned / false / true
            let pm_lits: Vec<Literal> = (0..nv).filter_map(|x| match rng.below(3) { 0 => None, k => Some(Literal::new(VarLabel::new_usize(x), k == 1)) }).collect();
            let pm = PartialModel::from_litvec(&pm_lits, nv);
            let pm_json: Vec<i64> = pm_lits.iter().map(|l| if l.polarity() { l.label().value_usize() as i64 + 1 } else { -(l.label().value_usize() as i64 + 1) }).collect();
            // compile_cnf: the STORED clauses (as Cnf::new normalised them) are logged, literals +-(v+1)
            let ncl = if rng.chance(1, 12) { 0 } else { rng.range(1, 5) };
            let clauses: Vec<Vec<Literal>> = (0..ncl)
                .map(|_| {
                    let w = if rng.chance(1, 15) { 0 } else { rng.range(1, 3) };
                    (0..w).map(|_| Literal::new(VarLabel::new_usize(rng.below(nv)), rng.coin())).collect()
                })
                .collect();
            let cnf = Cnf::new(&clauses);
            let stored: Vec<Vec<i64>> = cnf
                .clauses()
                .iter()
                .map(|c| c.iter().map(|l| if l.polarity() { l.label().value_usize() as i64 + 1 } else { -(l.label().value_usize() as i64 + 1) }).collect())
                .collect();
            let mut ev = match op {
                "ite" => json!({"ev": "op", "op": op, "args": [sp(f), sp(g), sp(h)]}),
                "cond" => json!({"ev": "op", "op": op, "args": [sp(f)], "v": v, "b": pol}),
                "exists" => json!({"ev": "op", "op": op, "args": [sp(f)], "v": v}),
                "compose" => json!({"ev": "op", "op": op, "args": [sp(f), sp(g)], "v": v}),
                "cnf" => json!({"ev": "op", "op": op, "args": [], "cnf": stored}),
                "and_lst" | "or_lst" => json!({"ev": "op", "op": op, "args": lst.iter().map(|p| sp(*p)).collect::<Vec<_>>()}),
                "cond_model" => json!({"ev": "op", "op": op, "args": [sp(f)], "lits": pm_json}),
                _ => json!({"ev": "op", "op": op, "args": [sp(f), sp(g)]}),
            };
            let lbl = VarLabel::new_usize(v);
            let r = guarded(|| match op {
                "ite" => b.ite(f, g, h),
                "and" => b.and(f, g),
                "or" => b.or(f, g),
                "xor" => b.xor(f, g),
                "iff" => b.iff(f, g),
                "cond" => b.condition(f, lbl, pol),
                "exists" => b.exists(f, lbl),
                "cnf" => b.compile_cnf(&cnf),
                "and_lst" => b.and_lst(&lst),
                "or_lst" => b.or_lst(&lst),
                "cond_model" => b.condition_model(f, &pm),
                _ => b.compose(f, lbl, g),
            });
            match r {
                Ok(r) => {
                    ev["res"] = sp(r);
                    ev["calls"] = json!(b.num_recursive_calls());
                    out.emit(ev);
                    if !r.is_const() {
                        pool.push(r);
                        pool.push(r.neg());
                    }
                    if pool.len() > 40 {
                        let k = 2 + 2 * nv + rng.below(pool.len() - 2 - 2 * nv);
                        pool.swap_remove(k);
                    }
                }
                Err(msg) => {
                    ev["panic"] = json!(msg);
                    out.emit(ev);
                    break;
                }
            }
        }
    }
    out.flush();
}

/// structural pointer -> diagram of builder `b` (the public get_or_insert normalises; the printed pointers are normal already)
fn unsp<'a>(b: &'a RobddBuilder<'a, AllIteTable<BddPtr<'a>>>, v: &Value) -> BddPtr<'a> {
    let a = v.as_array().unwrap();
    if a.len() == 1 {
        return if a[0].as_u64().unwrap() == 0 { BddPtr::PtrTrue } else { BddPtr::PtrFalse };
    }
    let lo = unsp(b, &a[2]);
    let hi = unsp(b, &a[3]);
    let n = b.get_or_insert(rsdd::repr::BddNode::new(VarLabel::new_usize(a[1].as_u64().unwrap() as usize), lo, hi));
    if a[0].as_u64().unwrap() == 1 { n.neg() } else { n }
}

fn tt_of(p: BddPtr, nv: usize) -> Vec<u64> {
    (0..(1usize << nv))
        .map(|a| {
            let mut cur = p;
            let mut neg = false;
            loop {
                match cur {
                    BddPtr::PtrTrue => return (!neg) as u64,
                    BddPtr::PtrFalse => return neg as u64,
                    BddPtr::Reg(n) | BddPtr::Compl(n) => {
                        if cur.is_neg() {
                            neg = !neg;
                        }
                        cur = if (a >> n.var.value_usize()) & 1 == 1 { n.high } else { n.low };
                    }
                }
            }
        })
        .collect()
}

/// `rv replay machine --in vectors`: every TLC-printed call history of BddMachine (GenMachine.tla) in a fresh real builder
pub fn replay(args: &Args) {
    let text = std::fs::read_to_string(args.str("in", "")).expect("read vectors");
    let (mut n, mut steps, mut mismatches, mut ndrift) = (0usize, 0usize, 0usize, 0usize);
    let mut bad: Vec<Value> = vec![];
    let mut drift: Vec<Value> = vec![];
    for line in text.lines() {
        let v: Value = serde_json::from_str(line).unwrap();
        n += 1;
        let nv = v["nv"].as_u64().unwrap() as usize;
        let ord: Vec<VarLabel> = v["order"].as_array().unwrap().iter().map(|x| VarLabel::new_usize(x.as_u64().unwrap() as usize)).collect();
        let builder: RobddBuilder<AllIteTable<BddPtr>> = RobddBuilder::new(VarOrder::new(&ord));
        let b = &builder;
        for x in 0..nv {
            b.var(VarLabel::new_usize(x), true);
        }
        for c in v["calls"].as_array().unwrap() {
            steps += 1;
            let a: Vec<BddPtr> = c["args"].as_array().unwrap().iter().map(|p| unsp(b, p)).collect();
            let lbl = VarLabel::new_usize(c["v"].as_u64().unwrap() as usize);
            let pol = c["b"].as_bool().unwrap();
            let op = c["op"].as_str().unwrap().to_string();
            let r = guarded(|| match op.as_str() {
                "ite" => b.ite(a[0], a[1], a[2]),
                "cond" => b.condition(a[0], lbl, pol),
                "exists" => b.exists(a[0], lbl),
                _ => b.xor(a[0], a[1]),
            });
            let exp: Vec<u64> = c["tt"].as_array().unwrap().iter().map(|x| x.as_u64().unwrap()).collect();
            match r {
                Ok(r) if tt_of(r, nv) == exp => {
                    if sp(r) != c["res"] || b.num_recursive_calls() as u64 != c["calls"].as_u64().unwrap() {
                        ndrift += 1;
                        if drift.len() < 3 {
                            drift.push(json!({"vector": v, "got": sp(r), "calls": b.num_recursive_calls()}));
                        }
                        break;
                    }
                }
                Ok(r) => {
                    mismatches += 1;
                    if bad.len() < 10 {
                        bad.push(json!({"vector": v, "at": c, "got_tt": tt_of(r, nv), "got": sp(r)}));
                    }
                    break;
                }
                Err(m) => {
                    mismatches += 1;
                    if bad.len() < 10 {
                        bad.push(json!({"vector": v, "at": c, "panic": m}));
                    }
                    break;
                }
            }
        }
    }
    println!("{}", json!({"vectors": n, "steps": steps, "mismatches": mismatches, "bad": bad, "ndrift": ndrift, "drift": drift}));
}
