//! Recorder for the command-line tools (C19): generates formula / weights / config / DIMACS files,
//! runs the real binaries (built with `--features cli`), and logs their raw answers.
use crate::ser_rec::NAMES;
use crate::util::*;
use serde_json::{json, Value};
use std::process::Command;

fn rand_sexpr(rng: &mut Rng, depth: usize, names: &[usize]) -> (Value, String) {
    if depth == 0 || rng.chance(1, 4) {
        let n = NAMES[*rng.pick(names)];
        if rng.chance(1, 3) {
            return (json!(["not", ["var", n]]), format!("(Not (Var {}))", n));
        }
        return (json!(["var", n]), format!("(Var {})", n));
    }
    let mut sub = |rng: &mut Rng| rand_sexpr(rng, depth - 1, names);
    match rng.below(6) {
        0 => {
            let (j, t) = sub(rng);
            (json!(["not", j]), format!("(Not {})", t))
        }
        k @ 1..=4 => {
            let (j1, t1) = sub(rng);
            let (j2, t2) = sub(rng);
            let (tag, kw) = [("and", "And"), ("or", "Or"), ("iff", "Iff"), ("xor", "Xor")][k - 1];
            (json!([tag, j1, j2]), format!("({} {} {})", kw, t1, t2))
        }
        _ => {
            let (j1, t1) = sub(rng);
            let (j2, t2) = sub(rng);
            let (j3, t3) = sub(rng);
            (json!(["ite", j1, j2, j3]), format!("(Ite {} {} {})", t1, t2, t3))
        }
    }
}

/// formulas that mention the same sub-terms several times and favour three-argument Ite: within one run of a tool the
/// apply cache then sees related triples over shared sub-diagrams (implications and their converses, x ? y : !x shapes)
fn shared_sexpr(rng: &mut Rng, names: &[usize]) -> (Value, String) {
    let np = rng.range(2, 3);
    let pool: Vec<(Value, String)> = (0..np).map(|_| { let d = rng.range(0, 2); rand_sexpr(rng, d, names) }).collect();
    fn go(rng: &mut Rng, depth: usize, pool: &[(Value, String)]) -> (Value, String) {
        if depth == 0 || rng.chance(1, 5) {
            let (j, t) = rng.pick(pool).clone();
            return if rng.chance(1, 3) { (json!(["not", j]), format!("(Not {})", t)) } else { (j, t) };
        }
        match rng.below(7) {
            0 => {
                let (j, t) = go(rng, depth - 1, pool);
                (json!(["not", j]), format!("(Not {})", t))
            }
            k @ 1..=3 => {
                let (j1, t1) = go(rng, depth - 1, pool);
                let (j2, t2) = go(rng, depth - 1, pool);
                let (tag, kw) = [("and", "And"), ("or", "Or"), ("iff", "Iff")][k - 1];
                (json!([tag, j1, j2]), format!("({} {} {})", kw, t1, t2))
            }
            _ => {
                let (j1, t1) = go(rng, depth - 1, pool);
                let (j2, t2) = go(rng, depth - 1, pool);
                let (j3, t3) = go(rng, depth - 1, pool);
                (json!(["ite", j1, j2, j3]), format!("(Ite {} {} {})", t1, t2, t3))
            }
        }
    }
    go(rng, 3, &pool)
}

/// an implication X -> Y written in one of several ways (with Or, with a three-argument Ite whose else-branch is the negated
/// guard, with a negated conjunction), combined with the converse Y -> X over the SAME two sub-terms: after cofactoring, the
/// tool's apply cache meets ite(f, g, true) shapes and their mirror images within one run
fn implication_sexpr(rng: &mut Rng, names: &[usize]) -> (Value, String) {
    let dx = rng.range(0, 1);
    let dy = rng.range(0, 1);
    let x = rand_sexpr(rng, dx, names);
    let y = rand_sexpr(rng, dy, names);
    let imp = |rng: &mut Rng, a: &(Value, String), b: &(Value, String)| -> (Value, String) {
        let (ja, ta, jb, tb) = (&a.0, &a.1, &b.0, &b.1);
        match rng.below(4) {
            0 => (json!(["or", ["not", ja], jb]), format!("(Or (Not {ta}) {tb})")),
            1 => (json!(["ite", ja, jb, ["not", ja]]), format!("(Ite {ta} {tb} (Not {ta}))")),
            2 => (json!(["not", ["and", ja, ["not", jb]]]), format!("(Not (And {ta} (Not {tb})))")),
            _ => (json!(["ite", jb, jb, ["not", ja]]), format!("(Ite {tb} {tb} (Not {ta}))")),
        }
    };
    let p = imp(rng, &x, &y);
    let q = imp(rng, &y, &x);
    let (tag, kw) = *rng.pick(&[("and", "And"), ("or", "Or"), ("iff", "Iff"), ("xor", "Xor")]);
    if rng.coin() {
        (json!([tag, p.0, q.0]), format!("({kw} {} {})", p.1, q.1))
    } else {
        (json!([tag, q.0, p.0]), format!("({kw} {} {})", q.1, p.1))
    }
}

fn names_in(j: &Value, acc: &mut Vec<String>) {
    let a = j.as_array().unwrap();
    if a[0] == "var" {
        let n = a[1].as_str().unwrap().to_string();
        if !acc.contains(&n) {
            acc.push(n);
        }
    } else {
        for x in &a[1..] {
            names_in(x, acc);
        }
    }
}

fn run(bin: &str, args: &[&str]) -> Result<String, String> {
    let o = Command::new(bin).args(args).output().map_err(|e| format!("spawn {bin}: {e}"))?;
    if !o.status.success() {
        return Err(format!("exit {:?}: {}", o.status.code(), String::from_utf8_lossy(&o.stderr).chars().take(200).collect::<String>()));
    }
    Ok(String::from_utf8_lossy(&o.stdout).to_string())
}

pub fn record(args: &Args) {
    let seed = args.num("seed", 1);
    let rounds = args.num("segments", 20) as usize;
    let bindir = args.str("bindir", "");
    let work = args.str("work", "/tmp");
    let mut out = Out::new(&args.str("out", "-"));
    let mut rng = Rng::new(seed ^ 0xc19);
    out.emit(json!({"ev": "init", "kind": "ser", "nmax": 6, "seed": seed, "names": NAMES}));
    let f_formula = format!("{work}/f_{seed}.sexp");
    let f_weights = format!("{work}/w_{seed}.json");
    let f_config = format!("{work}/c_{seed}.json");
    let f_cnf = format!("{work}/d_{seed}.cnf");
    for _ in 0..rounds {
        // ---------------- weighted_model_count (single-count mode: no partial assignments)
        let k = rng.range(1, 4);
        let mut pick = rng.perm(NAMES.len());
        pick.truncate(k);
        let (sj, text) = match rng.below(4) {
            0 => implication_sexpr(&mut rng, &pick),
            1 => shared_sexpr(&mut rng, &pick),
            _ => rand_sexpr(&mut rng, 3, &pick),
        };
        let mut used = vec![];
        names_in(&sj, &mut used);
        // weights: for (most of) the formula's variables and possibly one or two extra names
        let mut wnames: Vec<String> = used.iter().filter(|_| rng.chance(5, 6)).cloned().collect();
        for i in rng.perm(NAMES.len()).into_iter().take(rng.below(3)) {
            if !wnames.contains(&NAMES[i].to_string()) && used.len() + 2 <= 6 {
                wnames.push(NAMES[i].to_string());
            }
        }
        let mut all = used.clone();
        for n in &wnames {
            if !all.contains(n) {
                all.push(n.clone());
            }
        }
        if all.len() > 6 {
            continue;
        }
        let w8: Vec<(String, i64, i64)> = wnames.iter().map(|n| (n.clone(), rng.below(17) as i64, rng.below(17) as i64)).collect();
        let wjson: serde_json::Map<String, Value> = w8.iter().map(|(n, l, h)| (n.clone(), json!({"low": *l as f64 / 8.0, "high": *h as f64 / 8.0}))).collect();
        std::fs::write(&f_formula, &text).unwrap();
        std::fs::write(&f_weights, serde_json::to_string(&wjson).unwrap()).unwrap();
        let order: Option<Vec<String>> = if rng.coin() {
            let p = rng.perm(all.len());
            Some(p.iter().map(|i| all[*i].clone()).collect())
        } else {
            None
        };
        let mut ev = json!({"ev": "cli_wmc", "in": sj,
            "weights": w8.iter().map(|(n, l, h)| json!([n, l, h])).collect::<Vec<_>>(),
            "order": order.clone().unwrap_or_default()});
        let mut a: Vec<&str> = vec!["-f", &f_formula, "-w", &f_weights];
        if let Some(o) = &order {
            std::fs::write(&f_config, serde_json::to_string(&json!({"order": o})).unwrap()).unwrap();
            a.push("-c");
            a.push(&f_config);
        }
        match run(&format!("{bindir}/weighted_model_count"), &a) {
            Ok(stdout) => {
                for line in stdout.lines() {
                    if let Some(x) = line.strip_prefix("unweighted model count: ") {
                        ev["mc"] = x.trim().parse::<u32>().map(|v| json!(v)).unwrap_or_else(|_| num(f64::NAN));
                    }
                    if let Some(x) = line.strip_prefix("weighted model count: ") {
                        let v: f64 = x.trim().parse().unwrap_or(f64::NAN);
                        let scaled = v * 8f64.powi(all.len() as i32);
                        ev["wmc"] = num(scaled);
                    }
                }
            }
            Err(m) => ev["panic"] = json!(m),
        }
        out.emit(ev);
        // ---------------- bottomup_formula_to_bdd
        {
            let manual = rng.coin() && !used.is_empty();
            let mut ev = json!({"ev": "cli_f2b", "in": sj, "manual": manual});
            let mut a: Vec<&str> = vec!["-f", &f_formula];
            let o: Vec<String> = rng.perm(used.len()).iter().map(|i| used[*i].clone()).collect();
            if manual {
                std::fs::write(&f_config, serde_json::to_string(&json!({"order": o})).unwrap()).unwrap();
                a.extend(["--ordering", "manual", "-c", &f_config]);
                ev["order"] = json!(o);
            }
            match run(&format!("{bindir}/bottomup_formula_to_bdd"), &a) {
                Ok(stdout) => match serde_json::from_str::<Value>(stdout.trim()) {
                    Ok(j) => ev["json"] = j,
                    Err(e) => ev["panic"] = json!(format!("output is not JSON: {e}")),
                },
                Err(m) => ev["panic"] = json!(m),
            }
            out.emit(ev);
        }
        // ---------------- bottomup_cnf_to_bdd
        {
            let mut c = crate::sat_rec::rand_cnf(&mut rng, 5, 6, 40);
            c.retain(|cl| !cl.is_empty());
            if c.is_empty() {
                c.push(vec![(rng.below(4), rng.coin())]);
            }
            // one file in three: the same shape on DIMACS indices scattered up to ~135, with pairs of indices that agree modulo 64 and
            // clause pairs that are copies of each other shifted by 64 (a large file; TLC evaluates the emitted diagram over the
            // indices that occur: at most 6 of them)
            let wide = rng.chance(1, 3);
            if wide {
                c.truncate(3);
                let shift: Vec<usize> = (0..5).map(|v| if v % 2 == 0 { v } else { v + 127 + rng.below(2) }).collect();
                let used: Vec<usize> = { let mut u: Vec<usize> = c.iter().flatten().map(|(v, _)| *v).collect(); u.sort(); u.dedup(); u };
                let mut w: Vec<Vec<(usize, bool)>> = c.iter().map(|cl| cl.iter().map(|(v, p)| (shift[*v], *p)).collect()).collect();
                // a shifted copy of the first clause (only while at most 6 indices occur in all: TLC's universe here)
                let first: Vec<(usize, bool)> = c[0].iter().map(|(v, p)| (*v + 64, *p)).collect();
                let extra: std::collections::BTreeSet<usize> = first.iter().map(|(v, _)| *v).collect();
                if used.len() + extra.len() <= 6 {
                    w.push(first);
                }
                c = w;
            }
            let lits: Vec<Vec<i64>> = c.iter().map(|cl| cl.iter().map(|(v, p)| if *p { *v as i64 + 1 } else { -(*v as i64 + 1) }).collect()).collect();
            let nv = c.iter().flatten().map(|(v, _)| v + 1).max().unwrap();
            let mut text = format!("p cnf {} {}\n", nv, lits.len());
            for cl in &lits {
                for l in cl {
                    text.push_str(&format!("{} ", l));
                }
                text.push_str("0\n");
            }
            std::fs::write(&f_cnf, &text).unwrap();
            let ord = if rng.coin() { "auto_minfill" } else { "auto_force" };
            let mut ev = json!({"ev": "cli_c2b", "in": lits, "order": ord});
            if wide {
                let mut vars: Vec<usize> = c.iter().flatten().map(|(v, _)| *v).collect();
                vars.sort();
                vars.dedup();
                ev["vars"] = json!(vars); // the indices that occur (0-based), ascending: TLC's universe for this event
            }
            match run(&format!("{bindir}/bottomup_cnf_to_bdd"), &["-f", &f_cnf, "--order", ord]) {
                Ok(stdout) => match serde_json::from_str::<Value>(stdout.trim()) {
                    Ok(j) => ev["json"] = j,
                    Err(e) => ev["panic"] = json!(format!("output is not JSON: {e}")),
                },
                Err(m) => ev["panic"] = json!(m),
            }
            out.emit(ev);
        }
    }
    for f in [&f_formula, &f_weights, &f_config, &f_cnf] {
        let _ = std::fs::remove_file(f);
    }
    out.flush();
}
