mod cnf_replay;
mod bdd_rec;
mod cli_rec;
mod extra_rec;
mod machine_rec;
mod ffi_rec;
mod ser_rec;
mod pure_rec;
mod vec_replay;
mod sat_rec;
mod sdd_rec;
mod tables;
mod util;

fn main() {
    let argv: Vec<String> = std::env::args().collect();
    let args = util::Args(argv.clone());
    if std::env::var("RV_LOUD").is_err() {
        util::quiet_panics();
    }
    if argv.get(1).map(|s| s.as_str()) == Some("record") {
        let out = args.str("out", "-");
        if out != "-" {
            let _ = std::fs::remove_file(format!("{out}.hang"));
            util::start_watchdog(out, args.num("hang", 120));
        }
    }
    match (argv.get(1).map(|s| s.as_str()), argv.get(2).map(|s| s.as_str())) {
        (Some("record"), Some("bdd")) => bdd_rec::record(&args),
        (Some("record"), Some("sdd")) => sdd_rec::record(&args),
        (Some("record"), Some("sat")) => sat_rec::record_sat(&args),
        (Some("record"), Some("topdown")) => sat_rec::record_topdown(&args),
        (Some("record"), Some("cnf")) => pure_rec::record_cnf(&args),
        (Some("record"), Some("orders")) => pure_rec::record_orders(&args),
        (Some("record"), Some("semiring")) => pure_rec::record_semiring(&args),
        (Some("record"), Some("extras")) => extra_rec::record(&args),
        (Some("record"), Some("machine")) => machine_rec::record(&args),
        (Some("record"), Some("ser")) => ser_rec::record(&args),
        (Some("record"), Some("ffi")) => ffi_rec::record(&args),
        (Some("record"), Some("cli")) => cli_rec::record(&args),
        (Some("record"), Some("hashx")) => ser_rec::record_hashx(&args),
        (Some("record"), Some("table")) => tables::record_table(&args),
        (Some("replay"), Some("bddvec")) => vec_replay::replay_bddvec(&args),
        (Some("replay"), Some("itevec")) => vec_replay::replay_itevec(&args),
        (Some("replay"), Some("smoothvec")) => vec_replay::replay_smoothvec(&args),
        (Some("replay"), Some("mmapvec")) => vec_replay::replay_mmapvec(&args),
        (Some("replay"), Some("stressvec")) => vec_replay::replay_stressvec(&args),
        (Some("replay"), Some("meuvec")) => vec_replay::replay_meuvec(&args),
        (Some("replay"), Some("wmcvec")) => vec_replay::replay_wmcvec(&args),
        (Some("replay"), Some("cnfvec")) => cnf_replay::replay_cnfvec(&args),
        (Some("replay"), Some("sddvec")) => vec_replay::replay_sddvec(&args),
        (Some("replay"), Some("satvec")) => sat_rec::replay_satvec(&args),
        (Some("replay"), Some("table")) => tables::replay_table(&args),
        (Some("replay"), Some("machine")) => machine_rec::replay(&args),
        (Some("record"), Some("lru")) => tables::record_lru(&args),
        (Some("replay"), Some("lru")) => tables::replay_lru(&args),
        _ => {
            eprintln!("usage: rv record <family> [--seed S --segments K --len L --nmax N --mode M --out FILE]");
            std::process::exit(2);
        }
    }
}
