//! spec -> impl: replays the CNFs printed by spec/GenCnf.tla (each with its set of models, computed by TLC from the
//! definition) into every compiler of the library and compares truth tables.
use crate::util::*;
use rsdd::builder::bdd::{BddBuilder, RobddBuilder};
use rsdd::builder::cache::{AllIteTable, IteTable, LruIteTable};
use rsdd::builder::decision_nnf::{DecisionNNFBuilder, SemanticDecisionNNFBuilder, StandardDecisionNNFBuilder};
use rsdd::builder::sdd::{CompressionSddBuilder, SddBuilder};
use rsdd::builder::BottomUpBuilder;
use rsdd::constants::primes;
use rsdd::repr::{BddPtr, Cnf, DDNNFPtr, Literal, SddPtr, VTree, VarLabel, VarOrder};
use serde_json::{json, Value};

struct Tally {
    vectors: usize,
    steps: usize,
    mismatches: usize,
    bad: Vec<Value>,
}

fn clauses_of(v: &Value) -> Vec<Vec<Literal>> {
    v["cnf"]
        .as_array()
        .unwrap()
        .iter()
        .map(|c| {
            c.as_array()
                .unwrap()
                .iter()
                .map(|l| {
                    let x = l.as_i64().unwrap();
                    Literal::new(VarLabel::new_usize(x.unsigned_abs() as usize - 1), x > 0)
                })
                .collect()
        })
        .collect()
}

fn models_of(v: &Value) -> u64 {
    v["models"].as_array().unwrap().iter().fold(0u64, |acc, x| acc | (1u64 << x.as_u64().unwrap()))
}

fn bdd_eval(p: BddPtr, a: usize) -> bool {
    match p {
        BddPtr::PtrTrue => true,
        BddPtr::PtrFalse => false,
        BddPtr::Reg(n) | BddPtr::Compl(n) => {
            let r = if (a >> n.var.value_usize()) & 1 == 1 { bdd_eval(n.high, a) } else { bdd_eval(n.low, a) };
            if matches!(p, BddPtr::Compl(_)) { !r } else { r }
        }
    }
}
fn bdd_tt(p: BddPtr, nv: usize) -> u64 {
    (0..(1usize << nv)).fold(0u64, |acc, a| if bdd_eval(p, a) { acc | (1 << a) } else { acc })
}
fn sdd_tt(p: SddPtr, nv: usize) -> u64 {
    (0..(1usize << nv)).fold(0u64, |acc, a| {
        let asg: Vec<bool> = (0..nv).map(|v| (a >> v) & 1 == 1).collect();
        if p.evaluate(&asg) { acc | (1 << a) } else { acc }
    })
}
/// no variable is decided twice on any path of a decision diagram (seen = variables decided above)
fn no_repeat(p: BddPtr, seen: u64) -> bool {
    match p {
        BddPtr::PtrTrue | BddPtr::PtrFalse => true,
        BddPtr::Reg(n) | BddPtr::Compl(n) => {
            let bit = 1u64 << n.var.value_usize();
            seen & bit == 0 && no_repeat(n.low, seen | bit) && no_repeat(n.high, seen | bit)
        }
    }
}

// ---- the same CNFs in a WIDE label space: variable i of the printed CNF sits on label emb[i] of a builder with ~70 labels
// (two of the labels are congruent modulo 64, some lie beyond 63); the other labels exist in the order / vtree and are never mentioned
fn clauses_of_emb(v: &Value, emb: &[usize]) -> Vec<Vec<Literal>> {
    clauses_of(v)
        .into_iter()
        .map(|c| c.into_iter().map(|l| Literal::new(VarLabel::new_usize(emb[l.label().value_usize()]), l.polarity())).collect())
        .collect()
}
fn bdd_tt_emb(p: BddPtr, nv: usize, emb: &[usize]) -> Option<u64> {
    fn ev(p: BddPtr, a: usize, emb: &[usize]) -> Option<bool> {
        match p {
            BddPtr::PtrTrue => Some(true),
            BddPtr::PtrFalse => Some(false),
            BddPtr::Reg(n) | BddPtr::Compl(n) => {
                let v = emb.iter().position(|l| *l == n.var.value_usize())?; // a label the formula never mentions: not its diagram
                let r = if (a >> v) & 1 == 1 { ev(n.high, a, emb)? } else { ev(n.low, a, emb)? };
                Some(if matches!(p, BddPtr::Compl(_)) { !r } else { r })
            }
        }
    }
    let mut acc = 0u64;
    for a in 0..(1usize << nv) {
        if ev(p, a, emb)? {
            acc |= 1 << a;
        }
    }
    Some(acc)
}
fn no_repeat_wide(p: BddPtr, seen: u128) -> bool {
    match p {
        BddPtr::PtrTrue | BddPtr::PtrFalse => true,
        BddPtr::Reg(n) | BddPtr::Compl(n) => {
            let bit = 1u128 << n.var.value_usize();
            seen & bit == 0 && no_repeat_wide(n.low, seen | bit) && no_repeat_wide(n.high, seen | bit)
        }
    }
}
/// truth table over the embedded variables; the unmentioned labels are set by `fill` (the function must not depend on them)
fn sdd_tt_emb(p: SddPtr, nv: usize, emb: &[usize], nlabels: usize, fill: bool) -> u64 {
    (0..(1usize << nv)).fold(0u64, |acc, a| {
        let mut asg = vec![fill; nlabels];
        for v in 0..nv {
            asg[emb[v]] = (a >> v) & 1 == 1;
        }
        if p.evaluate(&asg) { acc | (1 << a) } else { acc }
    })
}
fn pick_emb(rng: &mut Rng, nv: usize, nlabels: usize) -> Vec<usize> {
    let base = rng.below(6);
    let mut emb: Vec<usize> = vec![base, base + 64];
    while emb.len() < nv {
        let l = rng.below(nlabels);
        if !emb.contains(&l) {
            emb.push(l);
        }
    }
    emb.truncate(nv);
    for k in (1..emb.len()).rev() {
        emb.swap(k, rng.below(k + 1));
    }
    emb
}
fn wide_order(rng: &mut Rng, emb: &[usize], nlabels: usize) -> Vec<usize> {
    // the mentioned labels in a random relative order, interleaved with the unmentioned ones
    let mut o: Vec<usize> = (0..nlabels).collect();
    for k in (1..o.len()).rev() {
        o.swap(k, rng.below(k + 1));
    }
    let _ = emb;
    o
}

fn run_bdd_wide<'a, T: IteTable<'a, BddPtr<'a>> + Default>(b: &'a RobddBuilder<'a, T>, cfg: &str, nv: usize, emb: &[usize], vecs: &[&Value], t: &mut Tally) {
    use rsdd::repr::PartialModel;
    for (vi, v) in vecs.iter().enumerate() {
        let cnf = Cnf::new(&clauses_of_emb(v, emb));
        t.steps += 1;
        let p = match guarded(|| b.compile_cnf(&cnf)) {
            Ok(p) => p,
            Err(m) => {
                note(t, cfg, v, json!({"panic": m, "emb": emb}));
                continue;
            }
        };
        let got = bdd_tt_emb(p, nv, emb);
        if got != Some(models_of(v)) {
            note(t, cfg, v, json!({"models_tt": got, "emb": emb}));
            continue;
        }
        if vi % 8 != 0 {
            continue;
        }
        // a few partial assignments (over the mentioned labels and one unmentioned label): with_assignments = compile + condition_model
        for code in (0..3usize.pow(nv as u32)).step_by(5) {
            let pm: Vec<u8> = (0..nv).map(|i| ((code / 3usize.pow(i as u32)) % 3) as u8).collect();
            let mut asg: Vec<Option<bool>> = vec![None; cnf.num_vars().max(emb.iter().max().unwrap() + 1)];
            for (i, x) in pm.iter().enumerate() {
                asg[emb[i]] = match x { 0 => Some(false), 1 => Some(true), _ => None };
            }
            let m = PartialModel::from_assignments(&asg);
            t.steps += 1;
            match guarded(|| (b.compile_cnf_with_assignments(&cnf, &m), b.condition_model(p, &m))) {
                Ok((x, y)) => {
                    if x != y || bdd_tt_emb(x, nv, emb) != Some(cond_tt(got.unwrap(), &pm, nv)) {
                        note(t, cfg, v, json!({"partial_model": pm, "emb": emb, "with_assignments_tt": bdd_tt_emb(x, nv, emb), "then_condition_tt": bdd_tt_emb(y, nv, emb), "same_diagram": x == y}));
                        break;
                    }
                }
                Err(msg) => {
                    note(t, cfg, v, json!({"partial_model": pm, "emb": emb, "panic": msg}));
                    break;
                }
            }
        }
    }
}

fn run_td_wide<'a, B: DecisionNNFBuilder<'a>>(b: &'a B, cfg: &str, nv: usize, emb: &[usize], nlabels: usize, vecs: &[&Value], t: &mut Tally) {
    for v in vecs {
        let mut cl = clauses_of_emb(v, emb);
        // the decision order is an order of exactly the CNF's variables 0..num_vars: a tautology pins num_vars to nlabels
        cl.push(vec![Literal::new(VarLabel::new_usize(nlabels - 1), true), Literal::new(VarLabel::new_usize(nlabels - 1), false)]);
        let cnf = Cnf::new(&cl);
        if cnf.num_vars() != nlabels {
            continue;
        }
        t.steps += 1;
        match guarded(|| b.compile_cnf_topdown(&cnf)) {
            Ok(p) => {
                let got = bdd_tt_emb(p, nv, emb);
                let exp = models_of(v);
                if got != Some(exp) || (exp == 0) != p.is_false() || !no_repeat_wide(p, 0) {
                    note(t, cfg, v, json!({"models_tt": got, "emb": emb, "is_false_constant": p.is_false(), "no_repeat": no_repeat_wide(p, 0)}));
                }
            }
            Err(m) => note(t, cfg, v, json!({"panic": m, "emb": emb})),
        }
    }
}

/// SIZE without new semantics: the printed CNF with one of its clauses repeated `copies` times right after its first clause (the
/// models are those TLC printed; the clause list, the literal-occurrence numbering and the watch lists are thousands of entries long)
fn dup_padded(v: &Value, rng: &mut Rng, copies: usize) -> Option<Vec<Vec<Literal>>> {
    let cl = clauses_of(v);
    if cl.len() < 2 {
        return None;
    }
    let wide: Vec<usize> = (0..cl.len()).filter(|i| cl[*i].len() >= 2).collect();
    let d = if wide.is_empty() { rng.below(cl.len()) } else { wide[rng.below(wide.len())] };
    let mut out = vec![cl[0].clone()];
    for _ in 0..copies {
        out.push(cl[d].clone());
    }
    out.extend(cl[1..].iter().cloned());
    Some(out)
}
/// the same with the bulk on FRESH variables z = nv, f = nv + 1: the unit clause (z), `copies` copies of (z | f), then the printed
/// clauses - which now all lie beyond the first ~6 600 literal occurrences. Models: the printed ones with z true and f free.
fn fresh_padded(v: &Value, nv: usize, copies: usize) -> Vec<Vec<Literal>> {
    let lit = |l: usize, p: bool| Literal::new(VarLabel::new_usize(l), p);
    let mut out = vec![vec![lit(nv, true)]];
    for _ in 0..copies {
        out.push(vec![lit(nv, true), lit(nv + 1, true)]);
    }
    out.extend(clauses_of(v));
    out
}

/// DEPTH without new semantics: every variable x of the printed CNF gets a chain x <-> y1 <-> y2 ... <-> yL of fresh variables, and
/// some occurrences of x in the clauses are replaced by yL. The models of the result are the models TLC printed, each extended by
/// y_k = x; deciding any variable of a chain propagates through all of it (implication chains hundreds of steps deep).
/// Returns (clauses, number of variables, for each original variable its chain's labels).
fn chain_padded(v: &Value, nv: usize, rng: &mut Rng, len: usize) -> (Vec<Vec<Literal>>, usize, Vec<Vec<usize>>) {
    chain_padded2(v, nv, rng, len, None)
}
fn chain_padded2(v: &Value, nv: usize, rng: &mut Rng, len: usize, force_all_ends: Option<bool>) -> (Vec<Vec<Literal>>, usize, Vec<Vec<usize>>) {
    let cl = clauses_of(v);
    // all chains of one CNF have the same length `len` (the caller cycles through 2^k - 1, 2^k, 2^k + 1: a depth bound or a narrow
    // counter is most likely a power of two)
    let lens: Vec<usize> = vec![len; nv];
    let chains: Vec<Vec<usize>> = (0..nv).map(|x| (0..lens[x]).map(|k| nv + x * len + k).collect()).collect();
    let lit = |l: usize, p: bool| Literal::new(VarLabel::new_usize(l), p);
    let all_ends = force_all_ends.unwrap_or_else(|| rng.coin()); // every occurrence moved to the far end of its chain, or three in four
    let mut out: Vec<Vec<Literal>> = cl
        .iter()
        .map(|c| c.iter().map(|l| { let ch = &chains[l.label().value_usize()]; if all_ends || rng.chance(3, 4) { lit(ch[ch.len() - 1], l.polarity()) } else { *l } }).collect())
        .collect();
    for x in 0..nv {
        let mut prev = x;
        for y in &chains[x] {
            out.push(vec![lit(prev, false), lit(*y, true)]);
            out.push(vec![lit(prev, true), lit(*y, false)]);
            prev = *y;
        }
    }
    for i in (1..out.len()).rev() {
        out.swap(i, rng.below(i + 1));
    }
    // every label below nv + nv * len must occur (num_vars = largest label + 1, and the order lists them all): the unused tail of each
    // stride hangs off the chain's end as further equivalences
    let mut chains = chains;
    for x in 0..nv {
        let mut prev = *chains[x].last().unwrap();
        for k in lens[x]..len {
            let y = nv + x * len + k;
            out.push(vec![lit(prev, false), lit(y, true)]);
            out.push(vec![lit(prev, true), lit(y, false)]);
            chains[x].push(y);
            prev = y;
        }
    }
    (out, nv + nv * len, chains)
}

fn bdd_eval_full(p: BddPtr, asg: &[bool]) -> bool {
    let mut cur = p;
    let mut neg = false;
    loop {
        match cur {
            BddPtr::PtrTrue => return !neg,
            BddPtr::PtrFalse => return neg,
            BddPtr::Reg(n) | BddPtr::Compl(n) => {
                if matches!(cur, BddPtr::Compl(_)) {
                    neg = !neg;
                }
                cur = if asg[n.var.value_usize()] { n.high } else { n.low };
            }
        }
    }
}

fn perms(n: usize) -> Vec<Vec<usize>> {
    if n == 0 {
        return vec![vec![]];
    }
    let mut out = vec![];
    for p in perms(n - 1) {
        for i in 0..=p.len() {
            let mut q = p.clone();
            q.insert(i, n - 1);
            out.push(q);
        }
    }
    out
}

fn note(t: &mut Tally, cfg: &str, v: &Value, got: Value) {
    t.mismatches += 1;
    if t.bad.len() < 10 {
        t.bad.push(json!({"cfg": cfg, "vector": v, "got": got}));
    }
}

/// the models of f restricted by a partial assignment (pm[v] = 0 / 1 / 2 for false / true / unassigned)
fn cond_tt(tt: u64, pm: &[u8], nv: usize) -> u64 {
    (0..(1usize << nv)).fold(0u64, |acc, a| {
        let mut a2 = a;
        for (v, x) in pm.iter().enumerate() {
            match x {
                0 => a2 &= !(1 << v),
                1 => a2 |= 1 << v,
                _ => {}
            }
        }
        if (tt >> a2) & 1 == 1 { acc | (1 << a) } else { acc }
    })
}

fn run_bdd<'a, T: IteTable<'a, BddPtr<'a>> + Default>(b: &'a RobddBuilder<'a, T>, cfg: &str, phase: usize, nv: usize, vecs: &[Value], t: &mut Tally) {
    use rsdd::repr::PartialModel;
    for (vi, v) in vecs.iter().enumerate() {
        let cnf = Cnf::new(&clauses_of(v));
        t.steps += 1;
        let p = match guarded(|| b.compile_cnf(&cnf)) {
            Ok(p) => p,
            Err(m) => {
                note(t, cfg, v, json!({"panic": m}));
                continue;
            }
        };
        let got = bdd_tt(p, nv);
        if got != models_of(v) {
            note(t, cfg, v, json!({"models_tt": got}));
            continue;
        }
        if vi % 4 != phase % 4 || cnf.num_vars() != nv {
            continue;
        }
        // compiling under EVERY partial assignment = compiling and then conditioning: the same diagram, the restricted function
        for code in 0..3usize.pow(nv as u32) {
            let pm: Vec<u8> = (0..nv).map(|i| ((code / 3usize.pow(i as u32)) % 3) as u8).collect();
            let asg: Vec<Option<bool>> = pm.iter().map(|x| match x { 0 => Some(false), 1 => Some(true), _ => None }).collect();
            let m = PartialModel::from_assignments(&asg);
            t.steps += 1;
            match guarded(|| (b.compile_cnf_with_assignments(&cnf, &m), b.condition_model(p, &m))) {
                Ok((x, y)) => {
                    if x != y || bdd_tt(x, nv) != cond_tt(got, &pm, nv) {
                        note(t, cfg, v, json!({"partial_model": pm, "with_assignments_tt": bdd_tt(x, nv), "then_condition_tt": bdd_tt(y, nv), "same_diagram": x == y}));
                        break;
                    }
                }
                Err(msg) => {
                    note(t, cfg, v, json!({"partial_model": pm, "panic": msg}));
                    break;
                }
            }
        }
    }
}

fn run_td<'a, B: DecisionNNFBuilder<'a>>(b: &'a B, cfg: &str, nv: usize, vecs: &[Value], t: &mut Tally) {
    for v in vecs {
        let cnf = Cnf::new(&clauses_of(v));
        if cnf.num_vars() != nv {
            continue; // domain: the decision order is an order of exactly the CNF's variables
        }
        t.steps += 1;
        match guarded(|| b.compile_cnf_topdown(&cnf)) {
            Ok(p) => {
                let got = bdd_tt(p, nv);
                let exp = models_of(v);
                // exact; the false constant iff unsatisfiable; no variable decided twice on a path
                if got != exp || (exp == 0) != p.is_false() || !no_repeat(p, 0) {
                    note(t, cfg, v, json!({"models_tt": got, "is_false_constant": p.is_false(), "no_repeat": no_repeat(p, 0)}));
                }
            }
            Err(m) => note(t, cfg, v, json!({"panic": m})),
        }
    }
}

pub fn replay_cnfvec(args: &Args) {
    let text = std::fs::read_to_string(args.str("in", "")).expect("read vectors");
    let nv = args.num("nv", 3) as usize;
    let which = args.str("which", "bdd");
    let seed = args.num("seed", 1);
    let vecs: Vec<Value> = text.lines().map(|l| serde_json::from_str(l).unwrap()).collect();
    let mut rng = Rng::new(seed ^ 0xc4f);
    let orders: Vec<Vec<usize>> = if nv <= 3 { perms(nv) } else { vec![(0..nv).collect(), (0..nv).rev().collect(), rng.perm(nv), rng.perm(nv)] };
    let vl = |o: &Vec<usize>| VarOrder::new(&o.iter().map(|v| VarLabel::new_usize(*v)).collect::<Vec<_>>());
    let mut t = Tally { vectors: vecs.len(), steps: 0, mismatches: 0, bad: vec![] };
    let mut configs = 0;
    match which.as_str() {
        "bdd" => {
            if nv >= 2 {
                // wide label space: builders over 72 labels in a random order, the CNF's variables scattered among them
                let nlabels = 72usize;
                let some: Vec<&Value> = vecs.iter().step_by(3).collect();
                for k in 0..2 {
                    configs += 1;
                    let emb = pick_emb(&mut rng, nv, nlabels);
                    let ord = wide_order(&mut rng, &emb, nlabels);
                    if k == 0 {
                        rsdd::verif::set_table_capacity(0);
                        rsdd::verif::set_lru_capacity(None);
                        let b = RobddBuilder::<AllIteTable<BddPtr>>::new(vl(&ord));
                        run_bdd_wide(&b, "bdd WIDE 72 labels", nv, &emb, &some, &mut t);
                    } else {
                        rsdd::verif::set_table_capacity(2);
                        rsdd::verif::set_lru_capacity(Some(1));
                        let b = RobddBuilder::<LruIteTable<BddPtr>>::new(vl(&ord));
                        run_bdd_wide(&b, "bdd WIDE 72 labels lru/tiny tables", nv, &emb, &some, &mut t);
                    }
                }
            }
            for (i, o) in orders.iter().enumerate() {
                configs += 1;
                let name = format!("bdd order {o:?}");
                if i % 2 == 0 {
                    rsdd::verif::set_table_capacity(0);
                    rsdd::verif::set_lru_capacity(None);
                    let b = RobddBuilder::<AllIteTable<BddPtr>>::new(vl(o));
                    run_bdd(&b, &name, i, nv, &vecs, &mut t);
                } else {
                    rsdd::verif::set_table_capacity(2);
                    rsdd::verif::set_lru_capacity(Some(1));
                    let b = RobddBuilder::<LruIteTable<BddPtr>>::new(vl(o));
                    run_bdd(&b, &(name + " lru/tiny tables"), i, nv, &vecs, &mut t);
                }
            }
        }
        "sdd" => {
            if nv >= 2 {
                // wide label space: vtrees over 70 labels (right-linear, left-linear, random), the CNF's variables scattered among them
                let nlabels = 70usize;
                let some: Vec<&Value> = vecs.iter().step_by(3).collect();
                for kind in 0..3 {
                    let emb = pick_emb(&mut rng, nv, nlabels);
                    let mut lab: Vec<usize> = rng.perm(nlabels);
                    if kind < 2 {
                        // on a spine the CNF's variables go to the deep end (depths beyond 60)
                        lab.retain(|l| !emb.contains(l));
                        lab.extend(emb.iter().cloned());
                        if kind == 1 {
                            lab.reverse();
                        }
                    }
                    let labels: Vec<VarLabel> = lab.iter().map(|v| VarLabel::new_usize(*v)).collect();
                    let vt = match kind {
                        0 => VTree::right_linear(&labels),
                        1 => VTree::left_linear(&labels),
                        _ => crate::sdd_rec::rand_vtree(&mut rng, &lab),
                    };
                    for compress in [true, false] {
                        configs += 1;
                        rsdd::verif::set_table_capacity(if kind == 1 { 2 } else { 0 });
                        let mut bm = CompressionSddBuilder::new(vt.clone());
                        SddBuilder::set_compression(&mut bm, compress);
                        let b = &bm;
                        let name = format!("sdd WIDE vtree kind {kind} over {nlabels} labels compress={compress}");
                        for v in &some {
                            let cnf = Cnf::new(&clauses_of_emb(v, &emb));
                            t.steps += 1;
                            match guarded(|| b.compile_cnf(&cnf)) {
                                Ok(p) => {
                                    let (g0, g1) = (sdd_tt_emb(p, nv, &emb, nlabels, false), sdd_tt_emb(p, nv, &emb, nlabels, true));
                                    if g0 != models_of(v) || g1 != g0 {
                                        note(&mut t, &name, v, json!({"models_tt": g0, "models_tt_other_labels_true": g1, "emb": emb}));
                                    }
                                }
                                Err(m) => note(&mut t, &name, v, json!({"panic": m, "emb": emb})),
                            }
                        }
                    }
                }
            }
            if nv == 3 && vecs.len() >= 128 {
                // LIFTED CNFs (decision nodes with up to 128 elements): seven further variables x3..x9 under the left child of the root,
                // x0..x2 under the right; the CNF has, for every one of the 128 assignments m of x3..x9, the clauses of one printed CNF,
                // each guarded by "x3..x9 = m" (seven more literals). Its models: the printed models of CNF number m in slice m.
                for round in [seed as usize % 3, (seed as usize + 1) % 3] {
                    configs += 1;
                    let pick: Vec<&Value> = (0..128).map(|_| &vecs[rng.below(vecs.len())]).collect();
                    let mut cl: Vec<Vec<Literal>> = vec![];
                    for (m, v) in pick.iter().enumerate() {
                        for c in clauses_of(v) {
                            let mut c2 = c.clone();
                            for k in 0..7 {
                                c2.push(Literal::new(VarLabel::new_usize(3 + k), (m >> k) & 1 == 0)); // false exactly on slice m
                            }
                            cl.push(c2);
                        }
                    }
                    if round == 1 {
                        for i in (1..cl.len()).rev() {
                            cl.swap(i, rng.below(i + 1));
                        }
                    }
                    let cnf = Cnf::new(&cl);
                    let left: Vec<VarLabel> = rng.perm(7).into_iter().map(|v| VarLabel::new_usize(v + 3)).collect();
                    let right: Vec<VarLabel> = rng.perm(3).into_iter().map(VarLabel::new_usize).collect();
                    let lt = if round == 2 { VTree::even_split(&left, 2) } else { VTree::right_linear(&left) };
                    let vt = VTree::new_node(Box::new(lt), Box::new(VTree::right_linear(&right)));
                    rsdd::verif::set_table_capacity(0);
                    let bm = CompressionSddBuilder::new(vt);
                    t.steps += 1;
                    let r = guarded(|| {
                        let p = bm.compile_cnf(&cnf);
                        for asg in 0..1024usize {
                            let a: Vec<bool> = (0..10).map(|v| (asg >> v) & 1 == 1).collect();
                            let want = (models_of(pick[asg >> 3]) >> (asg & 7)) & 1 == 1;
                            if p.evaluate(&a) != want {
                                return Some(asg);
                            }
                        }
                        None
                    });
                    match r {
                        Ok(None) => {}
                        Ok(Some(asg)) => note(&mut t, "sdd, lifted CNF over 10 variables (128-element decision nodes)", pick[asg >> 3], json!({"assignment": asg, "slice": asg >> 3})),
                        Err(m) => note(&mut t, "sdd, lifted CNF over 10 variables (128-element decision nodes)", pick[0], json!({"panic": m})),
                    }
                }
            }
            for (i, o) in orders.iter().enumerate() {
                let labels: Vec<VarLabel> = o.iter().map(|v| VarLabel::new_usize(*v)).collect();
                let vt = match i % 3 {
                    0 => VTree::right_linear(&labels),
                    1 => VTree::left_linear(&labels),
                    _ => VTree::even_split(&labels, 1),
                };
                for compress in [true, false] {
                    if !compress && i % 2 == 1 {
                        continue;
                    }
                    configs += 1;
                    rsdd::verif::set_table_capacity(if i % 2 == 0 { 0 } else { 2 });
                    let mut bm = CompressionSddBuilder::new(vt.clone());
                    SddBuilder::set_compression(&mut bm, compress);
                    let b = &bm;
                    let name = format!("sdd vtree kind {} over {o:?} compress={compress}", i % 3);
                    for v in &vecs {
                        let cnf = Cnf::new(&clauses_of(v));
                        t.steps += 1;
                        match guarded(|| b.compile_cnf(&cnf)) {
                            Ok(p) => {
                                let got = sdd_tt(p, nv);
                                if got != models_of(v) {
                                    note(&mut t, &name, v, json!({"models_tt": got}));
                                }
                            }
                            Err(m) => note(&mut t, &name, v, json!({"panic": m})),
                        }
                    }
                }
            }
        }
        "sdd-dtree" => {
            // the vtree derived from the CNF's own dtree (min-fill / linear / reversed elimination order): one builder per CNF
            use rsdd::repr::DTree;
            configs += 3;
            for v in &vecs {
                let cnf = Cnf::new(&clauses_of(v));
                if cnf.clauses().is_empty() || cnf.clauses().iter().any(|c| c.is_empty()) || cnf.num_vars() == 0 {
                    continue; // domain of DTree::from_cnf / from_dtree: at least one clause, every clause mentions a variable
                }
                let n = cnf.num_vars();
                for (k, elim) in [cnf.min_fill_order(), VarOrder::linear_order(n), vl(&(0..n).rev().collect())].into_iter().enumerate() {
                    t.steps += 1;
                    let name = format!("sdd dtree-derived vtree, elimination order kind {k}");
                    let r = guarded(|| {
                        let dt = DTree::from_cnf(&cnf, &elim);
                        let vt = VTree::from_dtree(&dt).expect("a vtree");
                        let bm = CompressionSddBuilder::new(vt);
                        let p = bm.compile_cnf(&cnf);
                        sdd_tt(p, nv)
                    });
                    match r {
                        Ok(got) => {
                            if got != models_of(v) {
                                note(&mut t, &name, v, json!({"models_tt": got}));
                            }
                        }
                        Err(m) => note(&mut t, &name, v, json!({"panic": m})),
                    }
                }
            }
        }
        "topdown" => {
            if nv >= 2 {
                // wide label space: CNFs over 70 variables of which only nv are mentioned, scattered; random decision order
                let nlabels = 70usize;
                let some: Vec<&Value> = vecs.iter().step_by(3).collect();
                for store in ["std", "sem"] {
                    configs += 1;
                    let emb = pick_emb(&mut rng, nv, nlabels - 1);
                    let ord = wide_order(&mut rng, &emb, nlabels);
                    rsdd::verif::set_table_capacity(0);
                    let name = format!("top-down WIDE {store} {nlabels} labels");
                    if store == "std" {
                        let b = StandardDecisionNNFBuilder::new(vl(&ord));
                        run_td_wide(&b, &name, nv, &emb, nlabels, &some, &mut t);
                    } else {
                        let b = SemanticDecisionNNFBuilder::<{ primes::U64_LARGEST }>::new(vl(&ord));
                        run_td_wide(&b, &name, nv, &emb, nlabels, &some, &mut t);
                    }
                }
            }
            if nv >= 2 {
                // SIZE and DEPTH (see dup_padded / chain_padded): one builder per CNF, both stores
                let some: Vec<&Value> = vecs.iter().step_by(5).collect();
                configs += 4;
                rsdd::verif::set_table_capacity(0);
                for (k, v) in some.iter().enumerate() {
                    let exp = models_of(v);
                    let bulk = k % 3 == 0; // the bulk-padded variants on a third of these
                    // (a) a clause list of ~3 300 clauses / ~7 000 literal occurrences
                    let copies = 3300 + rng.below(200);
                    if let Some(cl) = dup_padded(v, &mut rng, copies).filter(|_| bulk) {
                        let cnf = Cnf::new(&cl);
                        if cnf.num_vars() == nv {
                            let o = &orders[k % orders.len()];
                            t.steps += 1;
                            let r = if k % 2 == 0 {
                                guarded(|| { let b = StandardDecisionNNFBuilder::new(vl(o)); let p = b.compile_cnf_topdown(&cnf); (bdd_tt(p, nv), p.is_false(), no_repeat(p, 0)) })
                            } else {
                                guarded(|| { let b = SemanticDecisionNNFBuilder::<{ primes::U64_LARGEST }>::new(vl(o)); let p = b.compile_cnf_topdown(&cnf); (bdd_tt(p, nv), p.is_false(), no_repeat(p, 0)) })
                            };
                            match r {
                                Ok((got, isf, nr)) => {
                                    if got != exp || (exp == 0) != isf || !nr {
                                        note(&mut t, "top-down, one clause repeated ~3300 times", v, json!({"models_tt": got, "is_false_constant": isf, "no_repeat": nr, "clauses": cl.len()}));
                                    }
                                }
                                Err(m) => note(&mut t, "top-down, one clause repeated ~3300 times", v, json!({"panic": m})),
                            }
                        }
                    }
                    // (a') the bulk on two fresh variables: every printed clause lies beyond ~6 600 literal occurrences
                    if bulk {
                        let cl = fresh_padded(v, nv, 3300 + rng.below(50));
                        let cnf = Cnf::new(&cl);
                        let n2 = nv + 2;
                        let mut o2: Vec<usize> = orders[(k + 1) % orders.len()].clone();
                        match k % 3 { 0 => { o2.insert(0, nv); o2.push(nv + 1); } 1 => { o2.push(nv); o2.push(nv + 1); } _ => { o2.insert(0, nv + 1); o2.insert(1, nv); } }
                        // expected: the printed models, z = 1, f free
                        let mut exp2 = 0u64;
                        for a in 0..(1usize << nv) {
                            if (exp >> a) & 1 == 1 {
                                exp2 |= 1 << (a | (1 << nv));
                                exp2 |= 1 << (a | (1 << nv) | (1 << (nv + 1)));
                            }
                        }
                        t.steps += 1;
                        let r = if k % 2 == 1 {
                            guarded(|| { let b = StandardDecisionNNFBuilder::new(vl(&o2)); let p = b.compile_cnf_topdown(&cnf); (bdd_tt(p, n2), p.is_false(), no_repeat(p, 0)) })
                        } else {
                            guarded(|| { let b = SemanticDecisionNNFBuilder::<{ primes::U64_LARGEST }>::new(vl(&o2)); let p = b.compile_cnf_topdown(&cnf); (bdd_tt(p, n2), p.is_false(), no_repeat(p, 0)) })
                        };
                        match r {
                            Ok((got, isf, nr)) => {
                                if got != exp2 || (exp2 == 0) != isf || !nr {
                                    note(&mut t, "top-down, ~3300 copies of a clause over two fresh variables in front", v, json!({"models_tt": got, "expected_tt": exp2, "is_false_constant": isf, "no_repeat": nr, "order": o2}));
                                }
                            }
                            Err(m) => note(&mut t, "top-down, ~3300 copies of a clause over two fresh variables in front", v, json!({"panic": m})),
                        }
                    }
                    // (b) equivalence chains of ~128 / ~256 fresh variables per variable
                    // the first 36 of these run the grid {64, 128, 256, 512} x {-1, 0, +1} three times on CNFs that have a clause over two
                    // variables, with every occurrence at the far end of its chain and the original variables decided first: two cascades
                    // of exactly that length end in the two literals of one clause
                    let grid = k < 36 && clauses_of(v).iter().any(|c| c.iter().map(|l| l.label()).collect::<std::collections::BTreeSet<_>>().len() >= 2);
                    let clen = [64usize, 128, 256, 512][(k / 3) % 4] + (k % 3) - 1;
                    let (cl, nwide, chains) = if grid { chain_padded2(v, nv, &mut rng, clen, Some(true)) } else { chain_padded(v, nv, &mut rng, clen) };
                    let cnf = Cnf::new(&cl);
                    if cnf.num_vars() != nwide {
                        continue;
                    }
                    // mostly the original variables first (each decision then runs down a whole chain)
                    let order: Vec<usize> = if grid { (0..nwide).collect() } else { match k % 4 { 3 => rng.perm(nwide), 2 => (0..nwide).rev().collect(), _ => (0..nwide).collect() } };
                    t.steps += 1;
                    let check = |p: BddPtr| -> Option<Value> {
                        // on the extension of every assignment of the original variables: the printed models, nothing else;
                        // with one chain variable flipped: false
                        for a in 0..(1usize << nv) {
                            let mut asg = vec![false; nwide];
                            for x in 0..nv {
                                let bx = (a >> x) & 1 == 1;
                                asg[x] = bx;
                                for y in &chains[x] {
                                    asg[*y] = bx;
                                }
                            }
                            let want = (exp >> a) & 1 == 1;
                            if bdd_eval_full(p, &asg) != want {
                                return Some(json!({"assignment": a, "diagram_says": !want}));
                            }
                            let (x, kk) = (a % nv, (a * 37) % chains[a % nv].len());
                            asg[chains[x][kk]] = !asg[chains[x][kk]];
                            if bdd_eval_full(p, &asg) {
                                return Some(json!({"assignment": a, "flipped_chain_variable": chains[x][kk], "diagram_says": true}));
                            }
                        }
                        if (exp == 0) != p.is_false() {
                            return Some(json!({"is_false_constant": p.is_false()}));
                        }
                        None
                    };
                    let r = if k % 2 == 1 {
                        guarded(|| { let b = StandardDecisionNNFBuilder::new(vl(&order)); check(b.compile_cnf_topdown(&cnf)) })
                    } else {
                        guarded(|| { let b = SemanticDecisionNNFBuilder::<{ primes::U64_LARGEST }>::new(vl(&order)); check(b.compile_cnf_topdown(&cnf)) })
                    };
                    match r {
                        Ok(None) => {}
                        Ok(Some(bad)) => note(&mut t, "top-down, 300-step equivalence chain per variable", v, bad),
                        Err(m) => note(&mut t, "top-down, 300-step equivalence chain per variable", v, json!({"panic": m})),
                    }
                }
            }
            for (i, o) in orders.iter().enumerate() {
                for store in ["std", "sem"] {
                    configs += 1;
                    rsdd::verif::set_table_capacity(if i % 2 == 0 { 0 } else { 2 });
                    let name = format!("top-down {store} order {o:?}");
                    if store == "std" {
                        let b = StandardDecisionNNFBuilder::new(vl(o));
                        run_td(&b, &name, nv, &vecs, &mut t);
                    } else {
                        let b = SemanticDecisionNNFBuilder::<{ primes::U64_LARGEST }>::new(vl(o));
                        run_td(&b, &name, nv, &vecs, &mut t);
                    }
                }
            }
        }
        _ => panic!("unknown compiler family {which}"),
    }
    rsdd::verif::set_table_capacity(0);
    rsdd::verif::set_lru_capacity(None);
    println!("{}", json!({"vectors": t.vectors, "steps": t.steps, "configs": configs, "mismatches": t.mismatches, "bad": t.bad}));
}
