//! spec -> impl: replays the CNFs printed by spec/GenCnf.tla (each with its set of models, computed by TLC from the
//! definition) into every compiler of the library and compares truth tables.
use crate::util::*;
use rsdd::builder::bdd::{BddBuilder, RobddBuilder};
use rsdd::builder::cache::{AllIteTable, IteTable, LruIteTable};
use rsdd::builder::decision_nnf::{DecisionNNFBuilder, SemanticDecisionNNFBuilder, StandardDecisionNNFBuilder};
use rsdd::builder::sdd::{CompressionSddBuilder, SddBuilder};
use rsdd::builder::BottomUpBuilder;
use rsdd::constants::primes;
use rsdd::repr::{BddPtr, Cnf, DDNNFPtr, Literal, SddPtr, VTree, VarLabel, VarOrder};
use serde_json::{json, Value};

struct Tally {
    vectors: usize,
    steps: usize,
    mismatches: usize,
    bad: Vec<Value>,
}

fn clauses_of(v: &Value) -> Vec<Vec<Literal>> {
    v["cnf"]
        .as_array()
        .unwrap()
        .iter()
        .map(|c| {
            c.as_array()
                .unwrap()
                .iter()
                .map(|l| {
                    let x = l.as_i64().unwrap();
                    Literal::new(VarLabel::new_usize(x.unsigned_abs() as usize - 1), x > 0)
                })
                .collect()
        })
        .collect()
}

fn models_of(v: &Value) -> u64 {
    v["models"].as_array().unwrap().iter().fold(0u64, |acc, x| acc | (1u64 << x.as_u64().unwrap()))
}

fn bdd_eval(p: BddPtr, a: usize) -> bool {
    match p {
        BddPtr::PtrTrue => true,
        BddPtr::PtrFalse => false,
        BddPtr::Reg(n) | BddPtr::Compl(n) => {
            let r = if (a >> n.var.value_usize()) & 1 == 1 { bdd_eval(n.high, a) } else { bdd_eval(n.low, a) };
            if matches!(p, BddPtr::Compl(_)) { !r } else { r }
        }
    }
}
fn bdd_tt(p: BddPtr, nv: usize) -> u64 {
    (0..(1usize << nv)).fold(0u64, |acc, a| if bdd_eval(p, a) { acc | (1 << a) } else { acc })
}
fn sdd_tt(p: SddPtr, nv: usize) -> u64 {
    (0..(1usize << nv)).fold(0u64, |acc, a| {
        let asg: Vec<bool> = (0..nv).map(|v| (a >> v) & 1 == 1).collect();
        if p.evaluate(&asg) { acc | (1 << a) } else { acc }
    })
}
/// no variable is decided twice on any path of a decision diagram (seen = variables decided above)
fn no_repeat(p: BddPtr, seen: u64) -> bool {
    match p {
        BddPtr::PtrTrue | BddPtr::PtrFalse => true,
        BddPtr::Reg(n) | BddPtr::Compl(n) => {
            let bit = 1u64 << n.var.value_usize();
            seen & bit == 0 && no_repeat(n.low, seen | bit) && no_repeat(n.high, seen | bit)
        }
    }
}

fn perms(n: usize) -> Vec<Vec<usize>> {
    if n == 0 {
        return vec![vec![]];
    }
    let mut out = vec![];
    for p in perms(n - 1) {
        for i in 0..=p.len() {
            let mut q = p.clone();
            q.insert(i, n - 1);
            out.push(q);
        }
    }
    out
}

fn note(t: &mut Tally, cfg: &str, v: &Value, got: Value) {
    t.mismatches += 1;
    if t.bad.len() < 10 {
        t.bad.push(json!({"cfg": cfg, "vector": v, "got": got}));
    }
}

/// the models of f restricted by a partial assignment (pm[v] = 0 / 1 / 2 for false / true / unassigned)
fn cond_tt(tt: u64, pm: &[u8], nv: usize) -> u64 {
    (0..(1usize << nv)).fold(0u64, |acc, a| {
        let mut a2 = a;
        for (v, x) in pm.iter().enumerate() {
            match x {
                0 => a2 &= !(1 << v),
                1 => a2 |= 1 << v,
                _ => {}
            }
        }
        if (tt >> a2) & 1 == 1 { acc | (1 << a) } else { acc }
    })
}

fn run_bdd<'a, T: IteTable<'a, BddPtr<'a>> + Default>(b: &'a RobddBuilder<'a, T>, cfg: &str, phase: usize, nv: usize, vecs: &[Value], t: &mut Tally) {
    use rsdd::repr::PartialModel;
    for (vi, v) in vecs.iter().enumerate() {
        let cnf = Cnf::new(&clauses_of(v));
        t.steps += 1;
        let p = match guarded(|| b.compile_cnf(&cnf)) {
            Ok(p) => p,
            Err(m) => {
                note(t, cfg, v, json!({"panic": m}));
                continue;
            }
        };
        let got = bdd_tt(p, nv);
        if got != models_of(v) {
            note(t, cfg, v, json!({"models_tt": got}));
            continue;
        }
        if vi % 4 != phase % 4 || cnf.num_vars() != nv {
            continue;
        }
        // compiling under EVERY partial assignment = compiling and then conditioning: the same diagram, the restricted function
        for code in 0..3usize.pow(nv as u32) {
            let pm: Vec<u8> = (0..nv).map(|i| ((code / 3usize.pow(i as u32)) % 3) as u8).collect();
            let asg: Vec<Option<bool>> = pm.iter().map(|x| match x { 0 => Some(false), 1 => Some(true), _ => None }).collect();
            let m = PartialModel::from_assignments(&asg);
            t.steps += 1;
            match guarded(|| (b.compile_cnf_with_assignments(&cnf, &m), b.condition_model(p, &m))) {
                Ok((x, y)) => {
                    if x != y || bdd_tt(x, nv) != cond_tt(got, &pm, nv) {
                        note(t, cfg, v, json!({"partial_model": pm, "with_assignments_tt": bdd_tt(x, nv), "then_condition_tt": bdd_tt(y, nv), "same_diagram": x == y}));
                        break;
                    }
                }
                Err(msg) => {
                    note(t, cfg, v, json!({"partial_model": pm, "panic": msg}));
                    break;
                }
            }
        }
    }
}

fn run_td<'a, B: DecisionNNFBuilder<'a>>(b: &'a B, cfg: &str, nv: usize, vecs: &[Value], t: &mut Tally) {
    for v in vecs {
        let cnf = Cnf::new(&clauses_of(v));
        if cnf.num_vars() != nv {
            continue; // domain: the decision order is an order of exactly the CNF's variables
        }
        t.steps += 1;
        match guarded(|| b.compile_cnf_topdown(&cnf)) {
            Ok(p) => {
                let got = bdd_tt(p, nv);
                let exp = models_of(v);
                // exact; the false constant iff unsatisfiable; no variable decided twice on a path
                if got != exp || (exp == 0) != p.is_false() || !no_repeat(p, 0) {
                    note(t, cfg, v, json!({"models_tt": got, "is_false_constant": p.is_false(), "no_repeat": no_repeat(p, 0)}));
                }
            }
            Err(m) => note(t, cfg, v, json!({"panic": m})),
        }
    }
}

pub fn replay_cnfvec(args: &Args) {
    let text = std::fs::read_to_string(args.str("in", "")).expect("read vectors");
    let nv = args.num("nv", 3) as usize;
    let which = args.str("which", "bdd");
    let seed = args.num("seed", 1);
    let vecs: Vec<Value> = text.lines().map(|l| serde_json::from_str(l).unwrap()).collect();
    let mut rng = Rng::new(seed ^ 0xc4f);
    let orders: Vec<Vec<usize>> = if nv <= 3 { perms(nv) } else { vec![(0..nv).collect(), (0..nv).rev().collect(), rng.perm(nv), rng.perm(nv)] };
    let vl = |o: &Vec<usize>| VarOrder::new(&o.iter().map(|v| VarLabel::new_usize(*v)).collect::<Vec<_>>());
    let mut t = Tally { vectors: vecs.len(), steps: 0, mismatches: 0, bad: vec![] };
    let mut configs = 0;
    match which.as_str() {
        "bdd" => {
            for (i, o) in orders.iter().enumerate() {
                configs += 1;
                let name = format!("bdd order {o:?}");
                if i % 2 == 0 {
                    rsdd::verif::set_table_capacity(0);
                    rsdd::verif::set_lru_capacity(None);
                    let b = RobddBuilder::<AllIteTable<BddPtr>>::new(vl(o));
                    run_bdd(&b, &name, i, nv, &vecs, &mut t);
                } else {
                    rsdd::verif::set_table_capacity(2);
                    rsdd::verif::set_lru_capacity(Some(1));
                    let b = RobddBuilder::<LruIteTable<BddPtr>>::new(vl(o));
                    run_bdd(&b, &(name + " lru/tiny tables"), i, nv, &vecs, &mut t);
                }
            }
        }
        "sdd" => {
            for (i, o) in orders.iter().enumerate() {
                let labels: Vec<VarLabel> = o.iter().map(|v| VarLabel::new_usize(*v)).collect();
                let vt = match i % 3 {
                    0 => VTree::right_linear(&labels),
                    1 => VTree::left_linear(&labels),
                    _ => VTree::even_split(&labels, 1),
                };
                for compress in [true, false] {
                    if !compress && i % 2 == 1 {
                        continue;
                    }
                    configs += 1;
                    rsdd::verif::set_table_capacity(if i % 2 == 0 { 0 } else { 2 });
                    let mut bm = CompressionSddBuilder::new(vt.clone());
                    SddBuilder::set_compression(&mut bm, compress);
                    let b = &bm;
                    let name = format!("sdd vtree kind {} over {o:?} compress={compress}", i % 3);
                    for v in &vecs {
                        let cnf = Cnf::new(&clauses_of(v));
                        t.steps += 1;
                        match guarded(|| b.compile_cnf(&cnf)) {
                            Ok(p) => {
                                let got = sdd_tt(p, nv);
                                if got != models_of(v) {
                                    note(&mut t, &name, v, json!({"models_tt": got}));
                                }
                            }
                            Err(m) => note(&mut t, &name, v, json!({"panic": m})),
                        }
                    }
                }
            }
        }
        "sdd-dtree" => {
            // the vtree derived from the CNF's own dtree (min-fill / linear / reversed elimination order): one builder per CNF
            use rsdd::repr::DTree;
            configs += 3;
            for v in &vecs {
                let cnf = Cnf::new(&clauses_of(v));
                if cnf.clauses().is_empty() || cnf.clauses().iter().any(|c| c.is_empty()) || cnf.num_vars() == 0 {
                    continue; // domain of DTree::from_cnf / from_dtree: at least one clause, every clause mentions a variable
                }
                let n = cnf.num_vars();
                for (k, elim) in [cnf.min_fill_order(), VarOrder::linear_order(n), vl(&(0..n).rev().collect())].into_iter().enumerate() {
                    t.steps += 1;
                    let name = format!("sdd dtree-derived vtree, elimination order kind {k}");
                    let r = guarded(|| {
                        let dt = DTree::from_cnf(&cnf, &elim);
                        let vt = VTree::from_dtree(&dt).expect("a vtree");
                        let bm = CompressionSddBuilder::new(vt);
                        let p = bm.compile_cnf(&cnf);
                        sdd_tt(p, nv)
                    });
                    match r {
                        Ok(got) => {
                            if got != models_of(v) {
                                note(&mut t, &name, v, json!({"models_tt": got}));
                            }
                        }
                        Err(m) => note(&mut t, &name, v, json!({"panic": m})),
                    }
                }
            }
        }
        "topdown" => {
            for (i, o) in orders.iter().enumerate() {
                for store in ["std", "sem"] {
                    configs += 1;
                    rsdd::verif::set_table_capacity(if i % 2 == 0 { 0 } else { 2 });
                    let name = format!("top-down {store} order {o:?}");
                    if store == "std" {
                        let b = StandardDecisionNNFBuilder::new(vl(o));
                        run_td(&b, &name, nv, &vecs, &mut t);
                    } else {
                        let b = SemanticDecisionNNFBuilder::<{ primes::U64_LARGEST }>::new(vl(o));
                        run_td(&b, &name, nv, &vecs, &mut t);
                    }
                }
            }
        }
        _ => panic!("unknown compiler family {which}"),
    }
    rsdd::verif::set_table_capacity(0);
    rsdd::verif::set_lru_capacity(None);
    println!("{}", json!({"vectors": t.vectors, "steps": t.steps, "configs": configs, "mismatches": t.mismatches, "bad": t.bad}));
}
